SPECIFICATION Spec
CONSTANTS
  Seeds <- MCSeeds
  ScenariosOf <- MCScenariosOf
  L1Table <- MCL1Table
  SJTable <- MCSJTable
  Mutant = "none"
  MaxChunk = 5
  PlumbLen = 4
  FragLen = 0
  FragLen2 = 0
  FragLenSJ = 0
  FragAll = FALSE
  FragAlpha = "frag"
  WithPlumb = TRUE
  WithFrag = FALSE
INVARIANTS TypeOK DesignOK MachineOK Emitted
VIEW View

SPECIFICATION Spec
CONSTANTS
  Seeds <- MCSeeds
  ScenariosOf <- MCScenariosOf
  MaxRead = 4
  KF_FastInvertSkipsStopLine = FALSE
  KF_ReaderByteCountIgnoresPartial = FALSE
  MaxLines = 3
  Bodies <- BodiesLen
  CtxMax = 1
  Terms = {"lf", "crlf"}
  Strats = {"reader", "slice"}
  Paths = {"slow", "fast"}
  Caps = {1, 2, 3, 5}
  Flags = {"inv", "stopnm"}
  Bins = {"none"}
  PlanKinds = {}
INVARIANTS BufInv ModelOK Emitted
VIEW View

SPECIFICATION Spec
CONSTANTS
  Seeds <- MCSeeds
  ScenariosOf <- MCScenariosOf
  L1Table <- MCL1Table
  SJTable <- MCSJTable
  Mutant = "none"
  MaxChunk = 5
  PlumbLen = 3
  FragLen = 4
  FragLen2 = 3
  FragLenSJ = 3
  FragAll = FALSE
  FragAlpha = "frag"
  WithPlumb = TRUE
  WithFrag = TRUE
INVARIANTS TypeOK DesignOK MachineOK Emitted
VIEW View

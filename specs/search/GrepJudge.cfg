SPECIFICATION Spec
INVARIANT Verdict

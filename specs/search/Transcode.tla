---------------------------- MODULE Transcode ----------------------------
(* C17: transcoded input is searched as its UTF-8 equivalent.

   Two layers.

   (1) The DEFINITION.  Decode(bytes, label) is the byte string that must be searched:
         label = "none"            the raw bytes, byte-order mark included
         a mark is present         the mark selects the encoding (it overrides any other label) and is removed
         otherwise, a label        the label's encoding
         otherwise ("auto")        the raw bytes
       UTF-16 is defined declaratively over the whole byte string (Dec16: pair the bytes to code
       units, pair the surrogates, U+FFFD for every unpaired surrogate and for a truncated tail).
       UTF-8 input is only generated well-formed, so it decodes to itself.  latin-1 (= windows-1252
       in the Encoding Standard) and shift_jis are CONSTANT tables obtained once from encoding_rs
       (trusted); what is checked for them is the plumbing around the table.

   (2) The MACHINE.  The bytes arrive in arbitrary chunks.  A three-byte sniffing window collects
       the first bytes (however fragmented), decides on the mark, and hands the rest on; a UTF-16
       state machine over code units (pending odd byte `ob`, pending lead surrogate `ls`) consumes
       chunk after chunk.  TLC explores every chunking (chunk sizes 1..MaxChunk) of every bounded
       scenario and checks  MachineOK : the machine's output at end of input equals Decode,
       i.e. the transcoding does not depend on the fragmentation.

   Every terminal state is emitted as a scenario together with what the spec predicts: the
   transcoding `dec` and the GrepModel result streams of searching `dec` (a line matches iff it
   contains the byte 'm').  One chunking per distinct set of cut kinds is emitted (`ck` is part
   of the VIEW, the cut history `cuts` is not).

   scn : [bom \in {"none","le","be","u8"}, enc \in {"le","be","u8","l1","sj"}, text \in Seq(symbol),
          odd \in BOOLEAN, label, frag \in BOOLEAN, alpha (name of the text alphabet), maxlen]       *)
EXTENDS GrepModel, TLC, Json

CONSTANTS Seeds,            \* initial (partial) scenarios: everything but the text
          ScenariosOf(_),   \* seed -> set of scenarios
          MaxChunk,         \* largest chunk handed to the decoder in one step (fragmenting scenarios)
          L1Table,          \* 256 entries: L1Table[b+1] = UTF-8 of byte b in windows-1252 (encoding_rs)
          SJTable,          \* sequence of <<token bytes, UTF-8 bytes>> for the shift_jis tokens in use (encoding_rs)
          Mutant            \* "none"; "drop_lead" = a (wrong) machine that forgets a pending lead surrogate between
                            \* chunks - used only to show that MachineOK rejects it (C17_mutant.cfg)

VARIABLES scn, inp, pc, eff, pos, peek, pend, ob, ls, ne, fl, out, ck, cuts

vars == <<scn, inp, pc, eff, pos, peek, pend, ob, ls, ne, fl, out, ck, cuts>>
\* inp is a function of scn; cuts is history
View == <<scn, pc, eff, pos, peek, pend, ob, ls, ne, fl, out, ck>>

NOB == 256                       \* "no pending byte"
FFFD == <<239, 191, 189>>        \* U+FFFD in UTF-8

\* ------------------------------------------------------------------ Unicode arithmetic
IsLead(u) == u >= 55296 /\ u <= 56319
IsTrail(u) == u >= 56320 /\ u <= 57343
Astral(hi, lo) == 65536 + ((hi - 55296) * 1024) + (lo - 56320)

Utf8(cp) ==
  IF cp < 128 THEN <<cp>>
  ELSE IF cp < 2048 THEN <<192 + (cp \div 64), 128 + (cp % 64)>>
  ELSE IF cp < 65536 THEN <<224 + (cp \div 4096), 128 + ((cp \div 64) % 64), 128 + (cp % 64)>>
  ELSE <<240 + (cp \div 262144), 128 + ((cp \div 4096) % 64), 128 + ((cp \div 64) % 64), 128 + (cp % 64)>>

\* ------------------------------------------------------------------ rendering a scenario to bytes
\* UTF-16 code units of a text symbol
Units(sym) ==
  CASE sym = "m" -> <<109>> [] sym = "x" -> <<120>> [] sym = "nl" -> <<10>> [] sym = "e" -> <<233>>
    [] sym = "hi" -> <<55357>> [] sym = "lo" -> <<56832>> [] sym = "ast" -> <<55357, 56832>>
    [] sym = "rep" -> <<65533>>
    [] sym = "feff" -> <<65279>>      \* U+FEFF as a character of the text (only generated right after a mark: "the mark" is one)

UnitBytes(u, e) == IF e = "le" THEN <<u % 256, u \div 256>> ELSE <<u \div 256, u % 256>>

\* the bytes of one symbol in the payload encoding (a "token")
TokBytes(sym, e) ==
  IF e \in {"le", "be"} THEN
    LET us == Units(sym) IN
    IF Len(us) = 1 THEN UnitBytes(us[1], e) ELSE UnitBytes(us[1], e) \o UnitBytes(us[2], e)
  ELSE IF e = "u8" THEN
    IF sym = "bad" THEN <<255>>          \* a byte that never occurs in UTF-8: malformed, one U+FFFD when decoded by label
    ELSE
    LET us == Units(sym) IN
    IF Len(us) = 1 THEN Utf8(us[1]) ELSE Utf8(Astral(us[1], us[2]))     \* no lone surrogates in UTF-8 texts
  ELSE IF e = "l1" THEN
    CASE sym = "m" -> <<109>> [] sym = "x" -> <<120>> [] sym = "nl" -> <<10>> [] sym = "e" -> <<233>>
      [] sym = "euro" -> <<128>>
  ELSE \* "sj"
    CASE sym = "m" -> <<109>> [] sym = "x" -> <<120>> [] sym = "nl" -> <<10>> [] sym = "kana" -> <<177>>
      [] sym = "hira" -> <<130, 160>> [] sym = "mi" -> <<131, 109>>      \* second byte of "mi" is an ASCII 'm'

BomBytes(b) == CASE b = "le" -> <<255, 254>> [] b = "be" -> <<254, 255>> [] b = "u8" -> <<239, 187, 191>>
                 [] b = "none" -> <<>>

\* the truncated tail: half a code unit / a shift_jis lead byte without trail
OddByte(e) == IF e = "sj" THEN 130 ELSE 109

RECURSIVE Payload(_, _)
Payload(text, e) == IF text = <<>> THEN <<>> ELSE TokBytes(Head(text), e) \o Payload(Tail(text), e)

BytesOf(s) == BomBytes(s.bom) \o Payload(s.text, s.enc) \o (IF s.odd THEN <<OddByte(s.enc)>> ELSE <<>>)

\* offsets at which a token starts, and offsets between the two units of a surrogate pair
RECURSIVE StartsFrom(_, _, _)
StartsFrom(text, e, o) ==
  IF text = <<>> THEN {o} ELSE {o} \cup StartsFrom(Tail(text), e, o + Len(TokBytes(Head(text), e)))
RECURSIVE MidsFrom(_, _, _)
MidsFrom(text, e, o) ==
  IF text = <<>> THEN {}
  ELSE (IF Head(text) = "ast" /\ e \in {"le", "be"} THEN {o + 2} ELSE {})
       \cup MidsFrom(Tail(text), e, o + Len(TokBytes(Head(text), e)))

Derive(s) == LET bl == Len(BomBytes(s.bom)) IN
  [bytes |-> BytesOf(s), bl |-> bl, starts |-> StartsFrom(s.text, s.enc, bl), mids |-> MidsFrom(s.text, s.enc, bl)]

\* what a chunk boundary at offset c (0 < c < N) splits
CutKind(c) == IF c < inp.bl THEN "bom"
              ELSE IF c \in inp.mids THEN "pair"
              ELSE IF c \in inp.starts THEN "clean"
              ELSE "unit"

\* ------------------------------------------------------------------ (1) the definition
Take(s, n) == SubSeq(s, 1, Min(n, Len(s)))
Drop(s, n) == SubSeq(s, n + 1, Len(s))

\* the mark at the beginning of a byte string
BomOf(bs) ==
  IF Len(bs) >= 2 /\ bs[1] = 255 /\ bs[2] = 254 THEN "le"
  ELSE IF Len(bs) >= 2 /\ bs[1] = 254 /\ bs[2] = 255 THEN "be"
  ELSE IF Len(bs) >= 3 /\ bs[1] = 239 /\ bs[2] = 187 /\ bs[3] = 191 THEN "u8"
  ELSE "none"

EncOfLabel(l) == CASE l = "utf-16le" -> "le" [] l = "utf-16be" -> "be" [] l = "utf-8" -> "u8"
                   [] l = "latin1" -> "l1" [] l = "shift_jis" -> "sj"

\* effective encoding: "none" disables everything; a mark overrides a label; no mark, no label: raw
Effective(bom, label) ==
  IF label = "none" THEN "raw"
  ELSE IF bom # "none" THEN bom
  ELSE IF label = "auto" THEN "raw"
  ELSE EncOfLabel(label)
Stripped(bom, label) == IF label = "none" THEN 0 ELSE Len(BomBytes(bom))

U16(b1, b2, e) == IF e = "le" THEN b1 + (256 * b2) ELSE (256 * b1) + b2

\* UTF-16 -> UTF-8 over the whole byte string (WHATWG Encoding Standard error handling: one U+FFFD per
\* unpaired surrogate, one for a truncated end of input, an unpaired lead does not swallow its successor)
RECURSIVE Dec16(_, _)
Dec16(bs, e) ==
  IF bs = <<>> THEN <<>>
  ELSE IF Len(bs) = 1 THEN FFFD
  ELSE LET u == U16(bs[1], bs[2], e) IN
    IF IsLead(u) THEN
      IF Len(bs) >= 4 /\ IsTrail(U16(bs[3], bs[4], e))
      THEN Utf8(Astral(u, U16(bs[3], bs[4], e))) \o Dec16(Drop(bs, 4), e)
      ELSE IF Len(bs) <= 3 THEN FFFD              \* input ends inside the pair: one error
      ELSE FFFD \o Dec16(Drop(bs, 2), e)
    ELSE IF IsTrail(u) THEN FFFD \o Dec16(Drop(bs, 2), e)
    ELSE Utf8(u) \o Dec16(Drop(bs, 2), e)

RECURSIVE DecL1(_)
DecL1(bs) == IF bs = <<>> THEN <<>> ELSE L1Table[bs[1] + 1] \o DecL1(Tail(bs))

SJLead(b) == (b >= 129 /\ b <= 159) \/ (b >= 224 /\ b <= 252)
SJ(tok) == LET i == CHOOSE j \in 1..Len(SJTable) : SJTable[j][1] = tok IN SJTable[i][2]
RECURSIVE DecSJ(_)
DecSJ(bs) ==
  IF bs = <<>> THEN <<>>
  ELSE IF SJLead(bs[1]) /\ Len(bs) >= 2 THEN SJ(<<bs[1], bs[2]>>) \o DecSJ(Drop(bs, 2))
  ELSE SJ(<<bs[1]>>) \o DecSJ(Tail(bs))

\* UTF-8 -> UTF-8: the generated texts are well-formed except for the byte 255 ("bad"), which becomes U+FFFD
RECURSIVE DecU8(_)
DecU8(bs) == IF bs = <<>> THEN <<>> ELSE (IF bs[1] = 255 THEN FFFD ELSE <<bs[1]>>) \o DecU8(Tail(bs))
BadBytes(bs) == Cardinality({i \in 1..Len(bs) : bs[i] = 255})

DecodeAs(bs, e) ==
  CASE e = "raw" -> bs
    [] e = "u8" -> DecU8(bs)
    [] e \in {"le", "be"} -> Dec16(bs, e)
    [] e = "l1" -> DecL1(bs)
    [] e = "sj" -> DecSJ(bs)

Decode(bs, label) ==
  LET bom == BomOf(bs) IN DecodeAs(Drop(bs, Stripped(bom, label)), Effective(bom, label))

\* scenarios for which this module defines the transcoding
Sensible(s) ==
  LET e == Effective(s.bom, s.label) IN
  /\ (s.odd => s.enc \in {"le", "be", "sj"})
  /\ (e = "u8" => s.enc = "u8")
  /\ (e = "sj" => s.enc = "sj")
  /\ (s.enc = "u8" => \A i \in 1..Len(s.text) : s.text[i] \notin {"hi", "lo"})
  \* malformed UTF-8 only where the label (not a mark) selects UTF-8: a marked input is passed through by ripgrep
  /\ ((\E i \in 1..Len(s.text) : s.text[i] = "bad") => s.enc = "u8" /\ s.bom = "none" /\ s.label = "utf-8")

\* which clause of the property a scenario exercises
Clause(s) ==
  IF s.label = "none" THEN "none_is_raw"
  ELSE IF s.bom # "none" THEN (IF s.label = "auto" THEN "bom_removed" ELSE "bom_overrides_label")
  ELSE "label"

\* ------------------------------------------------------------------ (2) the machine
\* one code unit through the surrogate state: st = [ls, ne, out]
UnitStep(st, u) ==
  IF st.ls # 0 /\ IsTrail(u) THEN [ls |-> 0, ne |-> st.ne, out |-> st.out \o Utf8(Astral(st.ls, u))]
  ELSE LET s1 == IF st.ls # 0 THEN [ls |-> 0, ne |-> st.ne + 1, out |-> st.out \o FFFD] ELSE st IN
       IF IsLead(u) THEN [s1 EXCEPT !.ls = u]
       ELSE IF IsTrail(u) THEN [s1 EXCEPT !.ne = @ + 1, !.out = @ \o FFFD]
       ELSE [s1 EXCEPT !.out = @ \o Utf8(u)]

\* st = [ob, ls, ne, out]
ByteStep(st, b, e) ==
  IF st.ob = NOB THEN [st EXCEPT !.ob = b]
  ELSE LET r == UnitStep([ls |-> st.ls, ne |-> st.ne, out |-> st.out], U16(st.ob, b, e))
       IN [ob |-> NOB, ls |-> r.ls, ne |-> r.ne, out |-> r.out]

RECURSIVE FeedBytes(_, _, _)
FeedBytes(st, bs, e) == IF bs = <<>> THEN st ELSE FeedBytes(ByteStep(st, Head(bs), e), Tail(bs), e)

\* a chunk reaches the decoder
Feed(bs) ==
  IF eff \in {"le", "be"} THEN
    LET r == FeedBytes([ob |-> ob, ls |-> IF Mutant = "drop_lead" THEN 0 ELSE ls, ne |-> ne, out |-> out], bs, eff)
    IN ob' = r.ob /\ ls' = r.ls /\ ne' = r.ne /\ out' = r.out
  ELSE out' = out \o bs /\ UNCHANGED <<ob, ls, ne>>       \* collected; table / identity applied at the end

N == Len(inp.bytes)
Chunk(k) == SubSeq(inp.bytes, pos + 1, pos + k)
NoteCut(c) == IF c < N THEN cuts' = Append(cuts, c) /\ ck' = ck \cup ({CutKind(c)} \ {"clean"}) ELSE UNCHANGED <<cuts, ck>>

Init == /\ scn \in Seeds
        /\ inp = [bytes |-> <<>>, bl |-> 0, starts |-> {}, mids |-> {}]
        /\ pc = "pick" /\ eff = "raw" /\ pos = 0 /\ peek = <<>> /\ pend = <<>>
        /\ ob = NOB /\ ls = 0 /\ ne = 0 /\ fl = FALSE /\ out = <<>> /\ ck = {} /\ cuts = <<>>

Pick == /\ pc = "pick"
        /\ \E s \in ScenariosOf(scn) :
             /\ scn' = s /\ inp' = Derive(s)
             /\ pc' = IF s.label = "none" THEN "feed" ELSE "sniff"
        /\ UNCHANGED <<eff, pos, peek, pend, ob, ls, ne, fl, out, ck, cuts>>

\* the sniffing window asks for the bytes it still lacks; the source may deliver fewer
SniffRead ==
  /\ pc = "sniff" /\ Len(peek) < 3 /\ pos < N
  /\ LET req == Min(3 - Len(peek), N - pos) IN
     \E k \in (IF scn.frag THEN 1..req ELSE {req}) :
       /\ peek' = peek \o Chunk(k) /\ pos' = pos + k
       /\ IF k < req THEN NoteCut(pos + k) ELSE UNCHANGED <<cuts, ck>>
  /\ UNCHANGED <<scn, inp, pc, eff, pend, ob, ls, ne, fl, out>>

SniffDone ==
  /\ pc = "sniff" /\ (Len(peek) = 3 \/ pos = N)
  /\ LET bom == BomOf(peek) IN
     /\ eff' = Effective(bom, scn.label)
     /\ pend' = Drop(peek, Stripped(bom, scn.label))
  /\ pc' = "feed"
  /\ UNCHANGED <<scn, inp, pos, peek, ob, ls, ne, fl, out, ck, cuts>>

\* what is left of the window goes to the decoder first (in pieces, if the decoder's buffers are small)
FeedPend ==
  /\ pc = "feed" /\ pend # <<>>
  /\ \E k \in (IF scn.frag THEN 1..Len(pend) ELSE {Len(pend)}) :
       /\ Feed(Take(pend, k)) /\ pend' = Drop(pend, k)
  /\ UNCHANGED <<scn, inp, pc, eff, pos, peek, fl, ck, cuts>>

FeedRead ==
  /\ pc = "feed" /\ pend = <<>> /\ pos < N
  /\ \E k \in (IF scn.frag THEN 1..Min(MaxChunk, N - pos) ELSE {N - pos}) :
       /\ Feed(Chunk(k)) /\ pos' = pos + k /\ NoteCut(pos + k)
  /\ UNCHANGED <<scn, inp, pc, eff, peek, pend, fl>>

\* end of input: what is still pending (half a code unit, a lead surrogate, a table encoding's lead byte) is
\* malformed and becomes one U+FFFD; fl records that this flush produced output
Eof ==
  /\ pc = "feed" /\ pend = <<>> /\ pos = N
  /\ IF eff \in {"le", "be"}
     THEN IF ob # NOB \/ ls # 0
          THEN out' = out \o FFFD /\ ne' = ne + 1 /\ ob' = NOB /\ ls' = 0 /\ fl' = TRUE
          ELSE UNCHANGED <<out, ne, ob, ls, fl>>
     ELSE out' = DecodeAs(out, eff) /\ fl' = (eff = "sj" /\ scn.odd) /\ UNCHANGED <<ne, ob, ls>>
  /\ pc' = "done"
  /\ UNCHANGED <<scn, inp, eff, pos, peek, pend, ck, cuts>>

Next == Pick \/ SniffRead \/ SniffDone \/ FeedPend \/ FeedRead \/ Eof
Spec == Init /\ [][Next]_vars

Done == pc = "done"

\* ------------------------------------------------------------------ properties of the design
\* the transcoding does not depend on the fragmentation and is the defined one
MachineOK == Done => out = Decode(inp.bytes, scn.label)

\* the clauses of C17 as theorems about Decode
DesignOK == pc # "pick" =>
  LET bs == inp.bytes
      bom == BomOf(bs) IN
  /\ bom = scn.bom                                                            \* no accidental marks in the generator
  /\ Decode(bs, "none") = bs                                                  \* none: raw bytes, mark included
  /\ (bom # "none" => /\ Decode(bs, scn.label) = (IF scn.label = "none" THEN bs ELSE Decode(bs, "auto"))   \* mark beats label
                      /\ Decode(bs, "auto") = DecodeAs(Drop(bs, Len(BomBytes(bom))), bom))               \* mark removed
  /\ (bom = "none" /\ scn.label \notin {"none", "auto"} => Decode(bs, scn.label) = DecodeAs(bs, EncOfLabel(scn.label)))

TypeOK == /\ ob \in 0..256 /\ (ls = 0 \/ IsLead(ls)) /\ pos <= N /\ Len(peek) <= 3
          /\ (pc \in {"pick"} => pos = 0)
          /\ (eff \notin {"le", "be"} => ob = NOB /\ ls = 0 /\ ne = 0)

\* ------------------------------------------------------------------ emission (scenario + prediction)
CfgPlain == [A |-> 0, B |-> 0, inv |-> FALSE, pass |-> FALSE, stopnm |-> FALSE, lnum |-> TRUE, term |-> "lf"]
CfgPass == [CfgPlain EXCEPT !.pass = TRUE]

\* the known deviation (dependency encoding_rs_io): a UTF-8 mark is removed but does NOT override an explicit label: the
\* rest is decoded as the label says.  Emitted so that the harness can tell this behaviour from any other wrong one.
\* (not for shift_jis: the decode table taken from encoding_rs covers the generated tokens only)
\* a second known deviation (dependency encoding_rs_io): after a UTF-16 mark a text that itself begins with U+FEFF loses
\* that character too (the mark is stripped by the reader, the decoder then removes "its" mark once more)
FeffDec == IF scn.text # <<>> /\ scn.text[1] = "feff" /\ scn.bom # "none" /\ scn.label # "none"
           THEN LET bs == inp.bytes IN
                DecodeAs(Drop(bs, Stripped(BomOf(bs), scn.label) + Len(TokBytes("feff", scn.enc))), Effective(BomOf(bs), scn.label))
           ELSE <<>>
AltDec == IF scn.bom = "u8" /\ scn.label \in {"utf-16le", "utf-16be", "latin1"}
          THEN DecodeAs(Drop(inp.bytes, 3), EncOfLabel(scn.label)) ELSE <<>>
Emitted == Done =>
  LET dec == Decode(inp.bytes, scn.label) IN
  /\ ModelSane(dec, CfgPlain) /\ ModelSane(dec, CfgPass)
  /\ PrintT(<<"EMIT", ToJson([scn |-> scn, bytes |-> inp.bytes, dec |-> dec, eff |-> eff,
                              strip |-> Stripped(BomOf(inp.bytes), scn.label), clause |-> Clause(scn),
                              mal |-> ne + (IF eff = "sj" /\ scn.odd THEN 1 ELSE 0) + (IF eff = "u8" THEN BadBytes(inp.bytes) ELSE 0), flush |-> fl, cuts |-> cuts, ck |-> ck,
                              ref |-> Expected(dec, CfgPlain), refp |-> Expected(dec, CfgPass),
                              altdec |-> AltDec, altref |-> Expected(AltDec, CfgPlain), altrefp |-> Expected(AltDec, CfgPass),
                              feff |-> (scn.text # <<>> /\ scn.text[1] = "feff"),
                              feffdec |-> FeffDec, feffref |-> Expected(FeffDec, CfgPlain), feffrefp |-> Expected(FeffDec, CfgPass),
                              ok |-> (out = dec)])>>)
=============================================================================

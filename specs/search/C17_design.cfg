SPECIFICATION Spec
CONSTANTS
  Seeds <- MCSeeds
  ScenariosOf <- MCScenariosOf
  L1Table <- MCL1Table
  SJTable <- MCSJTable
  Mutant = "none"
  MaxChunk = 6
  PlumbLen = 0
  FragLen = 5
  FragLen2 = 4
  FragLenSJ = 1
  FragAll = TRUE
  FragAlpha = "full"
  WithPlumb = FALSE
  WithFrag = TRUE
INVARIANTS TypeOK DesignOK MachineOK
VIEW View

SPECIFICATION Spec
CONSTANTS
  Seeds <- MCSeeds
  ScenariosOf <- MCScenariosOf
  MaxRead = 3
  KF_FastInvertSkipsStopLine = FALSE
  KF_ReaderByteCountIgnoresPartial = FALSE
  MaxLines = 4
  Bodies <- BodiesMX
  CtxMax = 2
  Terms = {"lf", "crlf"}
  Strats = {"reader", "slice"}
  Paths = {"slow", "fast", "cand"}
  Caps = {1, 3}
  Flags = {"inv", "pass", "stopnm"}
  Bins = {"none"}
  PlanKinds = {"stop", "err", "fault"}
INVARIANTS BufInv ModelOK Emitted
VIEW View

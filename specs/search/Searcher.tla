----------------------------- MODULE Searcher -----------------------------
(* Implementation-shaped model of grep-searcher's line-oriented strategies:
     glue.rs   ReadByLine::run / fill,  SliceByLine::run
     line_buffer.rs  LineBuffer::fill / roll / ensure_capacity / consume (incl. binary Quit/Convert)
     core.rs   Core::roll, match_by_line (slow, fast, fast-invert), *_context_by_line, sink_*,
               sink_break_context, count_lines, detect_binary
   The nondeterminism is the environment's: how many bytes each read() returns, where a read
   fails, and at which delivered event the sink says stop / fails.

   The roll buffer is a window onto the input: buf[i] = inp[base + i + 1]; bytes are only ever
   copied, except under binary Convert where NUL shows as the terminator byte.

   scn : [inp, cfg, strat \in {"reader","slice"}, path \in {"slow","fast","cand"}, cap0,
          bin \in {"none","quit","convert"}, stopAt, errAt, faultAt, faultKind]
   cfg : see GrepModel.                                                                     *)
EXTENDS GrepModel, TLC, Json

CONSTANTS Seeds,          \* set of initial (partial) scenario choices; parallelises scenario generation
          ScenariosOf(_),  \* seed -> set of scn records
          MaxRead,         \* bound on bytes returned by one read()
          KF_FastInvertSkipsStopLine, \* named deviations: behaviour before the "fix:" commits (for regression demos)
          KF_ReaderByteCountIgnoresPartial

VARIABLES scn, pc,
          base, pos, lastterm, end, cap, binoff,       \* LineBuffer (binoff: 0 = None, else offset+1)
          core,                                        \* Core fields + out + halt (a record)
          consumed, oldLen, alreadyBin, didread,       \* locals of ReadByLine::fill
          nreads, result, reads                        \* read() calls so far; search result; history

vars == <<scn, pc, base, pos, lastterm, end, cap, binoff, core, consumed, oldLen, alreadyBin,
          didread, nreads, result, reads>>
View == <<scn, pc, base, pos, lastterm, end, cap, binoff, core, consumed, oldLen, alreadyBin,
          didread, nreads, result>>

inp == scn.inp
cfg == scn.cfg
N == Len(inp)
TB == TermByte(cfg.term)
CA == IF cfg.pass THEN 0 ELSE cfg.A     \* SearcherBuilder::build zeroes contexts under passthru
CBf == IF cfg.pass THEN 0 ELSE cfg.B
MaxCtx == Max(CA, CBf)

\* ---------------------------------------------------------------- views
\* a view = [o |-> absolute offset of its byte 0, n |-> length, conv |-> NUL shown as terminator]
VByte(v, i) == LET b == inp[v.o + i + 1] IN IF v.conv /\ b = NUL THEN TB ELSE b
RollView == [o |-> base + pos, n |-> lastterm - pos, conv |-> scn.bin = "convert"]
SliceView == [o |-> 0, n |-> N, conv |-> FALSE]

CountTerm(v, a, b) == Cardinality({i \in a..(b-1) : VByte(v, i) = TB})

\* LineStep: end of the line starting at s, within [s, lim)
LineEndV(v, s, lim) ==
  LET hits == {i \in s..(lim-1) : VByte(v, i) = TB}
  IN IF hits = {} THEN lim ELSE (CHOOSE i \in hits : \A j \in hits : i <= j) + 1

\* lines::preceding(&buf[lo..hi], count) + lo
Preceding(v, lo, hi, count) ==
  IF hi = lo THEN lo
  ELSE LET p0 == IF VByte(v, hi-1) = TB THEN hi - 1 ELSE hi
           RECURSIVE Go(_, _)
           Go(p, c) == LET hits == {i \in lo..(p-1) : VByte(v, i) = TB} IN
                       IF hits = {} THEN lo
                       ELSE LET i == CHOOSE x \in hits : \A y \in hits : y <= x IN
                            IF c = 0 THEN i + 1 ELSE IF i = lo THEN lo ELSE Go(i, c - 1)
       IN Go(p0, count)

LineHas(v, s, e, b) == \E i \in s..(e-1) : inp[v.o + i + 1] = b

\* ---------------------------------------------------------------- the sink machine
\* st = core record: [cp, abs, lc, ln, lv, al, hs, hm, bo, out, halt, pt]
\*   pt: ReadByLine::run's `partial` (bytes of the current buffer searched before a requested stop)
\*   halt: "no" | "stop" (a callback returned false / detect_binary said quit / stop_on_nonmatch) | "err"
Emit(st, ev) ==
  LET o2 == Append(st.out, ev)
      h == IF Len(o2) = scn.errAt THEN "err" ELSE IF Len(o2) = scn.stopAt THEN "stop" ELSE "no"
  IN [st EXCEPT !.out = o2, !.halt = h]

CountLines(st, v, upto) ==
  IF ~cfg.lnum \/ st.lc >= upto THEN st
  ELSE [st EXCEPT !.ln = @ + CountTerm(v, st.lc, upto), !.lc = upto]

LnOf(st) == IF cfg.lnum THEN st.ln ELSE 0

\* Core::detect_binary(buf, range) for the slice strategies; result in st.halt / st.bo
DetectBinary(st, v, lo, hi) ==
  IF scn.strat # "slice" \/ scn.bin = "none" THEN st
  ELSE IF st.bo > 0 THEN (IF scn.bin = "quit" THEN [st EXCEPT !.halt = "stop"] ELSE st)
  ELSE LET hits == {i \in lo..(hi-1) : inp[v.o + i + 1] = NUL} IN
       IF hits = {} THEN st
       ELSE LET i == CHOOSE x \in hits : \A y \in hits : x <= y
                s1 == Emit([st EXCEPT !.bo = i + 1], Ev("binary", 0, i, 0))
            IN IF s1.halt # "no" THEN s1
               ELSE IF scn.bin = "quit" THEN [s1 EXCEPT !.halt = "stop"] ELSE s1

SinkBreak(st, start) ==
  IF (CA > 0 \/ CBf > 0) /\ st.hs /\ st.lv < start THEN Emit(st, BreakEv) ELSE st

SinkMatched(st0, v, s, e) ==
  LET s1 == DetectBinary(st0, v, s, e) IN
  IF s1.halt # "no" THEN s1 ELSE
  LET s2 == SinkBreak(s1, s) IN
  IF s2.halt # "no" THEN s2 ELSE
  LET s3 == CountLines(s2, v, s)
      s4 == Emit(s3, Ev("match", LnOf(s3), s3.abs + s, e - s))
  IN IF s4.halt # "no" THEN s4 ELSE [s4 EXCEPT !.lv = e, !.al = CA, !.hs = TRUE]

\* kind \in {"before","after","other"}
SinkCtx(st0, v, s, e, kind) ==
  LET s1 == DetectBinary(st0, v, s, e) IN
  IF s1.halt # "no" THEN s1 ELSE
  LET s3 == CountLines(s1, v, s)
      s4 == Emit(s3, Ev("ctx", LnOf(s3), s3.abs + s, e - s))
  IN IF s4.halt # "no" THEN s4
     ELSE [s4 EXCEPT !.lv = e, !.hs = TRUE, !.al = IF kind = "after" THEN @ - 1 ELSE @]

BeforeCtx(st, v, upto) ==
  IF CBf = 0 \/ st.lv >= upto THEN st
  ELSE LET b0 == Preceding(v, st.lv, upto, CBf - 1)
           RECURSIVE Go(_, _)
           Go(s, p) == IF p >= upto \/ s.halt # "no" THEN s
                       ELSE LET e == LineEndV(v, p, upto)
                                s1 == SinkBreak(s, p)
                            IN IF s1.halt # "no" THEN s1 ELSE Go(SinkCtx(s1, v, p, e, "before"), e)
       IN Go(st, b0)

AfterCtx(st, v, upto) ==
  IF st.al = 0 THEN st
  ELSE LET RECURSIVE Go(_, _)
           Go(s, p) == IF p >= upto \/ s.halt # "no" \/ s.al = 0 THEN s
                       ELSE LET e == LineEndV(v, p, upto) IN Go(SinkCtx(s, v, p, e, "after"), e)
       IN Go(st, st.lv)

OtherCtx(st, v, upto) ==
  LET RECURSIVE Go(_, _)
      Go(s, p) == IF p >= upto \/ s.halt # "no" THEN s
                  ELSE LET e == LineEndV(v, p, upto) IN Go(SinkCtx(s, v, p, e, "other"), e)
  IN Go(st, st.lv)

\* Core::match_by_line_slow
Slow(st0, v) ==
  LET RECURSIVE Go(_)
      Go(s) ==
        IF s.cp >= v.n \/ s.halt # "no" THEN s
        ELSE LET ls == s.cp
                 le == LineEndV(v, ls, v.n)
                 success == LineHas(v, ls, le, MB) # cfg.inv
                 a == [s EXCEPT !.cp = le]
                 b == IF success THEN
                        LET b1 == BeforeCtx([a EXCEPT !.hm = TRUE], v, ls) IN
                        IF b1.halt # "no" THEN b1 ELSE SinkMatched(b1, v, ls, le)
                      ELSE IF a.al >= 1 THEN SinkCtx(a, v, ls, le, "after")
                      ELSE IF cfg.pass THEN SinkCtx(a, v, ls, le, "other")
                      ELSE a
             IN IF b.halt # "no" THEN b
                ELSE IF cfg.stopnm /\ ~success /\ b.hm THEN [b EXCEPT !.halt = "stop"]
                ELSE Go(b)
  IN Go(st0)

\* Core::find_by_line_fast: the next line at or after p that matches (candidates that do not
\* match are skipped after is_match on the stripped line); <<>> if none
FindFast(v, p) ==
  LET RECURSIVE Go(_)
      Go(q) == IF q >= v.n THEN <<>>
               ELSE LET e == LineEndV(v, q, v.n) IN
                    IF LineHas(v, q, e, MB) THEN <<q, e>> ELSE Go(e)
  IN Go(p)

\* Core::match_by_line_fast_invert
FastInvert(st, v) ==
  LET f == FindFast(v, st.cp)
      rs == st.cp
      re == IF f = <<>> THEN v.n ELSE f[1]
      \* with stop_on_nonmatch the non-matching line that ends the reported range is left to
      \* the slow path (fix: property=C03; before the fix this was always f[2])
      a == [st EXCEPT !.cp = IF f = <<>> THEN v.n
                             ELSE IF cfg.stopnm /\ rs < re /\ ~KF_FastInvertSkipsStopLine THEN f[1] ELSE f[2]]
  IN IF rs >= re THEN a
     ELSE LET b0 == [a EXCEPT !.hm = TRUE]
              b1 == AfterCtx(b0, v, rs)
          IN IF b1.halt # "no" THEN b1 ELSE
             LET b2 == BeforeCtx(b1, v, rs) IN
             IF b2.halt # "no" THEN b2 ELSE
             LET RECURSIVE Go(_, _)
                 Go(s, p) == IF p >= re \/ s.halt # "no" THEN s
                             ELSE LET e == LineEndV(v, p, re) IN Go(SinkMatched(s, v, p, e), e)
             IN Go(b2, rs)

\* Core::match_by_line_fast (returns the state; SwitchToSlow falls into Slow)
Fast(st0, v) ==
  LET \* after the loop: trailing after-context, then pos = buf.len()
      Tail0(s) == LET t == AfterCtx(s, v, v.n) IN IF t.halt # "no" THEN t ELSE [t EXCEPT !.cp = v.n]
      RECURSIVE Go(_)
      Go(s) ==
        IF s.halt # "no" THEN s
        ELSE IF s.cp >= v.n THEN Tail0(s)
        ELSE IF cfg.stopnm /\ s.hm THEN Slow(s, v)
        ELSE IF cfg.inv THEN Go(FastInvert(s, v))
        ELSE LET f == FindFast(v, s.cp) IN
             IF f = <<>> THEN Tail0(s)
             ELSE LET a0 == [s EXCEPT !.hm = TRUE]
                      a1 == IF MaxCtx > 0 THEN AfterCtx(a0, v, f[1]) ELSE a0
                  IN IF a1.halt # "no" THEN a1 ELSE
                     LET a2 == IF MaxCtx > 0 THEN BeforeCtx(a1, v, f[1]) ELSE a1 IN
                     IF a2.halt # "no" THEN a2 ELSE
                     Go(SinkMatched([a2 EXCEPT !.cp = f[2]], v, f[1], f[2]))
  IN Go(st0)

\* Core::is_line_by_line_fast; the matcher of path "slow" announces no line terminator
IsFast(st) == scn.path # "slow" /\ ~cfg.pass /\ ~(cfg.stopnm /\ st.hm) /\ cfg.term # "nul"

MatchByLine(st, v) == IF IsFast(st) THEN Fast(st, v) ELSE Slow(st, v)

\* Core::roll: returns <<state, consumed>>
CoreRoll(st, v) ==
  LET cons == IF MaxCtx = 0 THEN v.n ELSE Max(Preceding(v, 0, v.n, MaxCtx), st.lv)
      s1 == CountLines(st, v, cons)
  IN << [s1 EXCEPT !.abs = @ + cons, !.lc = 0, !.lv = 0, !.cp = v.n - cons], cons >>

\* ---------------------------------------------------------------- initial state
Core0 == [cp |-> 0, abs |-> 0, lc |-> 0, ln |-> 1, lv |-> 0, al |-> 0, hs |-> FALSE, hm |-> FALSE,
          bo |-> 0, out |-> <<>>, halt |-> "no", pt |-> 0]

Init == /\ scn \in Seeds
        /\ pc = "pick"
        /\ base = 0 /\ pos = 0 /\ lastterm = 0 /\ end = 0 /\ cap = 0 /\ binoff = 0
        /\ core = Core0
        /\ consumed = 0 /\ oldLen = 0 /\ alreadyBin = FALSE /\ didread = FALSE
        /\ nreads = 0 /\ result = "running" /\ reads = <<>>

LB == <<base, pos, lastterm, end, cap, binoff>>
FillLocals == <<consumed, oldLen, alreadyBin, didread>>

\* after a sink interaction: where control goes
AfterHalt(next) == IF core'.halt = "err" THEN "fail" ELSE IF core'.halt = "stop" THEN "finish" ELSE next

\* choose the scenario (a successor step so that TLC's workers share the generation)
Pick == /\ pc = "pick"
        /\ scn' \in ScenariosOf(scn)
        /\ pc' = "begin"
        /\ cap' = scn'.cap0
        /\ UNCHANGED <<base, pos, lastterm, end, binoff, core, FillLocals, nreads, result, reads>>

Begin == /\ pc = "begin"
         /\ core' = Emit(core, BeginEv)
         /\ pc' = AfterHalt(IF scn.strat = "reader" THEN "fill" ELSE "slice")
         /\ result' = IF core'.halt = "err" THEN "err_sink" ELSE result
         /\ UNCHANGED <<scn, LB, FillLocals, nreads, reads>>

\* ReadByLine::fill, first half: core.roll, rdr.consume, then LineBuffer::fill up to its read loop
FillRoll ==
  /\ pc = "fill"
  /\ LET r == CoreRoll(core, RollView)
         cons == r[2]
         np == pos + cons
     IN /\ core' = r[1]
        /\ consumed' = cons
        /\ oldLen' = lastterm - pos
        /\ alreadyBin' = (binoff > 0)
        /\ IF scn.bin = "quit" /\ binoff > 0
           THEN \* LineBuffer::fill returns early: no roll, no read
                /\ pos' = np /\ UNCHANGED <<base, lastterm, end>>
                /\ didread' = (lastterm - np > 0)
                /\ pc' = "postfill"
           ELSE \* LineBuffer::roll
                /\ base' = base + np /\ pos' = 0
                /\ IF np = end THEN lastterm' = 0 /\ end' = 0
                                ELSE lastterm' = end - np /\ end' = end - np
                /\ didread' = FALSE
                /\ pc' = "read"
  /\ UNCHANGED <<scn, cap, binoff, nreads, result, reads>>

\* one iteration of the loop in LineBuffer::fill: ensure_capacity + read()
Read ==
  /\ pc = "read"
  /\ LET c2 == IF end = cap THEN cap + 2 * Max(1, cap) ELSE cap      \* BufferAllocation::Eager
         free == c2 - end
         avail == N - (base + end)
     IN /\ cap' = c2
        /\ nreads' = nreads + 1
        /\ IF scn.faultAt = nreads + 1
           THEN /\ pc' = "fail" /\ result' = "err_io"
                /\ reads' = Append(reads, 0)
                /\ UNCHANGED <<end, lastterm, binoff, didread>>
           ELSE /\ UNCHANGED result
                /\ IF avail = 0
                   THEN /\ lastterm' = end /\ UNCHANGED <<end, binoff>>
                        /\ didread' = (end - pos > 0)
                        /\ reads' = Append(reads, 0)
                        /\ pc' = "postfill"
                   ELSE \E n \in 1..Min(Min(free, avail), MaxRead) :
                        /\ reads' = Append(reads, n)
                        /\ LET nuls == {i \in end..(end+n-1) : inp[base + i + 1] = NUL}
                               firstnul == CHOOSE x \in nuls : \A y \in nuls : x <= y
                           IN IF scn.bin = "quit" /\ nuls # {}
                              THEN /\ end' = firstnul /\ lastterm' = firstnul
                                   /\ binoff' = base + pos + firstnul + 1
                                   /\ didread' = (pos < firstnul)
                                   /\ pc' = "postfill"
                              ELSE /\ end' = end + n
                                   /\ binoff' = IF scn.bin = "convert" /\ nuls # {} /\ binoff = 0
                                                THEN base + pos + firstnul + 1 ELSE binoff
                                   /\ LET isT(i) == LET b == inp[base + i + 1] IN
                                                    b = TB \/ (scn.bin = "convert" /\ b = NUL)
                                          ts == {i \in end..(end+n-1) : isT(i)}
                                      IN IF ts = {} THEN /\ UNCHANGED <<lastterm, didread>> /\ pc' = "read"
                                         ELSE /\ lastterm' = (CHOOSE x \in ts : \A y \in ts : y <= x) + 1
                                              /\ didread' = TRUE
                                              /\ pc' = "postfill"
  /\ UNCHANGED <<scn, base, pos, core, consumed, oldLen, alreadyBin>>

\* ReadByLine::fill, second half
PostFill ==
  /\ pc = "postfill"
  /\ LET c1 == IF ~alreadyBin /\ binoff > 0 THEN Emit(core, Ev("binary", 0, binoff - 1, 0)) ELSE core
     IN /\ core' = c1
        /\ IF c1.halt = "err" THEN /\ pc' = "fail" /\ result' = "err_sink" /\ UNCHANGED pos
           ELSE /\ UNCHANGED result
                /\ IF c1.halt = "stop" THEN pc' = "finish" /\ UNCHANGED pos
                   ELSE IF ~didread \/ (binoff > 0 /\ scn.bin = "quit") THEN pc' = "finish" /\ UNCHANGED pos
                   ELSE IF consumed = 0 /\ oldLen = lastterm - pos
                        THEN pos' = pos + oldLen /\ pc' = "finish"
                        ELSE UNCHANGED pos /\ pc' = "match"
  /\ UNCHANGED <<scn, base, lastterm, end, cap, binoff, FillLocals, nreads, reads>>

Match ==
  /\ pc = "match"
  /\ core' = LET c == MatchByLine(core, RollView) IN
             IF c.halt = "stop" /\ ~KF_ReaderByteCountIgnoresPartial THEN [c EXCEPT !.pt = c.cp] ELSE c
  /\ pc' = AfterHalt("fill")
  /\ result' = IF core'.halt = "err" THEN "err_sink" ELSE result
  /\ UNCHANGED <<scn, LB, FillLocals, nreads, reads>>

\* SliceByLine::run after begin
SliceRun ==
  /\ pc = "slice"
  /\ LET upto == Min(N, scn.cap0)        \* sniffing window (hook H1 scales it with the capacity)
         s1 == DetectBinary(core, SliceView, 0, upto)
         RECURSIVE Loop(_)
         Loop(s) == IF s.halt # "no" \/ s.cp >= N THEN s ELSE Loop(MatchByLine(s, SliceView))
     IN core' = IF s1.halt # "no" THEN s1 ELSE Loop(s1)
  /\ pc' = IF core'.halt = "err" THEN "fail" ELSE "finish"
  /\ result' = IF core'.halt = "err" THEN "err_sink" ELSE result
  /\ UNCHANGED <<scn, LB, FillLocals, nreads, reads>>

Finish ==
  /\ pc = "finish"
  /\ LET bytes == IF scn.strat = "reader" THEN base + pos + core.pt
                  ELSE IF core.bo > 0 /\ core.bo - 1 < core.cp THEN core.bo - 1 ELSE core.cp
         bo == IF scn.strat = "reader" THEN binoff ELSE core.bo
     IN core' = [core EXCEPT !.out = Append(@, Ev("finish", bo, bytes, 1))]
  /\ pc' = "done" /\ result' = "ok"
  /\ UNCHANGED <<scn, LB, FillLocals, nreads, reads>>

Next == Pick \/ Begin \/ FillRoll \/ Read \/ PostFill \/ Match \/ SliceRun \/ Finish
Spec == Init /\ [][Next]_vars

\* ---------------------------------------------------------------- properties
Done == pc \in {"done", "fail"}

\* the uninterrupted reference stream
Ref == Expected(inp, cfg)
OutNoFinish == IF pc = "done" THEN SubSeq(core.out, 1, Len(core.out) - 1) ELSE core.out
Interrupted == scn.stopAt > 0 \/ scn.errAt > 0 \/ scn.faultAt > 0

\* C02/C03: without binary detection, stop or fault the delivered stream IS the reference stream,
\* for every read history and capacity.  A finish after a complete run carries the full length.
Refines ==
  (pc = "done" /\ scn.bin = "none" /\ ~Interrupted) =>
     /\ Len(core.out) = Len(Ref)
     /\ \A i \in 1..(Len(Ref)-1) : core.out[i] = Ref[i]
     /\ LET f == core.out[Len(core.out)] r == Ref[Len(Ref)] IN
        f.k = "finish" /\ (r.len = 1 => f.off = r.off)

\* C16: on stop / sink error / read fault the delivered events are a prefix of the reference
\* stream, finish comes exactly once after a stop and never after an error.
PrefixOnInterrupt ==
  (Done /\ scn.bin = "none") =>
     /\ IsPrefixOf(OutNoFinish, SubSeq(Ref, 1, Len(Ref) - 1))
     /\ (pc = "fail" => \A i \in 1..Len(core.out) : core.out[i].k # "finish")
     /\ (pc = "done" => Cardinality({i \in 1..Len(core.out) : core.out[i].k = "finish"}) = 1)
     /\ (scn.stopAt > 0 /\ pc = "done" /\ Len(OutNoFinish) >= scn.stopAt => Len(OutNoFinish) = scn.stopAt)
     /\ (scn.errAt > 0 /\ Len(core.out) >= scn.errAt => pc = "fail" /\ result = "err_sink" /\ Len(core.out) = scn.errAt)
     /\ (result = "err_io" => scn.faultAt = nreads)

\* C14 (searcher level): with detection on, no delivered line contains a NUL of the input that is
\* still shown as NUL (Quit: never; Convert on the reader: shown as terminator; the slice strategy
\* stops at the first line holding one).
NoNulDelivered ==
  (pc # "pick" /\ scn.bin = "quit") =>
     \A i \in 1..Len(core.out) : core.out[i].k \in {"match", "ctx"} =>
        \A p \in (core.out[i].off + 1)..(core.out[i].off + core.out[i].len) : inp[p] # NUL

BufInv == pc = "pick" \/
          /\ pos <= lastterm /\ lastterm <= end /\ end <= cap
          /\ core.lv <= Max(core.cp, core.lv) /\ base + end <= N

\* emitted once per terminal state for replay against the implementation: the scenario, the
\* read history TLC chose, the stream this model predicts, the reference stream, and whether the
\* model-level theorems hold in this state (a FALSE is a design counterexample, to be confirmed
\* on the real code before it is reported).
Emitted == Done => PrintT(<<"EMIT", ToJson([scn |-> scn, reads |-> reads, out |-> core.out, result |-> result,
                                           ref |-> Ref, nreads |-> nreads,
                                           ok |-> (Refines /\ PrefixOnInterrupt /\ NoNulDelivered)])>>)
=============================================================================

---------------------------- MODULE MCTranscode ----------------------------
(* Bounded scenario generators for Transcode (C17); the cfg files choose the bounds.
   The decode tables of the table encodings come from encoding_rs through a JSON file written by
   the check (environment variable C17_TABLES): {"l1": [[utf8 of byte 0], ...256], "sj": [[tok, utf8], ...]}. *)
EXTENDS Transcode, IOUtils

CONSTANTS PlumbLen,     \* longest text of the plumbing scenarios (no fragmentation, every (mark, label) combination)
          FragLen,      \* longest text of the main fragmenting scenarios (utf-16le by label; every chunking)
          FragLen2,     \* ... of the other fragmenting scenarios
          FragLenSJ,    \* ... of the shift_jis fragmenting scenarios
          FragAll,      \* TRUE: more (mark, label) combinations among the "other" fragmenting scenarios
          FragAlpha,    \* "frag" or "full": text alphabet of the UTF-16 / UTF-8 fragmenting scenarios
          WithPlumb, WithFrag   \* which of the two scenario families this run generates

Tables == JsonDeserialize(IOEnv.C17_TABLES)
MCL1Table == Tables.l1
MCSJTable == Tables.sj

SeqsUpTo(S, n) == UNION {[1..k -> S] : k \in 0..n}

\* text alphabets.  "full": one symbol of every class the property's quantifier names (ASCII matching / not
\* matching, line feed, 2-byte BMP, lone lead, lone trail, astral pair, U+FFFD itself).  "frag": one symbol per
\* class the decoder state machine distinguishes and per UTF-8 output length.
Alphabet(e, a) ==
  CASE e \in {"le", "be"} /\ a = "full" -> {"m", "x", "nl", "e", "hi", "lo", "ast", "rep"}
    [] e \in {"le", "be"} /\ a = "frag" -> {"m", "nl", "rep", "hi", "lo", "ast"}
    [] e = "u8" /\ a = "full" -> {"m", "x", "nl", "e", "ast", "rep"}
    [] e = "u8" /\ a = "frag" -> {"m", "nl", "e", "ast"}
    [] e = "l1" -> {"m", "x", "nl", "e", "euro"}
    [] e = "sj" -> {"m", "x", "nl", "kana", "hira", "mi"}

Seed(b, e, l, o, f, a, n) ==
  [bom |-> b, enc |-> e, label |-> l, odd |-> o, frag |-> f, alpha |-> a, maxlen |-> n, text |-> <<>>]

Labels == {"utf-16le", "utf-16be", "utf-8", "latin1", "shift_jis"}

\* every (mark, payload, label) combination for which the property says something
Combos ==
  \* a mark alone selects the encoding and is removed / a mark beats every label / none keeps everything raw
  {<<b, b, l>> : b \in {"le", "be", "u8"}, l \in Labels \cup {"auto", "none"}}
  \* a label without a mark
  \cup {<<"none", "le", "utf-16le">>, <<"none", "be", "utf-16be">>, <<"none", "le", "utf-16be">>,
        <<"none", "u8", "utf-8">>, <<"none", "l1", "latin1">>, <<"none", "sj", "shift_jis">>,
        <<"none", "le", "latin1">>}
  \* none without a mark
  \cup {<<"none", "le", "none">>, <<"none", "sj", "none">>}

PlumbSeeds == {s \in {Seed(c[1], c[2], c[3], o, FALSE, "full", PlumbLen) : c \in Combos, o \in BOOLEAN} : Sensible(s)}

FragMain == {<<"none", "le", "utf-16le">>}
FragOther == {<<"be", "be", "auto">>, <<"u8", "u8", "auto">>}
FragMore == {<<"none", "be", "utf-16be">>, <<"le", "le", "utf-16be">>, <<"le", "le", "auto">>, <<"u8", "u8", "utf-8">>}
FragSeeds ==
  {s \in {Seed(c[1], c[2], c[3], o, TRUE, FragAlpha, FragLen) : c \in FragMain, o \in BOOLEAN}
         \cup {Seed(c[1], c[2], c[3], o, TRUE, FragAlpha, FragLen2)
                  : c \in FragOther \cup (IF FragAll THEN FragMore ELSE {}), o \in BOOLEAN}
     : Sensible(s)}
  \cup {Seed("none", "sj", "shift_jis", o, TRUE, "full", FragLenSJ) : o \in BOOLEAN}

MCSeeds == (IF WithPlumb THEN PlumbSeeds ELSE {}) \cup (IF WithFrag THEN FragSeeds ELSE {})

\* texts over the alphabet; behind a mark also texts that begin with U+FEFF themselves (exactly ONE mark is the mark)
TextsOf(s) ==
  LET al == Alphabet(s.enc, s.alpha) \cup (IF s.enc = "u8" /\ s.bom = "none" /\ s.label = "utf-8" THEN {"bad"} ELSE {}) IN
  SeqsUpTo(al, s.maxlen)
    \* (well-formed texts only: the deviation known for these inputs is kept apart from the ones known for malformed ends)
    \cup (IF s.bom # "none" /\ s.enc \in {"le", "be", "u8"} /\ ~s.frag /\ ~s.odd /\ s.maxlen >= 1
          THEN {<<"feff">> \o t : t \in SeqsUpTo(al \ {"hi", "lo"}, s.maxlen - 1)} ELSE {})
MCScenariosOf(s) == {x \in {[s EXCEPT !.text = t] : t \in TextsOf(s)} : Sensible(x)}
=============================================================================

SPECIFICATION Spec
CONSTANTS
  MaxLines = 5
  CtxMax = 2
  MaxN = 2
INVARIANT Emitted

SPECIFICATION Spec
CONSTANTS
  Seeds <- MCSeeds
  ScenariosOf <- MCScenariosOf
  MaxRead = 3
  KF_FastInvertSkipsStopLine = FALSE
  KF_ReaderByteCountIgnoresPartial = FALSE
  MaxLines = 7
  Bodies <- BodiesMX
  CtxMax = 3
  Terms = {"lf"}
  Strats = {"reader", "slice"}
  Paths = {"slow", "fast"}
  Caps = {1, 4}
  Flags = {"inv", "pass", "stopnm"}
  Bins = {"none"}
  PlanKinds = {}
INVARIANTS BufInv ModelOK Emitted
VIEW View

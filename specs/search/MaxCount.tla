------------------------------ MODULE MaxCount ------------------------------
(* C16, last sentence: "a per-file limit of N matches yields exactly the first N matching lines plus the
   trailing context they are entitled to".  Reference for `rg -m N -A a -B b [-v]`: the full grep-model
   output up to and including the N-th selected line, then the A lines that follow it (whatever they are:
   inside an after-context window every line is shown), shown as context; nothing else.            *)
EXTENDS GrepModel, TLC, Json

CONSTANTS MaxLines, CtxMax, MaxN

VARIABLES scn, pc
vars == <<scn, pc>>

SeqsUpTo(S, n) == UNION {[1..k -> S] : k \in 0..n}
RECURSIVE Cat(_, _)
Cat(ls, lastT) == IF ls = <<>> THEN <<>>
                  ELSE IF Len(ls) = 1 THEN Head(ls) \o (IF lastT THEN <<10>> ELSE <<>>)
                  ELSE Head(ls) \o <<10>> \o Cat(Tail(ls), lastT)
Inputs == {Cat(ls, lt) : ls \in SeqsUpTo({<<MB>>, <<120>>}, MaxLines), lt \in BOOLEAN}

Init == /\ pc = "pick"
        /\ scn \in {[A |-> a, B |-> b, inv |-> i, n |-> k, inp |-> <<>>] : a \in 0..CtxMax, b \in 0..CtxMax, i \in BOOLEAN, k \in 1..MaxN}
Pick == pc = "pick" /\ \E i \in Inputs : scn' = [scn EXCEPT !.inp = i] /\ pc' = "done"
Next == Pick
Spec == Init /\ [][Next]_vars

\* <<line index, "match" | "ctx">> of every printed line, in order; "brk" entries are group separators
ExpectedMax(sc) ==
  LET cfg == [A |-> sc.A, B |-> sc.B, inv |-> sc.inv, pass |-> FALSE, stopnm |-> FALSE, lnum |-> TRUE, term |-> "lf"]
      L == LineTable(sc.inp, cfg)
      n == Len(L)
      sels == {i \in 1..n : HasByte(sc.inp, L[i], MB) # sc.inv}
      \* the N-th selected line (0 if there are fewer)
      nth == IF Cardinality(sels) < sc.n THEN 0
             ELSE CHOOSE i \in sels : Cardinality({j \in sels : j <= i}) = sc.n
      full == ExpectedGen(L, sels, cfg, Len(sc.inp), FALSE)
      LineOf(e) == CHOOSE i \in 1..n : L[i].s = e.off
      body == SelectSeq(full, LAMBDA e : e.k \in {"match", "ctx", "break"})
      RECURSIVE Keep(_, _)
      Keep(j, acc) == IF j > Len(body) THEN acc
                      ELSE IF body[j].k = "break" THEN Keep(j + 1, Append(acc, <<0, "brk">>))
                      ELSE IF nth > 0 /\ LineOf(body[j]) > nth THEN acc
                      ELSE Keep(j + 1, Append(acc, <<LineOf(body[j]), body[j].k>>))
      head == Keep(1, <<>>)
      \* a separator that would precede a dropped line is dropped with it
      head2 == IF head # <<>> /\ head[Len(head)][2] = "brk" THEN SubSeq(head, 1, Len(head) - 1) ELSE head
      tail == IF nth = 0 THEN <<>> ELSE [k \in 1..(Min(nth + sc.A, n) - nth) |-> <<nth + k, "ctx">>]
  IN IF nth = 0 THEN head2 ELSE head2 \o tail

\* index of the N-th selected line (0: fewer than N); lines printed beyond it are trailing context, whatever marker they carry
NthSel(sc) ==
  LET cfg == [A |-> sc.A, B |-> sc.B, inv |-> sc.inv, pass |-> FALSE, stopnm |-> FALSE, lnum |-> TRUE, term |-> "lf"]
      L == LineTable(sc.inp, cfg)
      sels == {i \in 1..Len(L) : HasByte(sc.inp, L[i], MB) # sc.inv}
  IN IF Cardinality(sels) < sc.n THEN 0 ELSE CHOOSE i \in sels : Cardinality({j \in sels : j <= i}) = sc.n
Emitted == pc = "done" => PrintT(<<"EMIT", ToJson([scn |-> scn, exp |-> ExpectedMax(scn), nth |-> NthSel(scn)])>>)
=============================================================================

SPECIFICATION Spec
CONSTANTS
  Seeds <- MCSeeds
  ScenariosOf <- MCScenariosOf
  MaxRead = 2
  KF_FastInvertSkipsStopLine = FALSE
  KF_ReaderByteCountIgnoresPartial = FALSE
  MaxLines = 3
  Bodies <- BodiesMX
  CtxMax = 1
  Terms = {"lf"}
  Strats = {"reader", "slice"}
  Paths = {"slow", "fast"}
  Caps = {2}
  Flags = {"inv", "pass", "stopnm"}
  Bins = {"none"}
  PlanKinds = {"stop", "err", "fault"}
INVARIANTS BufInv ModelOK Emitted
VIEW View

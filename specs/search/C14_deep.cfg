SPECIFICATION Spec
CONSTANTS
  Seeds <- MCSeeds
  ScenariosOf <- MCScenariosOf
  MaxRead = 6
  KF_FastInvertSkipsStopLine = FALSE
  KF_ReaderByteCountIgnoresPartial = FALSE
  MaxLines = 4
  Bodies <- BodiesNul
  CtxMax = 1
  Terms = {"lf", "crlf"}
  Strats = {"reader", "slice"}
  Paths = {"slow", "fast"}
  Caps = {1, 3}
  Flags = {"inv", "pass"}
  Bins = {"quit", "convert"}
  PlanKinds = {"stop"}
INVARIANTS BufInv ModelOK Emitted
VIEW View

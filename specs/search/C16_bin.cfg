SPECIFICATION Spec
CONSTANTS
  Seeds <- MCSeeds
  ScenariosOf <- MCScenariosOf
  MaxRead = 12
  KF_FastInvertSkipsStopLine = FALSE
  KF_ReaderByteCountIgnoresPartial = FALSE
  MaxLines = 2
  Bodies <- BodiesNul
  CtxMax = 1
  Terms = {"lf"}
  Strats = {"reader", "slice"}
  Paths = {"slow", "fast"}
  Caps = {2}
  Flags = {"inv"}
  Bins = {"quit", "convert"}
  PlanKinds = {"stop", "err"}
INVARIANTS BufInv ModelOK Emitted
VIEW View

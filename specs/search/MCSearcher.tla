---------------------------- MODULE MCSearcher ----------------------------
(* Scenario generators (bounded) for the Searcher model; one definition per check/tier. *)
EXTENDS Searcher

CONSTANTS MaxLines, Bodies, CtxMax, Terms, Strats, Paths, Caps, Flags, Bins, PlanKinds

SeqsUpTo(S, n) == UNION {[1..k -> S] : k \in 0..n}
TermSeq(t) == IF t = "crlf" THEN <<13, 10>> ELSE IF t = "nul" THEN <<0>> ELSE <<10>>

RECURSIVE Cat(_, _, _)
Cat(ls, t, lastT) ==
  IF ls = <<>> THEN <<>>
  ELSE IF Len(ls) = 1 THEN Head(ls) \o (IF lastT THEN TermSeq(t) ELSE <<>>)
  ELSE Head(ls) \o TermSeq(t) \o Cat(Tail(ls), t, lastT)

Inputs(t) == {Cat(ls, t, lt) : ls \in SeqsUpTo(Bodies, MaxLines), lt \in BOOLEAN}

\* Flags: subset of {"inv","pass","stopnm","nolnum"} allowed to vary
FlagSets == SUBSET Flags
Cfgs == {[A |-> a, B |-> b, inv |-> "inv" \in f, pass |-> "pass" \in f, stopnm |-> "stopnm" \in f,
          lnum |-> ~("nolnum" \in f), term |-> t] : a \in 0..CtxMax, b \in 0..CtxMax, f \in FlagSets, t \in Terms}

NoPlan == [stopAt |-> 0, errAt |-> 0, faultAt |-> 0]
\* plans bounded by the length of the reference stream / number of reads
Plans(i, c) ==
  LET n == Len(Expected(i, c)) IN
  {NoPlan}
  \cup (IF "stop" \in PlanKinds THEN {[stopAt |-> k, errAt |-> 0, faultAt |-> 0] : k \in 1..(n-1)} ELSE {})
  \cup (IF "err" \in PlanKinds THEN {[stopAt |-> 0, errAt |-> k, faultAt |-> 0] : k \in 1..(n-1)} ELSE {})
  \cup (IF "fault" \in PlanKinds THEN {[stopAt |-> 0, errAt |-> 0, faultAt |-> k] : k \in 1..(Len(i)+2)} ELSE {})

Scn(i, c, s, p, cp0, b, pl) ==
  [inp |-> i, cfg |-> c, strat |-> s, path |-> p, cap0 |-> cp0, bin |-> b,
   stopAt |-> pl.stopAt, errAt |-> pl.errAt, faultAt |-> pl.faultAt]

\* drop combinations the builder cannot produce / that add nothing
Sensible(x) == /\ (x.strat = "slice" => x.cap0 = CHOOSE c \in Caps : TRUE) \/ x.bin # "none"
               /\ (x.strat = "slice" => x.faultAt = 0)

\* seeds: (cfg, strategy, path, capacity, binary mode); the Pick step adds input and plan
MCSeeds == {s \in {Scn(<<>>, c, st, p, cp0, b, NoPlan) : c \in Cfgs, st \in Strats, p \in Paths, cp0 \in Caps, b \in Bins}
              : Sensible(s) /\ (s.cfg.pass => s.cfg.A = 0 /\ s.cfg.B = 0)}
MCScenariosOf(s) ==
  {x \in UNION { {Scn(i, s.cfg, s.strat, s.path, s.cap0, s.bin, pl)
                   : pl \in (IF PlanKinds = {} THEN {NoPlan} ELSE Plans(i, s.cfg))} : i \in Inputs(s.cfg.term) }
     : Sensible(x)}

ModelOK == pc = "begin" => ModelSane(inp, cfg)

BodiesMX == {<<109>>, <<120>>}                       \* "m", "x"
BodiesLen == {<<>>, <<109>>, <<120, 120, 109>>}      \* "", "m", "xxm"
BodiesMixed == {<<>>, <<109>>, <<120>>, <<120, 120, 120>>}
BodiesCand == {<<109>>, <<120>>, <<99>>}             \* incl. a false candidate line "c"
BodiesCR == {<<109>>, <<120>>, <<13>>, <<120, 13>>}   \* bare CR inside lines
BodiesLFinside == {<<109>>, <<120, 10, 109>>, <<10>>, <<120, 10>>}   \* NUL-terminated lines that contain \n
BodiesNul == {<<109>>, <<120>>, <<0>>, <<109, 0>>, <<0, 109>>}
=============================================================================

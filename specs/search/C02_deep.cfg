SPECIFICATION Spec
CONSTANTS
  Seeds <- MCSeeds
  ScenariosOf <- MCScenariosOf
  MaxRead = 6
  KF_FastInvertSkipsStopLine = FALSE
  KF_ReaderByteCountIgnoresPartial = FALSE
  MaxLines = 4
  Bodies <- BodiesMixed
  CtxMax = 2
  Terms = {"lf", "crlf", "nul"}
  Strats = {"reader", "slice"}
  Paths = {"slow", "fast", "cand"}
  Caps = {1, 2, 3, 4, 7}
  Flags = {"inv", "stopnm", "pass"}
  Bins = {"none"}
  PlanKinds = {}
INVARIANTS BufInv ModelOK Emitted
VIEW View

SPECIFICATION Spec
CONSTANTS
  Seeds <- MCSeeds
  ScenariosOf <- MCScenariosOf
  MaxRead = 5
  KF_FastInvertSkipsStopLine = FALSE
  KF_ReaderByteCountIgnoresPartial = FALSE
  MaxLines = 4
  Bodies <- BodiesMixed
  CtxMax = 1
  Terms = {"lf", "crlf"}
  Strats = {"reader", "slice"}
  Paths = {"slow", "fast", "cand"}
  Caps = {1, 3, 7}
  Flags = {"inv", "stopnm", "pass"}
  Bins = {"none"}
  PlanKinds = {}
INVARIANTS BufInv ModelOK Emitted
VIEW View

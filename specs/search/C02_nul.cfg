SPECIFICATION Spec
CONSTANTS
  Seeds <- MCSeeds
  ScenariosOf <- MCScenariosOf
  MaxRead = 2
  KF_FastInvertSkipsStopLine = FALSE
  KF_ReaderByteCountIgnoresPartial = FALSE
  MaxLines = 3
  Bodies <- BodiesLFinside
  CtxMax = 1
  Terms = {"nul"}
  Strats = {"reader", "slice"}
  Paths = {"slow", "fast"}
  Caps = {2, 5}
  Flags = {"inv", "stopnm"}
  Bins = {"none"}
  PlanKinds = {}
INVARIANTS BufInv ModelOK Emitted
VIEW View

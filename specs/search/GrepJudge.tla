----------------------------- MODULE GrepJudge -----------------------------
(* I->S validation of event streams recorded from the real searcher on inputs far larger than TLC can
   enumerate (tens of thousands of bytes, lines longer than the 64 KiB roll buffer, default capacity).
   Each record of IOEnv.RUNS carries the line table of the input (start/end offsets), the indices of
   the lines the matcher selects, the configuration and the observed stream; TLC evaluates the
   reference model on the line table and compares.                                              *)
EXTENDS GrepModel, TLC, Json, IOUtils

Runs == ndJsonDeserialize(IOEnv.RUNS)
\* the judgement is evaluated in a successor state: TLC computes initial states on the main thread, whose stack
\* is too small for the deep recursion over thousands of lines; successor states are handled by worker threads
VARIABLES idx, pc
Init == idx \in 1..Len(Runs) /\ pc = "init"
Next == pc = "init" /\ pc' = "judge" /\ UNCHANGED idx
Spec == Init /\ [][Next]_<<idx, pc>>

ToSet(s) == {s[i] : i \in DOMAIN s}
\* (nobreak: the observer cannot see group separators - rg --json does not print them - so they are left out)
Ref(r) == LET full == ExpectedGen(r.L, ToSet(r.sel), r.cfg, r.total, FALSE) IN
          IF "nobreak" \in DOMAIN r /\ r.nobreak THEN SelectSeq(full, LAMBDA e : e.k # "break") ELSE full
Agrees(r) == LET ref == Ref(r) IN
             /\ Len(ref) = Len(r.obs)
             /\ \A i \in 1..Len(ref) : ref[i].k = r.obs[i].k /\ ref[i].ln = r.obs[i].ln /\ ref[i].off = r.obs[i].off
                                       /\ (ref[i].k = "finish" \/ ref[i].len = r.obs[i].len)
Verdict == pc = "init" \/ Agrees(Runs[idx]) \/ PrintT(<<"VERDICT", ToJson([id |-> Runs[idx].id, ok |-> FALSE])>>)
=============================================================================

SPECIFICATION Spec
CONSTANTS
  Seeds <- MCSeeds
  ScenariosOf <- MCScenariosOf
  L1Table <- MCL1Table
  SJTable <- MCSJTable
  Mutant = "none"
  MaxChunk = 5
  PlumbLen = 1
  FragLen = 2
  FragLen2 = 1
  FragLenSJ = 1
  FragAll = FALSE
  FragAlpha = "frag"
  WithPlumb = TRUE
  WithFrag = TRUE
INVARIANTS TypeOK DesignOK MachineOK
VIEW View

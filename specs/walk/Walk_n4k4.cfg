SPECIFICATION FairSpec
CONSTANTS
  N = 4
  NoNode = 0
  Spurious = FALSE
  EarlyQuit = TRUE
  MayIgnoreFlag = TRUE
  Mutant = "none"
  MaxNodes = 4
  WithQuit = TRUE
  WithErr = FALSE
  WithSkip = FALSE
INVARIANT Safety
PROPERTY Term

SPECIFICATION FairSpec
CONSTANTS
  N = 3
  NoNode = 0
  Spurious = FALSE
  EarlyQuit = FALSE
  MayIgnoreFlag = FALSE
  Mutant = "nolastquit"
  MaxNodes = 3
  WithQuit = TRUE
INVARIANT Safety
PROPERTY Term

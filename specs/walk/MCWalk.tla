------------------------------ MODULE MCWalk ------------------------------
(* Bounded instances of WalkProtocol: all forests on <= MaxNodes nodes, quit at no node or at one. *)
EXTENDS WalkProtocol, Json

CONSTANTS MaxNodes, WithQuit,
          WithErr,   \* BOOLEAN: up to two unreadable entries (non-root leaves)
          WithSkip   \* BOOLEAN: the visitor answers Skip at no node or at one

\* a forest on 1..k: parent[i] \in 0..(i-1), 0 = root
Forests(k) == [1..k -> 0..(k-1)]
IsForest(p, k) == \A i \in 1..k : p[i] < i
RootSeq(p, k) == LET RECURSIVE B(_, _)
                     B(i, acc) == IF i > k THEN acc ELSE B(i + 1, IF p[i] = 0 THEN Append(acc, i) ELSE acc)
                 IN B(1, <<>>)
TreeOf(p, k) == [ch |-> [n \in 1..k |-> {c \in 1..k : p[c] = n}], roots |-> RootSeq(p, k), err |-> {}, skip |-> {}]
Trees == UNION { {TreeOf(p, k) : p \in {q \in Forests(k) : IsForest(q, k)}} : k \in 1..MaxNodes }

RootsOf(t) == {t.roots[i] : i \in 1..Len(t.roots)}
ErrChoices(t) == IF WithErr THEN {e \in SUBSET {n \in DOMAIN t.ch : t.ch[n] = {} /\ n \notin RootsOf(t)} : Cardinality(e) <= 2} ELSE {{}}
SkipChoices(t) == {{}} \cup (IF WithSkip THEN {{n} : n \in DOMAIN t.ch} ELSE {})
MCInit == \E t \in Trees : \E e \in ErrChoices(t) : \E s \in SkipChoices(t) :
            \E q \in ({{}} \cup (IF WithQuit THEN {{n} : n \in DOMAIN t.ch} ELSE {})) :
               InitWith([t EXCEPT !.err = e, !.skip = s], q)

Spec == MCInit /\ [][Next]_vars

FairSpec == MCInit /\ [][Next]_vars /\ \A w \in W : WF_vars(Step(w))
=============================================================================

---------------------------- MODULE MCWalkModel ----------------------------
(* Bounded instances of WalkModel (C06) and a few hand-computed facts that pin the meaning of the
   operators (checked by TLC as ASSUMEs whenever any C06 configuration is loaded). *)
EXTENDS WalkModel

D(p, dv) == [par |-> p, kind |-> "dir", big |-> FALSE, tgt |-> 0, dev |-> dv]
F(p, b, dv) == [par |-> p, kind |-> "file", big |-> b, tgt |-> 0, dev |-> dv]
L(p, g, dv) == [par |-> p, kind |-> "link", big |-> FALSE, tgt |-> g, dev |-> dv]
E(k, p, e) == [r |-> k, p |-> p, e |-> e]
O(md, fs, fl, sfs, filt, ignd, ignt) ==
  [md |-> md, fs |-> fs, fl |-> fl, sfs |-> sfs, filt |-> filt, ignd |-> ignd, ignt |-> ignt, igndir |-> FALSE]

\* n1/ { n2/ { n4 -> n1 } }, n3 -> n2 ; roots n2 and n3
TreeA == <<D(0, 1), D(1, 1), L(0, 2, 1), L(2, 1, 1)>>
\* n1/ { n2 -> n3 }, n3/ (device 2) { n4 (big) }
TreeB == <<D(0, 1), L(1, 3, 1), D(0, 2), F(3, TRUE, 2)>>
\* n1/ { n2 (small file) }
TreeC == <<D(0, 1), F(1, FALSE, 1)>>

ASSUME Must(TreeA, <<2, 3>>, O(99, FALSE, TRUE, FALSE, 0, 0, 0)) =
         {E(1, <<2>>, 0), E(1, <<2, 4>>, 0), E(1, <<2, 4, 2>>, 0), E(1, <<2, 4, 2, 4>>, 1),
          E(2, <<3>>, 0), E(2, <<3, 4>>, 0), E(2, <<3, 4, 2>>, 0), E(2, <<3, 4, 2, 4>>, 1)}
ASSUME Must(TreeA, <<2, 3>>, O(99, FALSE, FALSE, FALSE, 0, 0, 0)) =
         {E(1, <<2>>, 0), E(1, <<2, 4>>, 0), E(2, <<3>>, 0), E(2, <<3, 4>>, 0)}
ASSUME Must(TreeB, <<1>>, O(99, FALSE, TRUE, FALSE, 0, 0, 0)) = {E(1, <<1>>, 0), E(1, <<1, 2>>, 0), E(1, <<1, 2, 4>>, 0)}
ASSUME Must(TreeB, <<1>>, O(99, FALSE, TRUE, TRUE, 0, 0, 0)) = {E(1, <<1>>, 0), E(1, <<1, 2>>, 0)}
ASSUME Must(TreeB, <<1>>, O(99, TRUE, TRUE, FALSE, 0, 0, 0)) = {E(1, <<1>>, 0), E(1, <<1, 2>>, 0)}
ASSUME Must(TreeB, <<1>>, O(1, FALSE, TRUE, FALSE, 0, 0, 0)) = {E(1, <<1>>, 0), E(1, <<1, 2>>, 0)}
ASSUME Must(TreeB, <<1>>, O(0, FALSE, TRUE, FALSE, 0, 0, 0)) = {E(1, <<1>>, 0)}
\* the pinned serial walker reports a filtered small file when a size limit is set; the repaired one does not
ASSUME Must(TreeC, <<1>>, O(99, TRUE, FALSE, FALSE, 2, 0, 0)) = {E(1, <<1>>, 0)}
ASSUME Strip(Walk("serialkf", TreeC, <<1>>, O(99, TRUE, FALSE, FALSE, 2, 0, 0))) = {E(1, <<1>>, 0), E(1, <<1, 2>>, 0)}
ASSUME Strip(Walk("parallel", TreeC, <<1>>, O(99, TRUE, FALSE, FALSE, 2, 0, 0))) = {E(1, <<1>>, 0)}
ASSUME Must(TreeC, <<1>>, O(99, FALSE, FALSE, FALSE, 0, 1, 2)) = {E(1, <<1>>, 0)}
\* a directory-only rule does not remove a file, and removes a link to a directory only when links are followed
ASSUME Must(TreeC, <<1>>, [O(99, FALSE, FALSE, FALSE, 0, 1, 2) EXCEPT !.igndir = TRUE]) = {E(1, <<1>>, 0), E(1, <<1, 2>>, 0)}
ASSUME Must(TreeB, <<1>>, [O(99, FALSE, FALSE, FALSE, 0, 1, 2) EXCEPT !.igndir = TRUE]) = {E(1, <<1>>, 0), E(1, <<1, 2>>, 0)}
ASSUME Must(TreeB, <<1>>, [O(99, FALSE, TRUE, FALSE, 0, 1, 2) EXCEPT !.igndir = TRUE]) = {E(1, <<1>>, 0)}
\* n1/ { n2 -> n3, n4 }, n3/ (device 2): with same_file_system, links followed and n2 ignored, the pinned
\* serial walker may lose n4 (if readdir yields n2 first); nothing can be lost without the ignore rule
TreeD == <<D(0, 1), L(1, 3, 1), D(0, 2), F(1, FALSE, 1)>>
ASSUME Strip(Lose(TreeD, <<1>>, O(99, FALSE, TRUE, TRUE, 0, 1, 2))) = {E(1, <<1, 4>>, 0)}
ASSUME Lose(TreeD, <<1>>, O(99, FALSE, TRUE, TRUE, 0, 0, 0)) = {}
ASSUME Lose(TreeD, <<1>>, O(99, FALSE, TRUE, FALSE, 0, 1, 2)) = {}
ASSUME Must(TreeD, <<1>>, O(99, FALSE, TRUE, TRUE, 0, 1, 2)) = {E(1, <<1>>, 0), E(1, <<1, 4>>, 0)}
=============================================================================

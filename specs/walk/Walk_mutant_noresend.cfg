SPECIFICATION FairSpec
CONSTANTS
  N = 3
  NoNode = 0
  Spurious = FALSE
  EarlyQuit = FALSE
  MayIgnoreFlag = FALSE
  Mutant = "noresend"
  MaxNodes = 3
  WithQuit = TRUE
  WithErr = FALSE
  WithSkip = FALSE
INVARIANT Safety
PROPERTY Term

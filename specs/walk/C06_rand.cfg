SPECIFICATION Spec
CONSTANTS
  MaxNodes = 6
  MinEmit = 3
  Depths = {99, 0, 1, 2, 3}
  Devs = {1, 2}
  RootMode = "any"
  MaxRoots = 2
  OptMode = "full"
  ExactSize = 1
  NeedDev2 = FALSE
  OptSample = 20
INVARIANTS ModelOK Emitted

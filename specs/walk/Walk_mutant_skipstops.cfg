SPECIFICATION FairSpec
CONSTANTS
  N = 3
  NoNode = 0
  Spurious = FALSE
  EarlyQuit = FALSE
  MayIgnoreFlag = FALSE
  Mutant = "skipstops"
  MaxNodes = 3
  WithQuit = TRUE
  WithErr = TRUE
  WithSkip = TRUE
INVARIANT Safety
PROPERTY Term

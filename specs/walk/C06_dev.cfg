SPECIFICATION Spec
CONSTANTS
  MaxNodes = 4
  MinEmit = 4
  Depths = {99}
  Devs = {1, 2}
  RootMode = "first"
  MaxRoots = 2
  OptMode = "device"
  ExactSize = 0
  NeedDev2 = TRUE
  OptSample = 0
INVARIANTS ModelOK Emitted

SPECIFICATION SimSpec
CONSTANTS
  N = 2
  NoNode = 0
  Spurious = FALSE
  EarlyQuit = FALSE
  MayIgnoreFlag = FALSE
  Mutant = "none"
  MaxNodes = 4
  WithQuit = TRUE
  WithErr = TRUE
  WithSkip = TRUE
INVARIANT EmitBehaviour

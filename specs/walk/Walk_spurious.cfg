SPECIFICATION Spec
CONSTANTS
  N = 3
  NoNode = 0
  Spurious = TRUE
  EarlyQuit = TRUE
  MayIgnoreFlag = TRUE
  Mutant = "none"
  MaxNodes = 4
  WithQuit = TRUE
  WithErr = FALSE
  WithSkip = FALSE
INVARIANT Safety


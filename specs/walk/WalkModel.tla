----------------------------- MODULE WalkModel -----------------------------
(* C06: what a directory traversal must report, and the skipping decisions of the two walkers of
   crates/ignore/src/walk.rs, for a bounded universe of directory trees and option records.

   A tree is a sequence of nodes; node i is the record
       [par  : 0 or the index (< i) of a directory node   (0 = lives directly in the base directory of its device),
        kind : "dir" | "file" | "link",
        big  : files only - the size exceeds the max_filesize threshold used by the binding,
        tgt  : links only - index (< i) of the node the link points to, 0 = dangling,
        dev  : 1 | 2 - the file system the node lives on (children inherit it)].
   A link whose target is an ancestor directory is a cycle.  Node i is called n<i> by the binding;
   names are unique, so "the entry filter rejects one name" and "an ignore file names one entry"
   are node indices.

   Options  o = [md   : NoLimit (= 99, no limit) or the depth limit,
                 fs   : max_filesize is set,
                 fl   : follow_links,
                 sfs  : same_file_system,
                 filt : 0 or the node whose name the caller's entry filter rejects,
                 ignd, ignt : 0,0 or: directory ignd holds a custom ignore file naming node ignt,
                 igndir : the ignore rule is directory-only ("n<ignt>/"): it applies to ignt only where ignt
                          is a directory - which a link to a directory is exactly when links are followed].

   Three decision operators are kept SEPARATE on purpose:
     RefDecision       what the property's statement says about one directory entry,
     SerialDecision    transcribed from walkdir's IntoIter::handle_entry as used by Walk::next,
                       plus Walk::skip_entry                      (single-threaded walker),
     ParallelDecision  transcribed from Worker::generate_work + Worker::run_one (parallel walker).
   TLC checks them against each other on every entry shape x every flag combination (DesignAgree,
   DesignConforms) and uses all three to walk every generated tree.                              *)
EXTENDS Integers, Sequences, FiniteSets, TLC, Json, Randomization

CONSTANTS MaxNodes,     \* trees have 1..MaxNodes nodes
          MinEmit,      \* only trees with at least this many nodes get scenarios (smaller ones belong to another cfg)
          Depths,       \* set of md values, 99 = unlimited
          Devs,         \* {1} or {1, 2}
          RootMode,     \* "first": the only root is node 1 and it is a directory;  "any": 1..MaxRoots distinct nodes
          MaxRoots,
          OptMode,      \* "full": the whole option product; "relevant": options that cannot bite on the tree stay off;
                        \* "device": same_file_system and follow_links on, no size limit, every filter / ignore rule
                        \* "ignore": nothing but the ignore rules (every directory x every entry it may name)
                        \* "mount": trees in which a directory may be a MOUNT POINT (a plain directory that lives on another
                        \*          device than its parent); same_file_system and follow_links on and off, nothing else
          ExactSize,    \* simulation: 0, or every behaviour builds a tree of a size fixed in the initial state
          NeedDev2,     \* TRUE: only trees in which some link leads to the other device get scenarios
          OptSample     \* simulation: 0 = every option record of OptSet, k > 0 = a random k-subset of it per (tree, roots)
                        \* (TLC's simulator evaluates the invariants on ALL successors, so each trace emits k scenarios)

VARIABLES tree, roots, opts, pc, goal
vars == <<tree, roots, opts, pc, goal>>

-----------------------------------------------------------------------------
(* Trees *)

NoLimit == 99

Kids(t, d) == {i \in 1..Len(t) : t[i].par = d}

RECURSIVE Res(_, _)
\* the node a path ending in node i denotes once links are followed (0 = nothing)
Res(t, i) == IF t[i].kind # "link" THEN i
             ELSE IF t[i].tgt = 0 THEN 0 ELSE Res(t, t[i].tgt)

RECURSIVE PhysDesc(_, _)
PhysDesc(t, d) == LET k == Kids(t, d) IN k \cup UNION {PhysDesc(t, c) : c \in k}

KindCode(k) == CASE k = "dir" -> 1 [] k = "file" -> 2 [] OTHER -> 3

\* canonical growth: breadth-first numbering (parents non-decreasing), siblings ordered dir < file < link,
\* the first node is on device 1; link targets are earlier nodes (an ancestor => a cycle) or dangling
NextNodes(t) ==
  LET i == Len(t) + 1
      pars == {p \in {0} \cup {j \in 1..Len(t) : t[j].kind = "dir"} : i = 1 \/ p >= t[i-1].par}
      \* (mount points - "mount" mode only: a directory below a device-1 parent may lie on device 2; what is below it inherits)
      devs(p, k) == IF p # 0 THEN (IF OptMode = "mount" /\ k = "dir" /\ t[p].dev = 1 THEN Devs ELSE {t[p].dev})
                    ELSE IF i = 1 THEN {1} ELSE Devs
      shapes == {[kind |-> "dir", big |-> FALSE, tgt |-> 0]}
                \cup {[kind |-> "file", big |-> b, tgt |-> 0] : b \in BOOLEAN}
                \cup {[kind |-> "link", big |-> FALSE, tgt |-> g] : g \in 0..Len(t)}
      ordered(p, s) == (i > 1 /\ p = t[i-1].par) => KindCode(s.kind) >= KindCode(t[i-1].kind)
  IN UNION { UNION { {[par |-> p, kind |-> s.kind, big |-> s.big, tgt |-> s.tgt, dev |-> d] : d \in devs(p, s.kind)}
                     : s \in {x \in shapes : ordered(p, x)} } : p \in pars }

RootSeqs(t) ==
  LET ok == {i \in 1..Len(t) : Res(t, i) # 0}          \* a root must exist (file, directory, or a link to one)
  IN IF RootMode = "first"
     THEN (IF t[1].kind = "dir" THEN {<<1>>} ELSE {})
     ELSE {<<r>> : r \in ok}
          \cup (IF MaxRoots >= 2 THEN {<<pr[1], pr[2]>> : pr \in {q \in ok \X ok : q[1] < q[2]}} ELSE {})

IgnPairs(t) == {<<d, x>> : d \in {j \in 1..Len(t) : t[j].kind = "dir"}, x \in 1..Len(t)}

OptSet(t) ==
  LET full == OptMode = "full"
      B(on) == IF OptMode = "device" THEN {TRUE} ELSE IF OptMode = "ignore" THEN {FALSE} ELSE IF full \/ on THEN BOOLEAN ELSE {FALSE}
      hasBig == \E i \in 1..Len(t) : t[i].kind = "file" /\ t[i].big
      hasLink == \E i \in 1..Len(t) : t[i].kind = "link"
      hasDev2 == \E i \in 1..Len(t) : t[i].dev # 1
      \* <<directory holding the ignore file, node it names, directory-only rule>>
      igns == {<<0, 0, FALSE>>}
              \cup {<<pr[1], pr[2], k>> : pr \in {q \in IgnPairs(t) : q[2] \in PhysDesc(t, q[1])}, k \in BOOLEAN}
              \* a rule naming an entry that does NOT live below the ignore file's directory: it must never act
              \* (a walker that keeps the matcher of a directory it has left would apply it to later entries)
              \cup {<<pr[1], pr[2], FALSE>> : pr \in {q \in IgnPairs(t) : q[2] \notin PhysDesc(t, q[1]) /\ q[2] # q[1]}}
  IN IF OptMode = "mount"
     THEN {[md |-> m, fs |-> FALSE, fl |-> b, sfs |-> c, filt |-> 0, ignd |-> 0, ignt |-> 0, igndir |-> FALSE]
             : m \in Depths, b \in BOOLEAN, c \in BOOLEAN}
     ELSE
     {[md |-> m, fs |-> a, fl |-> b, sfs |-> c, filt |-> f, ignd |-> g[1], ignt |-> g[2], igndir |-> g[3]]
        : m \in Depths, a \in (IF OptMode = "device" THEN {FALSE} ELSE B(hasBig)), b \in B(hasLink),
          c \in (IF Devs = {1} THEN {FALSE} ELSE B(hasDev2)),      \* one device: same_file_system cannot act
          f \in (IF OptMode = "ignore" THEN {0} ELSE 0..Len(t)), g \in igns}

-----------------------------------------------------------------------------
(* One directory entry (depth > 0) as the walkers see it.
     kind  : the dirent's own type            tk   : what it resolves to ("none" = dangling)
     loop  : it is a link to a directory that is already an ancestor on the traversal path
     big   : size of the file (or of the file a link resolves to) exceeds the limit
     named : its name is the one the entry filter rejects
     ign   : "no", or an ignore rule in scope names it: "any" (plain rule) / "dir" (directory-only rule)
     deep  : a depth limit is set and this entry sits at (or beyond) it
     xdev  : it resolves to something on another device than the root it was reached from     *)

Shapes == {[kind |-> "file", tk |-> "file", loop |-> FALSE], [kind |-> "dir", tk |-> "dir", loop |-> FALSE],
           [kind |-> "link", tk |-> "file", loop |-> FALSE], [kind |-> "link", tk |-> "dir", loop |-> FALSE],
           [kind |-> "link", tk |-> "dir", loop |-> TRUE], [kind |-> "link", tk |-> "none", loop |-> FALSE]}
Attrs == {[kind |-> s.kind, tk |-> s.tk, loop |-> s.loop, big |-> b, named |-> n, ign |-> i, deep |-> d, xdev |-> x]
            : s \in Shapes, b \in BOOLEAN, n \in BOOLEAN, i \in {"no", "any", "dir"}, d \in BOOLEAN, x \in BOOLEAN}

\* does the ignore rule hit an entry whose (resolved, as far as links are followed) type is ty ?
IgnHit(a, ty) == a.ign = "any" \/ (a.ign = "dir" /\ ty = "dir")
Flags == [fs : BOOLEAN, fl : BOOLEAN, sfs : BOOLEAN, filt : BOOLEAN]

\* yield: reported; err: reported as an error; desc: entered; opt: (reference only) the error is optional;
\* cut: side effect - the not yet listed rest of the PARENT directory is dropped
Dec(y, e, d, op) == [yield |-> y, err |-> e, desc |-> d, opt |-> op, cut |-> FALSE]

(* The statement: an entry is reported iff no filter removes it; a reported directory is entered
   iff the depth limit and the device rule allow; with link following a cycle is an error and is
   not entered.  Left open by the statement (opt = TRUE, "may"): whether an error is reported for a
   dangling link, and whether the cycle error is reported for a link that a name rule removes. *)
RefDecision(a, f) ==
  LET followed == f.fl /\ a.kind = "link"
      ty == IF followed THEN a.tk ELSE a.kind
      cycle == followed /\ a.tk = "dir" /\ a.loop
      broken == followed /\ a.tk = "none"
      sized == f.fs /\ ty # "dir" /\ (IF a.kind = "link" THEN followed /\ a.big ELSE a.big)
      removed == IgnHit(a, ty) \/ (f.filt /\ a.named) \/ sized
      y == ~cycle /\ ~broken /\ ~removed
  IN IF broken THEN Dec(FALSE, TRUE, FALSE, TRUE)
     ELSE IF cycle THEN Dec(FALSE, TRUE, FALSE, IgnHit(a, ty) \/ (f.filt /\ a.named))
     ELSE Dec(y, FALSE, y /\ ty = "dir" /\ ~a.deep /\ (~f.sfs \/ ~a.xdev), FALSE)

(* Single-threaded walker.  walkdir: IntoIter::handle_entry (follow -> from_path(.., true) fails on a
   dangling link, check_loop for directories; is_normal_dir => push unless same_file_system refuses;
   IntoIter::next pops a directory deeper than max_depth).  ripgrep: Walk::next turns a skip of a Dir
   event into skip_current_dir; Walk::skip_entry is transcribed statement by statement.
   kf = TRUE is the code as pinned, with two named deviations:
     (1) with max_filesize set, a non-directory RETURNS the size verdict and never reaches the entry
         filter;
     (2) Walk::next answers a skipped Dir event with walkdir's skip_current_dir(), which pops the
         directory on top of walkdir's stack; a directory that walkdir did not push (same_file_system
         set, other device) is not there, so its PARENT is popped and the rest of the parent's listing
         is lost (cut).
   kf = FALSE is the repaired walker.                                                            *)
SerialDecision(a, f, kf) ==
  LET followed == f.fl /\ a.kind = "link"
      wdErr == followed /\ (a.tk = "none" \/ (a.tk = "dir" /\ a.loop))
      ty == IF followed THEN a.tk ELSE a.kind
      isDir == ty = "dir"
      pushed == isDir /\ (~f.sfs \/ ~a.xdev)
      over == IF a.kind = "link" THEN followed /\ a.big ELSE a.big      \* skip_filesize(metadata().len())
      skip == IF IgnHit(a, ty) THEN TRUE                                 \* should_skip_entry(ig, ent): is_dir of the DirEntry
              ELSE IF f.fs /\ ~isDir /\ kf THEN over                      \* return Ok(skip_filesize(..))
              ELSE IF f.fs /\ ~isDir /\ over THEN TRUE
              ELSE f.filt /\ a.named                                     \* filter(ent)
  IN IF wdErr THEN Dec(FALSE, TRUE, FALSE, FALSE)
     ELSE [Dec(~skip, FALSE, ~skip /\ pushed /\ ~a.deep, FALSE) EXCEPT !.cut = kf /\ skip /\ isDir /\ ~pushed]

(* Parallel walker.  generate_work: follow (from_path(.., true), check_symlink_loop) -> errors go to
   the visitor; should_skip_entry; should_skip_filesize and should_skip_filtered are BOTH computed;
   the work is sent iff neither says skip.  run_one: a symlink or non-directory is visited and done;
   a directory is visited, then entered iff the device matches and depth < max_depth.            *)
ParallelDecision(a, f) ==
  LET followed == f.fl /\ a.kind = "link"
      gwErr == followed /\ (a.tk = "none" \/ (a.tk = "dir" /\ a.loop))
      ty == IF followed THEN a.tk ELSE a.kind
      isDir == ty = "dir"
      over == IF a.kind = "link" THEN followed /\ a.big ELSE a.big
      skipSize == f.fs /\ ~isDir /\ over
      skipFilt == f.filt /\ a.named
      sent == ~IgnHit(a, ty) /\ ~skipSize /\ ~skipFilt      \* should_skip_entry comes after the follow block
      leaf == ty = "link" \/ ~isDir
      sameDev == ~f.sfs \/ ~a.xdev
  IN IF gwErr THEN Dec(FALSE, TRUE, FALSE, FALSE)
     ELSE Dec(sent, FALSE, sent /\ ~leaf /\ sameDev /\ ~a.deep, FALSE)

Conforms(d, r) == /\ d.yield = r.yield /\ d.desc = r.desc
                  /\ (r.opt \/ d.err = r.err)
                  /\ (d.err => r.err)
                  /\ ~d.cut

\* design level: all entry shapes x all flag combinations
DesignCex(kf) == {<<a, f>> \in Attrs \X Flags : SerialDecision(a, f, kf) # ParallelDecision(a, f)}
\* (guarded by a variable so that TLC evaluates them as invariants of the design run only)
DesignAgree == pc = "design" => DesignCex(FALSE) = {}
DesignAgreeKF == pc = "design" => DesignCex(TRUE) = {}      \* must FAIL: the pinned code's two decisions differ
DesignConforms == pc = "design" => \A a \in Attrs, f \in Flags :
                     /\ Conforms(SerialDecision(a, f, FALSE), RefDecision(a, f))
                     /\ Conforms(ParallelDecision(a, f), RefDecision(a, f))

-----------------------------------------------------------------------------
(* Walking a tree with one of the decision operators *)

Decide(m, a, f) == CASE m = "serial" -> SerialDecision(a, f, FALSE)
                     [] m = "serialkf" -> SerialDecision(a, f, TRUE)
                     [] m = "parallel" -> ParallelDecision(a, f)
                     [] OTHER -> RefDecision(a, f)

FlagsOf(o) == [fs |-> o.fs, fl |-> o.fl, sfs |-> o.sfs, filt |-> o.filt # 0]

(* c describes how the directory being listed was reached: c.k root index, c.path node ids from the
   root, c.depth, c.anc the directories on the path (including the directory itself), c.ign: an
   ignore file on the path (including the directory's own) is in force, c.rdev the root's device *)
AttrsOf(t, o, ch, c) ==
  LET r == Res(t, ch)
  IN [kind |-> t[ch].kind,
      tk |-> IF r = 0 THEN "none" ELSE t[r].kind,
      loop |-> t[ch].kind = "link" /\ r # 0 /\ t[r].kind = "dir" /\ r \in c.anc,
      big |-> r # 0 /\ t[r].kind = "file" /\ t[r].big,
      named |-> o.filt = ch,
      ign |-> IF c.ign /\ o.ignt = ch THEN (IF o.igndir THEN "dir" ELSE "any") ELSE "no",
      deep |-> o.md # NoLimit /\ c.depth + 1 >= o.md,
      xdev |-> r # 0 /\ t[r].dev # c.rdev]

Below(t, o, ch, c) ==
  LET r == Res(t, ch)
  IN [k |-> c.k, path |-> Append(c.path, ch), depth |-> c.depth + 1, anc |-> c.anc \cup {r},
      ign |-> c.ign \/ o.ignd = r, rdev |-> c.rdev]

RECURSIVE Child(_, _, _, _, _)
\* what entry ch of the listed directory contributes: itself and, if entered, everything below it
Child(m, t, o, ch, c) ==
  LET d == Decide(m, AttrsOf(t, o, ch, c), FlagsOf(o))
      p == Append(c.path, ch)
      here == IF d.err THEN {[r |-> c.k, p |-> p, e |-> 1, opt |-> d.opt]}
              ELSE IF d.yield THEN {[r |-> c.k, p |-> p, e |-> 0, opt |-> FALSE]}
              ELSE {}
  IN here \cup (IF d.desc
                THEN LET cc == Below(t, o, ch, c)
                     IN UNION {Child(m, t, o, g, cc) : g \in Kids(t, Res(t, ch))}
                ELSE {})

ListDir(m, t, o, dir, c) == UNION {Child(m, t, o, ch, c) : ch \in Kids(t, dir)}

(* Deviation (2) of the pinned serial walker on a whole tree: which entries are lost depends on the
   readdir order; LoseDir is the set of entries that can be lost in this way (every sibling of a
   directory that triggers the cut, with its subtree). *)
SerialUnpushedSkip(a, f) == SerialDecision(a, f, TRUE).cut

RECURSIVE LoseDir(_, _, _, _)
LoseDir(t, o, dir, c) ==
  LET ks == Kids(t, dir)
      trig == {ch \in ks : SerialUnpushedSkip(AttrsOf(t, o, ch, c), FlagsOf(o))}
      here == UNION {Child("ref", t, o, ch, c) : ch \in {x \in ks : trig \ {x} # {}}}
      below == UNION {LoseDir(t, o, Res(t, ch), Below(t, o, ch, c))
                        : ch \in {x \in ks : RefDecision(AttrsOf(t, o, x, c), FlagsOf(o)).desc}}
  IN here \cup below

(* a root is always reported (depth 0 is never filtered); a root that is, or links to, a directory is
   entered unless the depth limit is 0 *)
WalkRoot(m, t, o, k, rt) ==
  LET r == Res(t, rt)
      c == [k |-> k, path |-> <<rt>>, depth |-> 0, anc |-> {r}, ign |-> o.ignd = r, rdev |-> t[r].dev]
  IN {[r |-> k, p |-> <<rt>>, e |-> 0, opt |-> FALSE]}
     \cup (IF t[r].kind = "dir" /\ o.md # 0 THEN ListDir(m, t, o, r, c) ELSE {})

Walk(m, t, rs, o) == UNION {WalkRoot(m, t, o, k, rs[k]) : k \in 1..Len(rs)}

Lose(t, rs, o) ==
  UNION { LET r == Res(t, rs[k])
              c == [k |-> k, path |-> <<rs[k]>>, depth |-> 0, anc |-> {r}, ign |-> o.ignd = r, rdev |-> t[r].dev]
          IN IF t[r].kind = "dir" /\ o.md # 0 THEN LoseDir(t, o, r, c) ELSE {}
        : k \in 1..Len(rs) }

Strip(S) == {[r |-> x.r, p |-> x.p, e |-> x.e] : x \in S}
Must(t, rs, o) == Strip({x \in Walk("ref", t, rs, o) : ~x.opt})
May(t, rs, o) == Strip({x \in Walk("ref", t, rs, o) : x.opt})

\* the repaired design walks every tree exactly as the statement says (modulo the "may" entries)
WalkAgrees(t, rs, o) ==
  LET must == Must(t, rs, o)
      may == May(t, rs, o)
      s == Strip(Walk("serial", t, rs, o))
      p == Strip(Walk("parallel", t, rs, o))
  IN s = p /\ must \subseteq s /\ s \subseteq (must \cup may)

-----------------------------------------------------------------------------
(* Scenario generator: grow a tree node by node, then pick roots, then options *)

NoOpts == [md |-> NoLimit, fs |-> FALSE, fl |-> FALSE, sfs |-> FALSE, filt |-> 0, ignd |-> 0, ignt |-> 0,
           igndir |-> FALSE]

Init == /\ tree = <<>> /\ roots = <<>> /\ opts = NoOpts /\ pc = "build"
        /\ goal \in (IF ExactSize = 0 THEN {0} ELSE MinEmit..MaxNodes)

AddNode == /\ pc = "build" /\ Len(tree) < MaxNodes
           /\ (goal # 0 => Len(tree) < goal)
           /\ \E nd \in NextNodes(tree) : tree' = Append(tree, nd)
           /\ UNCHANGED <<roots, opts, pc, goal>>

PickRoots == /\ pc = "build" /\ Len(tree) >= MinEmit
             /\ (goal # 0 => Len(tree) = goal)
             /\ (NeedDev2 => \E i \in 1..Len(tree) : /\ tree[i].kind = "link" /\ Res(tree, i) # 0
                                                      /\ tree[Res(tree, i)].dev # tree[i].dev)
             /\ (OptMode = "mount" => \E i \in 1..Len(tree) : tree[i].par # 0 /\ tree[i].dev # tree[tree[i].par].dev)
             /\ \E rs \in RootSeqs(tree) : roots' = rs
             /\ pc' = "roots"
             /\ UNCHANGED <<tree, opts, goal>>

PickOpts == /\ pc = "roots"
            /\ \E o \in (IF OptSample = 0 THEN OptSet(tree)
                         ELSE LET S == OptSet(tree)
                              IN RandomSubset(IF OptSample < Cardinality(S) THEN OptSample ELSE Cardinality(S), S))
                  : opts' = o
            /\ pc' = "done"
            /\ UNCHANGED <<tree, roots, goal>>

Next == AddNode \/ PickRoots \/ PickOpts
Spec == Init /\ [][Next]_vars

Done == pc = "done"

\* checked in every scenario: the repaired design satisfies the statement on this tree
ModelOK == Done => WalkAgrees(tree, roots, opts)

(* emitted once per scenario for replay on the real walkers: the scenario, the entries that must be
   reported, the entries that may be, whether the options change the result at all (pruned), and -
   only where it differs from the repaired design - what the pinned serial walker (kf) is predicted
   to report, and the entries the pinned serial walker may lose through the second named deviation *)
Emitted ==
  Done => LET must == Must(tree, roots, opts)
              kf == Strip(Walk("serialkf", tree, roots, opts))
              s == Strip(Walk("serial", tree, roots, opts))
          IN PrintT(<<"EMIT", ToJson([t |-> tree, r |-> roots, o |-> opts,
                                      must |-> must, may |-> May(tree, roots, opts),
                                      pruned |-> Strip(Walk("ref", tree, roots, [NoOpts EXCEPT !.fl = opts.fl]))
                                                   # Strip(Walk("ref", tree, roots, opts)),
                                      kfdiff |-> kf # s,
                                      kf |-> IF kf # s THEN kf ELSE {},
                                      lose |-> Strip(Lose(tree, roots, opts))])>>)

-----------------------------------------------------------------------------
(* Design-level run: one state *)
DesignInit == tree = <<>> /\ roots = <<>> /\ opts = NoOpts /\ pc = "design" /\ goal = 0
DesignNext == UNCHANGED vars
DesignEmit == pc = "design" => PrintT(<<"DESIGN", ToJson([combos |-> Cardinality(Attrs \X Flags),
                                         cex_fixed |-> DesignCex(FALSE),
                                         cex_kf |-> {[a |-> x[1], f |-> x[2], cut |-> SerialDecision(x[1], x[2], TRUE).cut]
                                                       : x \in DesignCex(TRUE)}])>>)
=============================================================================

--------------------------- MODULE WalkProtocol ---------------------------
(* The work-stealing termination protocol of ignore::WalkParallel (crates/ignore/src/walk.rs:
   Stack::{push,pop,steal}, Worker::{run,get_work,quit_now,is_quit_now,send,send_quit,recv,
   deactivate_worker,activate_worker}).

   One action per hooked synchronisation point (hook H2), so that recorded events and spec steps
   are 1:1.  Written as an ENVELOPE (DESIGN.md section 3): a steal may take from any victim, any
   batch size; a worker may ignore the quit flag; a worker whose hands and own deque are empty may
   broadcast Quit early.  The real protocol is the instance with the envelope switches off; the
   properties are model-checked for the whole family.

   Messages / hands are records [k |-> "work" | "quit" | "none", n |-> node or NoNode].        *)
EXTENDS Naturals, Sequences, FiniteSets, TLC

CONSTANTS N,             \* number of workers
          NoNode,        \* placeholder node value for quit / none
          Spurious,      \* BOOLEAN: a receive may fail although work exists (crossbeam's Retry)
          EarlyQuit,     \* BOOLEAN envelope: Quit may be broadcast before the counter reaches 0
          MayIgnoreFlag, \* BOOLEAN envelope: a worker may not notice the quit flag
          Mutant         \* "none", or a deliberately broken protocol for the non-vacuity self-test:
                         \*   "noresend"   a worker that received Quit leaves without pushing it again
                         \*   "nolastquit" the last worker to go idle does not broadcast Quit
                         \*   "quitflag0"  the quit flag is raised when the counter reaches 0 (seeded change C07-A)
                         \*   "skipstops"  a Skip answered to an error entry abandons the rest of the directory (seeded change C07-D)

VARIABLES tree,     \* [ch |-> function node -> set of children, roots |-> sequence of root nodes,
                    \*  err |-> entries that cannot be read (a dangling link under follow_links, ...): never queued, handed to
                    \*          the visitor as an error by the worker that lists the parent directory (generate_work),
                    \*  skip |-> nodes at which the visitor answers Skip]
          quitAt,   \* set of nodes at which the visitor answers Quit
          deque,    \* per worker: sequence of messages, owner pushes/pops at the end (LIFO)
          hand,     \* per worker: message being processed
          todo,     \* per worker: children still to be pushed
          pc, active, quitNow, visited

vars == <<tree, quitAt, deque, hand, todo, pc, active, quitNow, visited>>

W == 1..N
Nodes == DOMAIN tree.ch
Work(n) == [k |-> "work", n |-> n]
QuitMsg == [k |-> "quit", n |-> NoNode]
NoneMsg == [k |-> "none", n |-> NoNode]

\* initial distribution of the roots: round robin (Stack::new_for_each_thread)
InitDeque(w) ==
  LET idx == {i \in 1..Len(tree.roots) : ((i - 1) % N) + 1 = w}
      RECURSIVE Build(_, _)
      Build(i, acc) == IF i > Len(tree.roots) THEN acc
                       ELSE Build(i + 1, IF i \in idx THEN Append(acc, Work(tree.roots[i])) ELSE acc)
  IN Build(1, <<>>)

InitWith(t, q) ==
  /\ tree = t /\ quitAt = q
  /\ deque = [w \in W |-> InitDeque(w)]
  /\ hand = [w \in W |-> NoneMsg]
  /\ todo = [w \in W |-> {}]
  /\ pc = [w \in W |-> "recv"]
  /\ active = N
  /\ quitNow = FALSE
  /\ visited = [n \in DOMAIN t.ch |-> 0]

\* ------------------------------------------------------------------ receive = pop own, else steal
LastOf(s) == s[Len(s)]
FrontOf(s) == SubSeq(s, 1, Len(s) - 1)

Pop(w, next) ==
  /\ deque[w] # <<>>
  /\ hand' = [hand EXCEPT ![w] = LastOf(deque[w])]
  /\ deque' = [deque EXCEPT ![w] = FrontOf(deque[w])]
  /\ pc' = [pc EXCEPT ![w] = next]
  /\ UNCHANGED <<tree, quitAt, todo, active, quitNow, visited>>

\* Stealer::steal_batch_and_pop from a LIFO worker (crossbeam-deque 0.8.5, deque.rs, Flavor::Lifo
\* branch): tasks are taken from the front (oldest) one by one, k of them with
\* 1 <= k <= 1 + (len-1)/2 (fewer under contention); the first k-1 go, in order, to the thief's own
\* deque and the k-th is returned.  Any victim.
Steal(w, next) ==
  /\ deque[w] = <<>>
  /\ \E v \in W \ {w} :
       /\ deque[v] # <<>>
       /\ \E k \in 1..(1 + (Len(deque[v]) - 1) \div 2) :
            /\ hand' = [hand EXCEPT ![w] = deque[v][k]]
            /\ deque' = [deque EXCEPT ![v] = SubSeq(deque[v], k + 1, Len(deque[v])),
                                      ![w] = SubSeq(deque[v], 1, k - 1)]
  /\ pc' = [pc EXCEPT ![w] = next]
  /\ UNCHANGED <<tree, quitAt, todo, active, quitNow, visited>>

RecvNone(w, next) ==
  /\ deque[w] = <<>>
  /\ (Spurious \/ \A v \in W \ {w} : deque[v] = <<>>)
  /\ hand' = [hand EXCEPT ![w] = NoneMsg]
  /\ pc' = [pc EXCEPT ![w] = next]
  /\ UNCHANGED <<tree, quitAt, deque, todo, active, quitNow, visited>>

\* Worker::get_work, first statement
Recv(w) == pc[w] = "recv" /\ (Pop(w, "chk") \/ Steal(w, "chk") \/ RecvNone(w, "chk"))

\* loop top: `if self.is_quit_now() { value = Some(Message::Quit) }`, then the match on `value`
Chk(w) ==
  /\ pc[w] = "chk"
  /\ \E sees \in BOOLEAN :
       /\ (sees => quitNow)
       /\ (~sees => (~quitNow \/ MayIgnoreFlag))
       /\ LET h == IF sees THEN QuitMsg ELSE hand[w] IN
          /\ hand' = [hand EXCEPT ![w] = h]
          /\ pc' = [pc EXCEPT ![w] = IF h.k = "quit" THEN "pushquit"
                                    ELSE IF h.k = "none" THEN "deact" ELSE "visit"]
  /\ UNCHANGED <<tree, quitAt, deque, todo, active, quitNow, visited>>

\* Worker::run_one: the visitor is called with the entry; Quit => quit_now(); Skip => the directory is not listed;
\* else its entries are listed (generate_work for each)
Visit(w) ==
  /\ pc[w] = "visit"
  /\ visited' = [visited EXCEPT ![hand[w].n] = @ + 1]
  /\ LET kids == IF hand[w].n \in tree.skip THEN {} ELSE tree.ch[hand[w].n] IN
     IF hand[w].n \in quitAt
     THEN pc' = [pc EXCEPT ![w] = "setquit"] /\ todo' = [todo EXCEPT ![w] = {}]
     ELSE /\ todo' = [todo EXCEPT ![w] = kids]
          /\ pc' = [pc EXCEPT ![w] = IF kids = {} THEN "recv" ELSE "gen"]
  /\ hand' = [hand EXCEPT ![w] = NoneMsg]
  /\ UNCHANGED <<tree, quitAt, deque, active, quitNow>>

\* Worker::send for one child (generate_work); after the last one: back to get_work()
PushChild(w) ==
  /\ pc[w] = "gen" /\ todo[w] # {}
  /\ \E c \in todo[w] \ tree.err :
       /\ deque' = [deque EXCEPT ![w] = Append(@, Work(c))]
       /\ todo' = [todo EXCEPT ![w] = @ \ {c}]
       /\ pc' = [pc EXCEPT ![w] = IF todo[w] = {c} THEN "recv" ELSE "gen"]
  /\ UNCHANGED <<tree, quitAt, hand, active, quitNow, visited>>

\* generate_work on an entry that cannot be read: the visitor gets the error at once, on this worker; only Quit matters
\* (Skip on an error entry means nothing: the loop over the directory goes on)
VisitErr(w) ==
  /\ pc[w] = "gen"
  /\ \E c \in todo[w] \cap tree.err :
       /\ visited' = [visited EXCEPT ![c] = @ + 1]
       /\ IF c \in quitAt
          THEN todo' = [todo EXCEPT ![w] = {}] /\ pc' = [pc EXCEPT ![w] = "setquit"]
          ELSE IF Mutant = "skipstops" /\ c \in tree.skip
               THEN todo' = [todo EXCEPT ![w] = {}] /\ pc' = [pc EXCEPT ![w] = "recv"]
               ELSE /\ todo' = [todo EXCEPT ![w] = @ \ {c}]
                    /\ pc' = [pc EXCEPT ![w] = IF todo[w] = {c} THEN "recv" ELSE "gen"]
  /\ UNCHANGED <<tree, quitAt, deque, hand, active, quitNow>>

SetQuit(w) ==
  /\ pc[w] = "setquit"
  /\ quitNow' = TRUE
  /\ pc' = [pc EXCEPT ![w] = "recv"]
  /\ UNCHANGED <<tree, quitAt, deque, hand, todo, active, visited>>

Deactivate(w) ==
  /\ pc[w] = "deact"
  /\ active' = active - 1
  /\ \/ active' = 0 /\ Mutant # "nolastquit" /\ pc' = [pc EXCEPT ![w] = "pushquit"]
     \/ (active' # 0 \/ Mutant = "nolastquit") /\ pc' = [pc EXCEPT ![w] = "idle"]
     \/ EarlyQuit /\ active' # 0 /\ pc' = [pc EXCEPT ![w] = "pushquit"]
  /\ quitNow' = (quitNow \/ (Mutant = "quitflag0" /\ active' = 0))
  /\ UNCHANGED <<tree, quitAt, deque, hand, todo, visited>>

\* the polling loop; a failed poll (followed by the 1 ms sleep) leaves the state unchanged
IdleRecv(w) == pc[w] = "idle" /\ (Pop(w, "act") \/ Steal(w, "act"))

Activate(w) ==
  /\ pc[w] = "act"
  /\ active' = active + 1
  /\ pc' = [pc EXCEPT ![w] = "chk"]
  /\ UNCHANGED <<tree, quitAt, deque, hand, todo, quitNow, visited>>

\* send_quit(); return None
PushQuit(w) ==
  /\ pc[w] = "pushquit"
  /\ deque' = IF Mutant = "noresend" /\ hand[w].k = "quit" THEN deque ELSE [deque EXCEPT ![w] = Append(@, QuitMsg)]
  /\ hand' = [hand EXCEPT ![w] = NoneMsg]
  /\ pc' = [pc EXCEPT ![w] = "done"]
  /\ UNCHANGED <<tree, quitAt, todo, active, quitNow, visited>>

Step(w) == Recv(w) \/ Chk(w) \/ Visit(w) \/ PushChild(w) \/ VisitErr(w) \/ SetQuit(w)
           \/ Deactivate(w) \/ IdleRecv(w) \/ Activate(w) \/ PushQuit(w)
Next == \E w \in W : Step(w)

\* ------------------------------------------------------------------ properties
AllDone == \A w \in W : pc[w] = "done"

\* every node reachable from the roots without descending into a directory at which the visitor answers Skip
RECURSIVE Reach(_)
Reach(S) == LET nxt == S \cup UNION {IF n \in tree.skip THEN {} ELSE tree.ch[n] : n \in S} IN IF nxt = S THEN S ELSE Reach(nxt)
Reachable == Reach({tree.roots[i] : i \in 1..Len(tree.roots)})

\* a visitor has asked to quit (not the same thing as the quit flag being set: a protocol that raises the flag on
\* its own must not get its losses excused by it)
Asked == \E n \in quitAt : visited[n] > 0
NoDup == \A n \in Nodes : visited[n] <= 1
NoLoss == (AllDone /\ ~Asked) => \A n \in Reachable : visited[n] = 1
FlagOnlyAfterRequest == quitNow => Asked
NothingInvented == \A n \in Nodes : visited[n] > 0 => n \in Reachable
CounterInRange == active \in 0..N
NoWorkStranded == (AllDone /\ ~Asked) =>
                     \A w \in W : \A i \in 1..Len(deque[w]) : deque[w][i].k = "quit"
InDeque(k) == \E w \in W : \E i \in 1..Len(deque[w]) : deque[w][i].k = k
QuitNeverVanishes ==
  (\E w \in W : pc[w] = "done") =>
     (InDeque("quit") \/ \E w \in W : hand[w].k = "quit" \/ pc[w] = "pushquit")
\* unless quitting was requested, a worker leaves only with empty hands and nothing of its own left but Quit
ExitClean == ~quitNow => \A w \in W : pc[w] = "done" =>
               /\ hand[w].k = "none" /\ todo[w] = {}
               /\ \A i \in 1..Len(deque[w]) : deque[w][i].k = "quit"
\* the tempting invariant that does NOT hold for the real protocol (kept for the non-vacuity demo)
QuiescenceNaive == (active = 0) => \A w \in W : hand[w].k # "work"

Safety == NoDup /\ NoLoss /\ FlagOnlyAfterRequest /\ NothingInvented /\ CounterInRange /\ NoWorkStranded
          /\ QuitNeverVanishes /\ ExitClean
Term == <>AllDone
=============================================================================

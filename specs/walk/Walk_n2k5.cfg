SPECIFICATION FairSpec
CONSTANTS
  N = 2
  NoNode = 0
  Spurious = FALSE
  EarlyQuit = TRUE
  MayIgnoreFlag = TRUE
  Mutant = "none"
  MaxNodes = 5
  WithQuit = TRUE
  WithErr = FALSE
  WithSkip = FALSE
INVARIANT Safety
PROPERTY Term

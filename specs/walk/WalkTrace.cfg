SPECIFICATION TSpec
CONSTANTS
  N = 3
  NoNode = ""
  Spurious = TRUE
  EarlyQuit = TRUE
  MayIgnoreFlag = TRUE
INVARIANTS Safety LastRunComplete
POSTCONDITION Accepted

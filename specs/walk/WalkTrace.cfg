SPECIFICATION TSpec
CONSTANTS
  N = 3
  NoNode = ""
  Spurious = TRUE
  EarlyQuit = TRUE
  MayIgnoreFlag = TRUE
  Mutant = "none"
INVARIANTS Safety LastRunComplete
POSTCONDITION Accepted

SPECIFICATION FairSpec
CONSTANTS
  N = 3
  NoNode = 0
  Spurious = FALSE
  EarlyQuit = TRUE
  MayIgnoreFlag = TRUE
  Mutant = "none"
  MaxNodes = 4
  WithQuit = TRUE
  WithErr = TRUE
  WithSkip = TRUE
INVARIANT Safety
PROPERTY Term

SPECIFICATION Spec
CONSTANTS
  MaxNodes = 4
  MinEmit = 4
  Depths = {99}
  Devs = {1}
  RootMode = "first"
  MaxRoots = 2
  OptMode = "ignore"
  ExactSize = 0
  NeedDev2 = FALSE
  OptSample = 0
INVARIANTS ModelOK Emitted

----------------------------- MODULE WalkTrace -----------------------------
(* Trace specification: validates ndjson traces recorded from the real parallel walker (hook H2,
   harness/src/bin/record_walk.rs) against WalkProtocol.  Several runs are concatenated; each begins
   with an "Init" record carrying the directory tree, the roots and the quit set.  A run may only be
   followed by the next "Init" (or the end of the file) if every worker has exited and nothing was lost.
   Victim and batch size of a steal are not logged: TLC infers them from the logged deque lengths.  *)
EXTENDS WalkProtocol, Json, IOUtils

Rec == ndJsonDeserialize(IOEnv.TRACE)

VARIABLE l
tvars == <<vars, l>>

E == Rec[l]
ToSet(s) == {s[i] : i \in DOMAIN s}
TreeOfRec(r) == [ch |-> [n \in ToSet(r.nodes) |-> ToSet(r.ch[n])], roots |-> r.roots, err |-> ToSet(r.err), skip |-> ToSet(r.skip)]

TInit == /\ l = 2
         /\ Rec[1].ev = "Init"
         /\ InitWith(TreeOfRec(Rec[1]), ToSet(Rec[1].quit))

IsEv(n) == l <= Len(Rec) /\ E.ev = n /\ l' = l + 1
LensOK == \A i \in W : Len(deque'[i]) = E.lens[i]
Stutter == UNCHANGED vars

RunComplete == AllDone /\ (~Asked => \A n \in Reachable : visited[n] = 1)

\* the next run starts: the previous one must have terminated cleanly
TReset ==
  /\ IsEv("Init")
  /\ RunComplete
  /\ LET t == TreeOfRec(E) q == ToSet(E.quit) IN
     /\ tree' = t /\ quitAt' = q
     /\ deque' = [w \in W |->
                    LET idx == {i \in 1..Len(t.roots) : ((i - 1) % N) + 1 = w}
                        RECURSIVE Build(_, _)
                        Build(i, acc) == IF i > Len(t.roots) THEN acc
                                         ELSE Build(i + 1, IF i \in idx THEN Append(acc, Work(t.roots[i])) ELSE acc)
                    IN Build(1, <<>>)]
     /\ hand' = [w \in W |-> NoneMsg]
     /\ todo' = [w \in W |-> {}]
     /\ pc' = [w \in W |-> "recv"]
     /\ active' = N
     /\ quitNow' = FALSE
     /\ visited' = [n \in DOMAIN t.ch |-> 0]

TStart == IsEv("Start") /\ pc[E.w] = "recv" /\ Stutter
TSleep == IsEv("Sleep") /\ pc[E.w] = "idle" /\ Stutter
TExit == IsEv("Exit") /\ pc[E.w] = "done" /\ Stutter

TRecv ==
  /\ IsEv("Recv")
  /\ \/ /\ pc[E.w] = "recv" /\ Recv(E.w)
     \/ /\ pc[E.w] = "idle" /\ E.kind # "none" /\ IdleRecv(E.w)
     \/ /\ pc[E.w] = "idle" /\ E.kind = "none" /\ Stutter
  /\ hand'[E.w].k = (IF pc[E.w] = "idle" /\ E.kind = "none" THEN hand[E.w].k ELSE E.kind)
  /\ (E.kind = "work" => hand'[E.w].n = E.path)
  /\ LensOK

TChk == IsEv("Chk") /\ Chk(E.w) /\ ((hand'[E.w].k = "quit") = E.quit)

TVisit == IsEv("Visit") /\ ~E.err /\ hand[E.w] = Work(E.path) /\ Visit(E.w)
          /\ (E.quit = (E.path \in quitAt))

\* an unreadable entry: the error is handed over by the worker that lists the parent
TVisitErr == IsEv("Visit") /\ E.err /\ VisitErr(E.w) /\ visited'[E.path] = visited[E.path] + 1
             /\ (E.quit = (E.path \in quitAt))

\* an error that is not about an entry of the tree (an unparsable ignore file above the roots), handed to the visitor
\* by whichever worker starts on a root: no protocol step
TNote == IsEv("Note") /\ Stutter

TPush ==
  /\ IsEv("Push")
  /\ IF E.init
     THEN \* pushed by the calling thread before the workers exist: already part of the initial state
          /\ \A w \in W : pc[w] = "recv"
          /\ Len(deque[E.w]) >= E.own_len /\ deque[E.w][E.own_len] = Work(E.path)
          /\ Stutter
     ELSE IF E.quit
          THEN PushQuit(E.w) /\ Len(deque'[E.w]) = E.own_len
          ELSE PushChild(E.w) /\ LastOf(deque'[E.w]) = Work(E.path) /\ Len(deque'[E.w]) = E.own_len

TSetQuit == IsEv("SetQuit") /\ SetQuit(E.w)
TDeact == IsEv("Deact") /\ Deactivate(E.w) /\ active' = E.remaining
TAct == IsEv("Act") /\ Activate(E.w)

TNext == TReset \/ TStart \/ TSleep \/ TExit \/ TRecv \/ TChk \/ TVisit \/ TVisitErr \/ TNote \/ TPush \/ TSetQuit \/ TDeact \/ TAct
TSpec == TInit /\ [][TNext]_tvars

\* acceptance: every line consumed, and the last run complete
Accepted ==
  LET d == TLCGet("stats").diameter IN
  IF d = Len(Rec) THEN TRUE
  ELSE /\ PrintT(<<"REJECT", ToJson([line |-> d + 1, rec |-> Rec[d + 1]])>>)
       /\ FALSE
LastRunComplete == (l = Len(Rec) + 1) => RunComplete
=============================================================================

SPECIFICATION FairSpec
CONSTANTS
  N = 3
  NoNode = 0
  Spurious = FALSE
  EarlyQuit = TRUE
  MayIgnoreFlag = TRUE
  MaxNodes = 4
  WithQuit = TRUE
INVARIANT Safety
PROPERTY Term

SPECIFICATION Spec
CONSTANTS
  MaxNodes = 4
  MinEmit = 4
  Depths = {99, 1}
  Devs = {1, 2}
  RootMode = "first"
  MaxRoots = 2
  OptMode = "relevant"
  ExactSize = 0
  NeedDev2 = FALSE
  OptSample = 0
INVARIANTS ModelOK Emitted

----------------------------- MODULE MCWalkSim -----------------------------
(* Behaviours of WalkProtocol for replay on the real walker (S->I): TLC -simulate; every step records
   (worker, its program counter before the step); a finished behaviour is printed once. *)
EXTENDS MCWalk
\* ---- behaviours for replay on the real walker (S->I): the sequence of (worker, program counter) of every step
VARIABLE h
NextH == \E w \in W : Step(w) /\ h' = Append(h, <<w, IF visited' # visited THEN "visit" ELSE pc[w]>>)
SimSpec == (MCInit /\ h = <<>>) /\ [][NextH]_<<vars, h>>
EmitBehaviour == AllDone => PrintT(<<"EMIT", ToJson([ch |-> [n \in DOMAIN tree.ch |-> tree.ch[n]], roots |-> tree.roots, err |-> tree.err, skip |-> tree.skip, quit |-> quitAt, h |-> h])>>)
=============================================================================

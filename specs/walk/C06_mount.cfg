SPECIFICATION Spec
CONSTANTS
  MaxNodes = 4
  MinEmit = 2
  Depths = {99}
  Devs = {1, 2}
  RootMode = "first"
  MaxRoots = 1
  OptMode = "mount"
  ExactSize = 0
  NeedDev2 = FALSE
  OptSample = 0
INVARIANTS ModelOK Emitted

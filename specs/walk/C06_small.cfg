SPECIFICATION Spec
CONSTANTS
  MaxNodes = 3
  MinEmit = 1
  Depths = {99, 1}
  Devs = {1, 2}
  RootMode = "any"
  MaxRoots = 2
  OptMode = "relevant"
  ExactSize = 0
  NeedDev2 = FALSE
  OptSample = 0
INVARIANTS ModelOK Emitted

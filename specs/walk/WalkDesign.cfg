INIT DesignInit
NEXT DesignNext
CONSTANTS
  MaxNodes = 1
  MinEmit = 1
  Depths = {99}
  Devs = {1}
  RootMode = "first"
  MaxRoots = 1
  OptMode = "full"
  ExactSize = 0
  NeedDev2 = FALSE
  OptSample = 0
INVARIANTS DesignAgree DesignConforms DesignEmit

SPECIFICATION Spec
CONSTANTS
  Words <- StratWordsCI
  MinWords = 0
  MaxWords = 4
  Must = {}
  OptSet <- OptsCI
  PathAlpha <- CIAlphaDef
  PathLen = 4
  StratLen = 0
  MetaAlpha <- MetaAlphaDef
  MetaLen = 0
  RandAlpha <- RandAlphaDef
  RandMin = 6
  RandMax = 11
  RandCount = 0
  SelfLen = 0
INVARIANTS Emit EmitHdr

------------------------------- MODULE Glob -------------------------------
(* The documented meaning of globset globs (crates/globset/src/lib.rs, section "Syntax", the
   option docs of GlobBuilder, the ErrorKind docs), as a function from *character strings* to
   match predicates over paths.

     Parse(chars, o)      character string  ->  [err |-> "", toks |-> tokens]  or  [err |-> class]
     Matches(toks, p, o)  the reference matcher: a plain recursive operator over symbol sequences
                          (this is the normative definition)
     DMatches, Digest,    the same language computed by derivatives of the token sequence, for whole
     DigestSum, MatchNums path universes at once: Digest counts on the automaton of reachable matcher
                          states, DigestSum / MatchNums walk the tree of all paths over an alphabet up
                          to a length bound (shared prefixes matched once, dead prefixes pruned).
                          TLC checks in MCGlob!SelfOK that they agree with Matches.

   Characters are byte values (naturals); a path is a sequence of bytes.  `?` and a negated
   class consume exactly one byte.  Only `/` is a path separator (Unix).

   o : [ci, ls, be, ea : BOOLEAN]   case_insensitive, literal_separator, backslash_escape,
                                    empty_alternates
   tokens (Token in glob.rs):
     [k |-> "lit", c |-> byte]                 Literal
     [k |-> "any"]                             `?`
     [k |-> "star"]                            `*`         ZeroOrMore
     [k |-> "recpre"]                          `**/` at the start      RecursivePrefix
     [k |-> "recsuf"]                          `/**` at the end        RecursiveSuffix
     [k |-> "recmid"]                          `/**/`                  RecursiveZeroOrMore
     [k |-> "class", neg |-> B, rs |-> <<lo,hi>>*]
     [k |-> "alt", bs |-> sequence of token sequences]     one level of alternates        *)
EXTENDS Naturals, Sequences, FiniteSets

SLASH == 47    DOT == 46     DASH == 45    STAR == 42    QM == 63
LBRACK == 91   RBRACK == 93  BANG == 33    CARET == 94
LBRACE == 123  RBRACE == 125 COMMA == 44   BSLASH == 92

Lit(c) == [k |-> "lit", c |-> c]
TAny == [k |-> "any"]
TStar == [k |-> "star"]
TRecPre == [k |-> "recpre"]
TRecSuf == [k |-> "recsuf"]
TRecMid == [k |-> "recmid"]
Class(neg, rs) == [k |-> "class", neg |-> neg, rs |-> rs]
Alt(bs) == [k |-> "alt", bs |-> bs]

Drop(p, n) == SubSeq(p, n + 1, Len(p))
IsSep(c) == c = SLASH

(***************************************************************************)
(* Parsing: character string -> tokens or error class.                     *)
(*                                                                         *)
(* Error classes (ErrorKind docs): "unclosed_class", "invalid_range",      *)
(* "unopened_alternates" (a `}` without a matching `{`),                   *)
(* "unclosed_alternates", "nested_alternates", "dangling_escape".          *)
(*                                                                         *)
(* The rules for `**` are those of Parser::parse_star: `**` is a recursive *)
(* wildcard only as a whole path component (at the start followed by `/`   *)
(* or the end, after a `/` and followed by `/` or the end -- inside an     *)
(* alternate also when delimited by `{` `,` `}`); anywhere else it is two  *)
(* consecutive `*`.                                                        *)
(*                                                                         *)
(* lenient = TRUE is the named deviation KF_UnopenedAlternatesAccepted:    *)
(* a `}` that closes nothing is not an error but an alternation without    *)
(* branches (which matches like the empty pattern).                        *)
(***************************************************************************)
PS0 == [base |-> <<>>, inalt |-> FALSE, alts |-> <<>>, cur |-> <<>>]
Top(st) == IF st.inalt THEN st.cur ELSE st.base
SetTop(st, ts) == IF st.inalt THEN [st EXCEPT !.cur = ts] ELSE [st EXCEPT !.base = ts]
Push(st, t) == SetTop(st, Append(Top(st), t))
Push2(st, t, u) == SetTop(st, Top(st) \o <<t, u>>)
PErr(e) == [err |-> e]
POk(ts) == [err |-> "", toks |-> ts]

\* character class starting after `[` (and after the negation mark): returns
\* [err |-> e] or [err |-> "", rs |-> ranges, next |-> index after the closing bracket]
RECURSIVE ClassBody(_, _, _, _, _)
ClassBody(chars, j, first, inrange, rs) ==
  IF j > Len(chars) THEN [err |-> "unclosed_class"]
  ELSE LET c == chars[j]
           n == Len(rs)
           Close(hi) == [rs EXCEPT ![n] = <<rs[n][1], hi>>]
       IN IF c = RBRACK /\ ~first
          THEN [err |-> "", rs |-> IF inrange THEN Append(rs, <<DASH, DASH>>) ELSE rs, next |-> j + 1]
          ELSE IF c = RBRACK
          THEN ClassBody(chars, j + 1, FALSE, inrange, Append(rs, <<RBRACK, RBRACK>>))
          ELSE IF c = DASH /\ first
          THEN ClassBody(chars, j + 1, FALSE, inrange, Append(rs, <<DASH, DASH>>))
          ELSE IF c = DASH /\ ~inrange
          THEN ClassBody(chars, j + 1, FALSE, TRUE, rs)
          ELSE IF inrange
          THEN IF c < rs[n][1] THEN [err |-> "invalid_range"]
               ELSE ClassBody(chars, j + 1, FALSE, FALSE, Close(c))
          ELSE ClassBody(chars, j + 1, FALSE, FALSE, Append(rs, <<c, c>>))

RECURSIVE ParseFrom(_, _, _, _, _)
ParseFrom(chars, i, st, be, lenient) ==
  LET n == Len(chars) IN
  IF i > n THEN (IF st.inalt THEN PErr("unclosed_alternates") ELSE POk(st.base))
  ELSE
  LET c == chars[i]
      Go(j, s) == ParseFrom(chars, j, s, be, lenient)
  IN
  IF c = QM THEN Go(i + 1, Push(st, TAny))
  ELSE IF c = STAR THEN
    IF ~(i + 1 <= n /\ chars[i + 1] = STAR) THEN Go(i + 1, Push(st, TStar))
    ELSE
    LET k == i + 2                             \* index after the two stars
        hasNext == k <= n
        nxt == IF hasNext THEN chars[k] ELSE 0
        hasPrev == i > 1
        prev == IF hasPrev THEN chars[i - 1] ELSE 0
        two == Go(k, Push2(st, TStar, TStar))
    IN
    IF Top(st) = <<>> THEN
         IF hasNext /\ ~IsSep(nxt) THEN two
         ELSE Go(IF hasNext THEN k + 1 ELSE k, Push(st, TRecPre))
    ELSE IF ~(hasPrev /\ IsSep(prev)) /\ (~st.inalt \/ (prev # COMMA /\ prev # LBRACE)) THEN two
    ELSE
    LET toks == Top(st)
        last == toks[Len(toks)]
        front == SubSeq(toks, 1, Len(toks) - 1)
        Repl(isSuffix) == IF last.k = "recpre" THEN TRecPre
                          ELSE IF last.k = "recsuf" THEN TRecSuf
                          ELSE IF isSuffix THEN TRecSuf ELSE TRecMid
    IN IF ~hasNext THEN Go(k, SetTop(st, Append(front, Repl(TRUE))))
       ELSE IF st.inalt /\ (nxt = COMMA \/ nxt = RBRACE) THEN Go(k, SetTop(st, Append(front, Repl(TRUE))))
       ELSE IF IsSep(nxt) THEN Go(k + 1, SetTop(st, Append(front, Repl(FALSE))))
       ELSE two
  ELSE IF c = LBRACK THEN
    LET neg == i + 1 <= n /\ (chars[i + 1] = BANG \/ chars[i + 1] = CARET)
        r == ClassBody(chars, IF neg THEN i + 2 ELSE i + 1, TRUE, FALSE, <<>>)
    IN IF r.err # "" THEN PErr(r.err) ELSE Go(r.next, Push(st, Class(neg, r.rs)))
  ELSE IF c = LBRACE THEN
    IF st.inalt THEN PErr("nested_alternates")
    ELSE Go(i + 1, [st EXCEPT !.inalt = TRUE, !.alts = <<>>, !.cur = <<>>])
  ELSE IF c = RBRACE THEN
    IF st.inalt
    THEN Go(i + 1, [base |-> Append(st.base, Alt(Append(st.alts, st.cur))), inalt |-> FALSE,
                    alts |-> <<>>, cur |-> <<>>])
    ELSE IF lenient THEN Go(i + 1, Push(st, Alt(<<>>))) ELSE PErr("unopened_alternates")
  ELSE IF c = COMMA THEN
    IF st.inalt THEN Go(i + 1, [st EXCEPT !.alts = Append(st.alts, st.cur), !.cur = <<>>])
    ELSE Go(i + 1, Push(st, Lit(COMMA)))
  ELSE IF c = BSLASH THEN
    IF be THEN (IF i + 1 <= n THEN Go(i + 2, Push(st, Lit(chars[i + 1]))) ELSE PErr("dangling_escape"))
    ELSE Go(i + 1, Push(st, Lit(BSLASH)))
  ELSE Go(i + 1, Push(st, Lit(c)))

ParseWith(chars, o, lenient) == ParseFrom(chars, 1, PS0, o.be, lenient)
Parse(chars, o) == ParseWith(chars, o, FALSE)

(***************************************************************************)
(* Matching: the reference definition.                                     *)
(***************************************************************************)
IsUpper(c) == c >= 65 /\ c <= 90
IsLower(c) == c >= 97 /\ c <= 122
SwapCase(c) == IF IsUpper(c) THEN c + 32 ELSE IF IsLower(c) THEN c - 32 ELSE c
LitEq(a, c, o) == a = c \/ (o.ci /\ SwapCase(a) = c)
InRanges(rs, c) == \E i \in 1..Len(rs) : rs[i][1] <= c /\ c <= rs[i][2]
\* case folding applies to the listed characters, negation to the folded class
ClassHas(t, c, o) == LET pos == InRanges(t.rs, c) \/ (o.ci /\ InRanges(t.rs, SwapCase(c)))
                     IN IF t.neg THEN ~pos ELSE pos
\* `?` and `*` cross `/` only when separators are not literal
WildOk(c, o) == ~(o.ls /\ IsSep(c))

\* branches of an alternation that take part: an empty branch only with empty_alternates
Branches(t, o) == LET B == {t.bs[i] : i \in 1..Len(t.bs)} IN IF o.ea THEN B ELSE B \ {<<>>}

RECURSIVE M(_, _, _)
M(g, p, o) ==
  IF g = <<>> THEN p = <<>>
  ELSE LET t == Head(g)
           r == Tail(g)
       IN CASE t.k = "lit"   -> p # <<>> /\ LitEq(t.c, Head(p), o) /\ M(r, Tail(p), o)
            [] t.k = "any"   -> p # <<>> /\ WildOk(Head(p), o) /\ M(r, Tail(p), o)
            [] t.k = "class" -> p # <<>> /\ ClassHas(t, Head(p), o) /\ M(r, Tail(p), o)
            [] t.k = "star"  -> \E n \in 0..Len(p) : (\A i \in 1..n : WildOk(p[i], o)) /\ M(r, Drop(p, n), o)
            \* zero or more whole leading components: nothing, or anything that ends in `/`
            [] t.k = "recpre" -> M(r, p, o) \/ \E n \in 1..Len(p) : IsSep(p[n]) /\ M(r, Drop(p, n), o)
            \* a `/` and everything below it
            [] t.k = "recsuf" -> p # <<>> /\ IsSep(Head(p)) /\ \E n \in 1..Len(p) : M(r, Drop(p, n), o)
            \* `/`, or `/` whole components `/`
            [] t.k = "recmid" -> p # <<>> /\ IsSep(Head(p))
                                 /\ (M(r, Tail(p), o) \/ \E n \in 2..Len(p) : IsSep(p[n]) /\ M(r, Drop(p, n), o))
            [] t.k = "alt"   -> LET B == Branches(t, o)
                                IN IF B = {} THEN M(r, p, o) ELSE \E b \in B : M(b \o r, p, o)

\* the glob `**` alone matches everything
Matches(g, p, o) == IF g = <<TRecPre>> THEN TRUE ELSE M(g, p, o)

(***************************************************************************)
(* The same language by derivatives, for whole path universes at once.     *)
(*                                                                         *)
(* Alternates are expanded into a sequence FL of alternate-free token      *)
(* sequences.  A residual is <<i, j, m>>: what is left of FL[i] from token *)
(* j on, preceded by (m = 1) "anything that ends in `/`", (m = 2)          *)
(* "anything".  A matcher state is a set of residuals.                     *)
(***************************************************************************)
RECURSIVE FlatSet(_, _)
FlatSet(g, o) ==
  IF g = <<>> THEN {<<>>}
  ELSE LET t == Head(g)
           R == FlatSet(Tail(g), o)
       IN IF t.k = "alt"
          THEN LET B == Branches(t, o) IN IF B = {} THEN R ELSE {b \o r : b \in B, r \in R}
          ELSE {<<t>> \o r : r \in R}

RECURSIVE SetToSeq(_)
SetToSeq(S) == IF S = {} THEN <<>> ELSE LET x == CHOOSE x \in S : TRUE IN <<x>> \o SetToSeq(S \ {x})

Flats(g, o) == IF g = <<TRecPre>> THEN << <<>> >> ELSE SetToSeq(FlatSet(g, o))
Start(g, FL) == {<<i, 1, IF g = <<TRecPre>> THEN 2 ELSE 0>> : i \in 1..Len(FL)}

RECURSIVE NullAt(_, _)
NullAt(f, j) == j > Len(f) \/ (f[j].k \in {"star", "recpre"} /\ NullAt(f, j + 1))
Nullable(FL, r) == r[3] # 1 /\ NullAt(FL[r[1]], r[2])
Accepting(FL, S) == \E r \in S : Nullable(FL, r)

\* residual positions <<j, m>> of flat f after consuming c from <<j, m>>
RECURSIVE D(_, _, _, _, _)
D(f, j, m, c, o) ==
  IF m = 1 THEN {<<j, 1>>} \cup (IF IsSep(c) THEN {<<j, 0>>} ELSE {})
  ELSE IF m = 2 THEN {<<j, 2>>} \cup D(f, j, 0, c, o)
  ELSE IF j > Len(f) THEN {}
  ELSE LET t == f[j] IN
       CASE t.k = "lit"    -> IF LitEq(t.c, c, o) THEN {<<j + 1, 0>>} ELSE {}
         [] t.k = "any"    -> IF WildOk(c, o) THEN {<<j + 1, 0>>} ELSE {}
         [] t.k = "class"  -> IF ClassHas(t, c, o) THEN {<<j + 1, 0>>} ELSE {}
         [] t.k = "star"   -> (IF WildOk(c, o) THEN {<<j, 0>>} ELSE {}) \cup D(f, j + 1, 0, c, o)
         [] t.k = "recpre" -> D(f, j + 1, 0, c, o) \cup D(f, j + 1, 1, c, o)
         [] t.k = "recsuf" -> IF IsSep(c) THEN {<<j + 1, 2>>} ELSE {}
         [] t.k = "recmid" -> IF IsSep(c) THEN {<<j + 1, 0>>, <<j + 1, 1>>} ELSE {}

Step(FL, S, c, o) == UNION {{<<r[1], x[1], x[2]>> : x \in D(FL[r[1]], r[2], r[3], c, o)} : r \in S}

RECURSIVE RunOn(_, _, _, _)
RunOn(FL, S, p, o) == IF p = <<>> THEN S ELSE RunOn(FL, Step(FL, S, Head(p), o), Tail(p), o)
\* Matches, by derivatives
DMatches(g, p, o) == LET FL == Flats(g, o) IN Accepting(FL, RunOn(FL, Start(g, FL), p, o))

(***************************************************************************)
(* Path universes: all sequences over the alphabet sequence A of length    *)
(* <= d.  A path is numbered in base Len(A)+1 with digits 1..Len(A)        *)
(* (PathNum).  A set of paths is summarised by a digest: for every length  *)
(* k = 0..d the triple                                                     *)
(*    <<number of paths, sum of num mod PP, sum of num^2 mod PP>>.         *)
(*                                                                         *)
(* The digest of a glob's language is computed on the automaton of matcher *)
(* states reachable over A (Closure), level by level: a path c.t of length *)
(* k+1 from state q is a path t of length k from Step(q, c), and           *)
(* num(c.t) = digit(c) * B^k + num(t).                                     *)
(***************************************************************************)
PP == 32749
Zero3 == <<0, 0, 0>>
Add3(a, b) == <<a[1] + b[1], (a[2] + b[2]) % PP, (a[3] + b[3]) % PP>>
Weight(num) == <<1, num % PP, ((num % PP) * (num % PP)) % PP>>
Concrete(s) == s \o <<>>          \* forces TLC to evaluate a sequence expression once

RECURSIVE PathNum(_, _, _)
PathNum(A, p, acc) ==
  IF p = <<>> THEN acc
  ELSE PathNum(A, Tail(p), acc * (Len(A) + 1) + (CHOOSE i \in 1..Len(A) : A[i] = Head(p)))

\* the matcher states reachable from QS[1..] over A, as a sequence without repetition
RECURSIVE Closure(_, _, _, _, _)
Closure(FL, QS, i, A, o) ==
  IF i > Len(QS) THEN QS
  ELSE LET succ == {Step(FL, QS[i], A[k], o) : k \in 1..Len(A)}
           new == succ \ {QS[j] : j \in 1..Len(QS)}
       IN Closure(FL, QS \o SetToSeq(new), i + 1, A, o)

Trans(FL, QS, A, o) ==
  Concrete([i \in 1..Len(QS) |->
     Concrete([k \in 1..Len(A) |-> CHOOSE j \in 1..Len(QS) : QS[j] = Step(FL, QS[i], A[k], o)])])

\* statistics of { c.t : t \in X } from those (t) of X, where x = digit(c) * B^|t| mod PP
Shift(x, t) ==
  LET n == t[1] % PP
  IN <<t[1], ((x * n) + t[2]) % PP,
       (((((x * x) % PP) * n) % PP) + ((((2 * x) % PP) * t[2]) % PP) + t[3]) % PP>>

RECURSIVE SumKids(_, _, _, _, _)
SumKids(Ti, V, Bk, nA, c) ==
  IF c > nA THEN Zero3 ELSE Add3(Shift((c * Bk) % PP, V[Ti[c]]), SumKids(Ti, V, Bk, nA, c + 1))

RECURSIVE Levels(_, _, _, _, _, _, _)
Levels(T, V, k, d, Bk, nA, acc) ==
  IF k = d THEN acc
  ELSE LET W == Concrete([i \in 1..Len(T) |-> SumKids(T[i], V, Bk, nA, 1)])
       IN Levels(T, W, k + 1, d, (Bk * (nA + 1)) % PP, nA, Append(acc, W[1]))

\* digest of {p \in paths over A, length <= d : Matches(g, p, o)}: a sequence of d+1 triples
Digest(g, o, A, d) ==
  LET FL == Flats(g, o)
      QS == Closure(FL, <<Start(g, FL)>>, 1, A, o)
      T == Trans(FL, QS, A, o)
      V0 == Concrete([i \in 1..Len(QS) |-> IF Accepting(FL, QS[i]) THEN <<1, 0, 0>> ELSE Zero3])
  IN Levels(T, V0, 0, d, 1, Len(A), <<V0[1]>>)

\* the digest of an explicitly given set of paths (for cross-checking)
RECURSIVE SumWeights(_, _)
SumWeights(A, S) == IF S = {} THEN Zero3
                    ELSE LET p == CHOOSE p \in S : TRUE
                         IN Add3(Weight(PathNum(A, p, 0)), SumWeights(A, S \ {p}))
DigestOfSet(A, S, d) == [k \in 1..(d + 1) |-> SumWeights(A, {p \in S : Len(p) = k - 1})]

\* the same digest by a walk of the path tree with dead prefixes pruned, all lengths added up
\* (cheaper than the automaton for short universes over large alphabets): one triple
RECURSIVE WalkSum(_, _, _, _, _, _)
RECURSIVE WalkSumKids(_, _, _, _, _, _, _)
WalkSum(FL, S, num, d, A, o) ==
  LET here == IF Accepting(FL, S) THEN Weight(num) ELSE Zero3
  IN IF d = 0 \/ S = {} THEN here ELSE Add3(here, WalkSumKids(FL, S, num, d, A, o, 1))
WalkSumKids(FL, S, num, d, A, o, i) ==
  IF i > Len(A) THEN Zero3
  ELSE Add3(WalkSum(FL, Step(FL, S, A[i], o), num * (Len(A) + 1) + i, d - 1, A, o),
            WalkSumKids(FL, S, num, d, A, o, i + 1))
DigestSum(g, o, A, d) == LET FL == Flats(g, o) IN WalkSum(FL, Start(g, FL), 0, d, A, o)

RECURSIVE WalkNums(_, _, _, _, _, _)
WalkNums(FL, S, num, d, A, o) ==
  (IF Accepting(FL, S) THEN {num} ELSE {})
  \cup (IF d = 0 \/ S = {} THEN {}
        ELSE UNION {WalkNums(FL, Step(FL, S, A[i], o), num * (Len(A) + 1) + i, d - 1, A, o) : i \in 1..Len(A)})
\* the numbers of all matching paths of the universe (tree walk, dead prefixes pruned)
MatchNums(g, o, A, d) == LET FL == Flats(g, o) IN WalkNums(FL, Start(g, FL), 0, d, A, o)
=============================================================================

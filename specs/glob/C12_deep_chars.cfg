SPECIFICATION Spec
CONSTANTS
  Words <- CharWords
  MinWords = 0
  MaxWords = 4
  Must = {}
  OptSet <- OptsAll
  PathAlpha <- PathAlphaDef
  PathLen = 5
  StratLen = 0
  MetaAlpha <- MetaAlphaDef
  MetaLen = 2
  RandAlpha <- RandAlphaDef
  RandMin = 6
  RandMax = 11
  RandCount = 3
  SelfLen = 0
INVARIANTS Emit EmitHdr

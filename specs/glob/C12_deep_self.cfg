SPECIFICATION Spec
CONSTANTS
  Words <- TokWords
  MinWords = 0
  MaxWords = 2
  Must = {}
  OptSet <- OptsAll
  PathAlpha <- PathAlphaDef
  PathLen = 0
  StratLen = 0
  MetaAlpha <- MetaAlphaDef
  MetaLen = 0
  RandAlpha <- RandAlphaDef
  RandMin = 6
  RandMax = 11
  RandCount = 0
  SelfLen = 4
INVARIANTS SelfOK

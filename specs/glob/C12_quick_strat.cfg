SPECIFICATION Spec
CONSTANTS
  Words <- StratWords
  MinWords = 0
  MaxWords = 4
  Must = {}
  OptSet <- OptsCS
  PathAlpha <- StratAlphaDef
  PathLen = 4
  StratLen = 4
  MetaAlpha <- MetaAlphaDef
  MetaLen = 0
  RandAlpha <- RandAlphaDef
  RandMin = 6
  RandMax = 11
  RandCount = 0
  SelfLen = 0
INVARIANTS Emit EmitHdr

SPECIFICATION Spec
CONSTANTS
  Words <- CharWords
  MinWords = 0
  MaxWords = 3
  Must = {}
  OptSet <- OptsAll
  PathAlpha <- PathAlphaDef
  PathLen = 6
  StratLen = 0
  MetaAlpha <- MetaAlphaDef
  MetaLen = 0
  RandAlpha <- RandAlphaDef
  RandMin = 6
  RandMax = 11
  RandCount = 0
  SelfLen = 0
INVARIANTS Emit EmitHdr

SPECIFICATION Spec
CONSTANTS
  Words <- TokWords2
  MinWords = 0
  MaxWords = 3
  Must = {}
  OptSet <- OptsNoBE
  PathAlpha <- PathAlphaDef
  PathLen = 0
  StratLen = 0
  MetaAlpha <- MetaAlphaDef
  MetaLen = 0
  RandAlpha <- RandAlphaDef
  RandMin = 6
  RandMax = 11
  RandCount = 0
  SelfLen = 3
INVARIANTS SelfOK

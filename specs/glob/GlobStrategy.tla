--------------------------- MODULE GlobStrategy ---------------------------
(* Implementation-shaped transcription of how a GlobSet answers for one member glob:
     crates/globset/src/glob.rs     MatchStrategy::new, Glob::{basename_literal, literal, ext, prefix,
                                    suffix, required_ext}
     crates/globset/src/lib.rs      Candidate::new, the seven *Strategy::is_match / matches_into
     crates/globset/src/pathutil.rs file_name, file_name_ext

   Design-level theorem (checked by TLC for every glob x every path of the universe):
       StratMatch(Strategy(g, o), p, "lastslash", Matches(g, p, o)) = Matches(g, p, o)
   i.e. every shortcut is exact when the file name of a path is the text after its last `/`.

   Named deviation "asis" (KF_FileNameDot): pathutil::file_name as written returns None for every
   path whose last byte is `.`; under it the basename-literal, extension and required-extension
   strategies miss paths, and TLC lists them (BadAsIs).                                        *)
EXTENDS Glob

AllLit(g) == \A i \in 1..Len(g) : g[i].k = "lit"
LitStr(g) == [i \in 1..Len(g) |-> g[i].c]
IsLitC(t, c) == t.k = "lit" /\ t.c = c
None == [ok |-> FALSE]
Some(lit, comp) == [ok |-> TRUE, lit |-> lit, comp |-> comp]

\* Glob::basename_literal (via basename_tokens): `**/` + literal without `/`
BasenameLiteral(g, o) ==
  IF ~o.ci /\ Len(g) >= 2 /\ g[1].k = "recpre" /\ AllLit(Tail(g)) /\ (\A i \in 2..Len(g) : g[i].c # SLASH)
  THEN Some(LitStr(Tail(g)), FALSE) ELSE None

\* Glob::literal
Literal(g, o) == IF ~o.ci /\ Len(g) >= 1 /\ AllLit(g) THEN Some(LitStr(g), FALSE) ELSE None

\* Glob::ext: [`**/`] `*` `.` literal-without-dot-and-slash
Ext(g, o) ==
  IF o.ci \/ Len(g) = 0 THEN None
  ELSE LET s == IF g[1].k = "recpre" THEN 1 ELSE 0 IN
       IF /\ Len(g) >= s + 2
          /\ g[s + 1].k = "star" /\ ~(s = 0 /\ o.ls)
          /\ IsLitC(g[s + 2], DOT)
          /\ \A i \in (s + 3)..Len(g) : g[i].k = "lit" /\ g[i].c # DOT /\ g[i].c # SLASH
       THEN Some(<<DOT>> \o [i \in 1..(Len(g) - s - 2) |-> g[s + 2 + i].c], FALSE)
       ELSE None

\* Glob::prefix: literal [`*` | `/**`]
Prefix(g, o) ==
  IF o.ci \/ Len(g) = 0 THEN None
  ELSE LET t == g[Len(g)]
           e == IF t.k = "star" \/ t.k = "recsuf" THEN Len(g) - 1 ELSE Len(g)
           lit == LitStr(SubSeq(g, 1, e)) \o (IF t.k = "recsuf" THEN <<SLASH>> ELSE <<>>)
       IN IF ~(t.k = "star" /\ o.ls) /\ AllLit(SubSeq(g, 1, e)) /\ lit # <<>> THEN Some(lit, FALSE) ELSE None

\* Glob::suffix: [`**/`] [`*`] literal; component = must start a path component
Suffix(g, o) ==
  IF o.ci \/ Len(g) = 0 THEN None
  ELSE LET pre == g[1].k = "recpre"
           comp == pre /\ Len(g) >= 2 /\ g[2].k = "lit"
           s0 == IF pre THEN 2 ELSE 1               \* index of the token after the prefix
       IN IF Len(g) < s0 THEN None
          ELSE LET isStar == g[s0].k = "star"
                   s1 == IF isStar THEN s0 + 1 ELSE s0
                   body == SubSeq(g, s1, Len(g))
               IN IF (isStar /\ o.ls) \/ ~AllLit(body) THEN None
                  ELSE LET lit == (IF comp THEN <<SLASH>> ELSE <<>>) \o LitStr(body)
                       IN IF lit = <<>> \/ lit = <<SLASH>> THEN None ELSE Some(lit, comp)

\* Glob::required_ext: the glob ends in `.` literal-without-dot-and-slash
RECURSIVE ReqExtGo(_, _, _)
ReqExtGo(g, i, acc) ==
  IF i = 0 THEN None
  ELSE IF g[i].k # "lit" \/ g[i].c = SLASH THEN None
  ELSE IF g[i].c = DOT THEN Some(<<DOT>> \o acc, FALSE)
  ELSE ReqExtGo(g, i - 1, <<g[i].c>> \o acc)
ReqExt(g, o) == IF o.ci THEN None ELSE ReqExtGo(g, Len(g), <<>>)

\* MatchStrategy::new
Strategy(g, o) ==
  LET With(kind, r) == [kind |-> kind, lit |-> r.lit, comp |-> r.comp] IN
  IF BasenameLiteral(g, o).ok THEN With("basename", BasenameLiteral(g, o))
  ELSE IF Literal(g, o).ok THEN With("literal", Literal(g, o))
  ELSE IF Ext(g, o).ok THEN With("ext", Ext(g, o))
  ELSE IF Prefix(g, o).ok THEN With("prefix", Prefix(g, o))
  ELSE IF Suffix(g, o).ok THEN With("suffix", Suffix(g, o))
  ELSE IF ReqExt(g, o).ok THEN With("reqext", ReqExt(g, o))
  ELSE [kind |-> "regex", lit |-> <<>>, comp |-> FALSE]

\* ---------------------------------------------------------------- Candidate::new
LastIdx(p, c) == LET s == {i \in 1..Len(p) : p[i] = c}
                 IN IF s = {} THEN 0 ELSE CHOOSE i \in s : \A j \in s : j <= i
Base0(p) == Drop(p, LastIdx(p, SLASH))
\* pathutil::file_name(...).unwrap_or("")
FileName(p, mode) == IF mode = "asis" /\ (p = <<>> \/ p[Len(p)] = DOT) THEN <<>> ELSE Base0(p)
\* pathutil::file_name_ext(basename).unwrap_or("")
FileExt(b) == LET d == LastIdx(b, DOT) IN IF d = 0 THEN <<>> ELSE Drop(b, d - 1)

PrefOf(a, b) == Len(a) <= Len(b) /\ SubSeq(b, 1, Len(a)) = a
SufOf(a, b) == Len(a) <= Len(b) /\ SubSeq(b, Len(b) - Len(a) + 1, Len(b)) = a

\* what the GlobSet strategy tables answer for this member; m = the answer of the member's regex
StratMatch(st, p, mode, m) ==
  CASE st.kind = "basename" -> LET b == FileName(p, mode) IN b # <<>> /\ b = st.lit
    [] st.kind = "literal"  -> p = st.lit
    [] st.kind = "ext"      -> LET e == FileExt(FileName(p, mode)) IN e # <<>> /\ e = st.lit
    [] st.kind = "prefix"   -> PrefOf(st.lit, p)
    \* a component suffix `/x` is also entered as the whole-path literal `x`
    [] st.kind = "suffix"   -> SufOf(st.lit, p) \/ (st.comp /\ p = Tail(st.lit))
    [] st.kind = "reqext"   -> LET e == FileExt(FileName(p, mode)) IN e # <<>> /\ e = st.lit /\ m
    [] st.kind = "regex"    -> m

(* Walk of the whole path universe (no pruning: a wrong shortcut may accept where the documented
   meaning is dead).  Result <<badFix, badAsIs, badAsIsNotDot, n, h1, h2>>:
     badFix         paths where the strategy under "lastslash" differs from the documented meaning
     badAsIs        ... under "asis"
     badAsIsNotDot  ... under "asis", on paths that do not end in `.`
     n, h1, h2      digest of the set of paths the "asis" strategy accepts                       *)
Zero6 == <<0, 0, 0, 0, 0, 0>>
Add6(a, b) == <<a[1] + b[1], a[2] + b[2], a[3] + b[3], a[4] + b[4], (a[5] + b[5]) % PP, (a[6] + b[6]) % PP>>
B2N(b) == IF b THEN 1 ELSE 0

RECURSIVE WalkStrat(_, _, _, _, _, _, _, _)
RECURSIVE WalkStratKids(_, _, _, _, _, _, _, _, _)
WalkStrat(FL, S, p, num, d, A, o, st) ==
  LET m == Accepting(FL, S)
      sa == StratMatch(st, p, "asis", m)
      \* the two file-name modes can only differ on a path that ends in `.`
      sf == IF p # <<>> /\ p[Len(p)] = DOT THEN StratMatch(st, p, "lastslash", m) ELSE sa
      w == IF sa THEN Weight(num) ELSE Zero3
      here == <<B2N(sf # m), B2N(sa # m), B2N(sa # m /\ (p = <<>> \/ p[Len(p)] # DOT)), w[1], w[2], w[3]>>
  IN IF d = 0 THEN here ELSE Add6(here, WalkStratKids(FL, S, p, num, d, A, o, st, 1))
WalkStratKids(FL, S, p, num, d, A, o, st, i) ==
  IF i > Len(A) THEN Zero6
  ELSE Add6(WalkStrat(FL, Step(FL, S, A[i], o), Append(p, A[i]), num * (Len(A) + 1) + i, d - 1, A, o, st),
            WalkStratKids(FL, S, p, num, d, A, o, st, i + 1))

StratReport(g, o, A, d) ==
  LET FL == Flats(g, o) IN WalkStrat(FL, Start(g, FL), <<>>, 0, d, A, o, Strategy(g, o))

\* the design-level theorem for one glob, stated with the reference matcher (used on small bounds)
StratExact(g, o, paths) ==
  \A p \in paths : StratMatch(Strategy(g, o), p, "lastslash", Matches(g, p, o)) = Matches(g, p, o)
=============================================================================

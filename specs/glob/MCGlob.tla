------------------------------ MODULE MCGlob ------------------------------
(* Scenario generator and oracle for C12.

   State = a glob character string (and the number of words used).  The string grows by one *word* per step (a word is a single
   character for the character-level generator, the text of one token for the token-level
   generator), so every string of at most MaxWords words is one state and the work spreads over
   TLC's workers.  Everything goes through Glob!Parse: the token-level generator only produces
   longer, structured strings.

   Emit (an invariant-shaped operator) prints, for every state and every option record of OptSet
   that can make a difference for the string (strings of fewer than MinWords words are skipped),
   what the specification predicts:
     err    documented parse result ("" = valid glob, else the error class)
     lerr   the same under the named deviation KF_UnopenedAlternatesAccepted
     strat  which GlobSet strategy the member would get (GlobStrategy!Strategy) -- a label only
     kinds  the token kinds that occur (for coverage accounting)
     dig    digest (per path length) of { p over PathAlpha, |p| <= PathLen : Matches(Parse(chars), p, o) }
     mdig   digest (summed) over the second universe MetaAlpha / MetaLen (glob meta characters as
            path bytes); absent when MetaLen = 0
     srep   GlobStrategy!StratReport over PathAlpha / StratLen for non-regex strategies (StratLen > 0)
     rnd    RandCount random longer paths over RandAlpha (biased towards the glob's language, with a
            non-UTF-8 byte) with the predicted answer                                          *)
EXTENDS GlobStrategy, TLC, Json

CONSTANTS Words, MinWords, MaxWords, OptSet,
          Must,                                \* emit only strings containing one of these characters ({} = all)
          PathAlpha, PathLen, StratLen,
          MetaAlpha, MetaLen,
          RandAlpha, RandMin, RandMax, RandCount,
          SelfLen                              \* path length bound of the self-check (SelfOK)

VARIABLES chars, nw
vars == <<chars, nw>>

Init == chars = <<>> /\ nw = 0
Next == /\ nw < MaxWords
        /\ \E w \in Words : chars' = chars \o w
        /\ nw' = nw + 1
Spec == Init /\ [][Next]_vars

Range(s) == {s[i] : i \in 1..Len(s)}
HasEmptyBranch(g) == \E i \in 1..Len(g) : g[i].k = "alt" /\ \E j \in 1..Len(g[i].bs) : g[i].bs[j] = <<>>
IsLetter(c) == IsUpper(c) \/ IsLower(c)
RECURSIVE HasLetter(_)
HasLetter(g) ==
  \E i \in 1..Len(g) :
     \/ g[i].k = "lit" /\ IsLetter(g[i].c)
     \/ g[i].k = "class" /\ \E j \in 1..Len(g[i].rs) : \E c \in (g[i].rs[j][1])..(g[i].rs[j][2]) : IsLetter(c)
     \/ g[i].k = "alt" /\ \E j \in 1..Len(g[i].bs) : HasLetter(g[i].bs[j])
RECURSIVE Kinds(_)
Kinds(g) == UNION {IF g[i].k = "alt" THEN {"alt"} \cup UNION {Kinds(g[i].bs[j]) : j \in 1..Len(g[i].bs)}
                   ELSE IF g[i].k = "class" /\ g[i].neg THEN {"negclass"} ELSE {g[i].k} : i \in 1..Len(g)}
\* drop option combinations that cannot make a difference for this string: backslash_escape off
\* without a backslash, empty_alternates without an empty branch, case_insensitive without a letter
Relevant(o, lp) == /\ (o.be \/ BSLASH \in Range(chars))
                   /\ (~o.ea \/ (lp.err = "" /\ HasEmptyBranch(lp.toks)))
                   /\ (~o.ci \/ (lp.err = "" /\ HasLetter(lp.toks)))

\* ---------------------------------------------------------------- random longer paths
RandSet == Range(RandAlpha)
RECURSIVE RandPathSet(_, _, _, _, _)
RandPathSet(FL, S, n, acc, o) ==
  IF n = 0 THEN {acc}
  ELSE LET live == {c \in RandSet : Step(FL, S, c, o) # {}}
       IN UNION {RandPathSet(FL, Step(FL, S, c, o), n - 1, Append(acc, c), o)
                   : c \in {IF live # {} /\ RandomElement(1..4) # 1 THEN RandomElement(live)
                                                                   ELSE RandomElement(RandSet)}}
RandPaths(g, o) ==
  LET FL == Flats(g, o)
  IN UNION {UNION {RandPathSet(FL, Start(g, FL), n, <<>>, o) : n \in {RandomElement(RandMin..RandMax)}}
              : k \in 1..RandCount}
RandCases(g, o) == {[p |-> p, m |-> Matches(g, p, o)] : p \in RandPaths(g, o)}

\* ---------------------------------------------------------------- emission
EmitFor(o) ==
  LET pr == Parse(chars, o)
      lp == IF pr.err = "unopened_alternates" THEN ParseWith(chars, o, TRUE) ELSE pr
  IN IF ~Relevant(o, lp) THEN TRUE
     ELSE IF lp.err # ""
     THEN PrintT(<<"EMIT", ToJson([chars |-> chars, o |-> o, err |-> pr.err, lerr |-> lp.err])>>)
     ELSE LET g == lp.toks
              st == Strategy(g, o)
          IN PrintT(<<"EMIT", ToJson([chars |-> chars, o |-> o, err |-> pr.err, lerr |-> "",
                                      strat |-> st.kind, kinds |-> Kinds(g),
                                      dig |-> Digest(g, o, PathAlpha, PathLen),
                                      mdig |-> IF MetaLen = 0 THEN <<>> ELSE DigestSum(g, o, MetaAlpha, MetaLen),
                                      srep |-> IF st.kind = "regex" \/ StratLen = 0 THEN <<>>
                                               ELSE StratReport(g, o, PathAlpha, StratLen),
                                      rnd |-> RandCases(g, o)])>>)
Wanted == nw >= MinWords /\ (Must = {} \/ Must \cap Range(chars) # {})
Emit == ~Wanted \/ \A o \in OptSet : EmitFor(o)
\* the universes, once, for the driver
EmitHdr == nw # 0 \/ PrintT(<<"HDR", ToJson([alpha |-> PathAlpha, len |-> PathLen, stratlen |-> StratLen,
                                            malpha |-> MetaAlpha, mlen |-> MetaLen, maxwords |-> MaxWords])>>)

\* ---------------------------------------------------------------- self-check of the specification
(* The automaton digest and the tree walks (Digest, DigestSum, MatchNums, DMatches) are only fast
   ways to evaluate Matches on a whole universe; here TLC checks, glob by glob, against the
   reference matcher that they describe the same language with the numbering the driver uses, and
   the design-level theorem of GlobStrategy.                                                    *)
SeqsUpTo(S, n) == UNION {[1..k -> S] : k \in 0..n}
SelfPaths == SeqsUpTo(Range(PathAlpha), SelfLen)
SelfFor(o) ==
  LET lp == ParseWith(chars, o, TRUE) IN
  lp.err # "" \/ ~Relevant(o, lp) \/
  LET g == lp.toks
      ms == {p \in SelfPaths : Matches(g, p, o)}
      nums == {PathNum(PathAlpha, p, 0) : p \in ms}
      dg == Digest(g, o, PathAlpha, SelfLen)
      ds == DigestSum(g, o, PathAlpha, SelfLen)
      RECURSIVE SumLv(_)
      SumLv(k) == IF k = 0 THEN Zero3 ELSE Add3(dg[k], SumLv(k - 1))
  IN /\ \A p \in SelfPaths : DMatches(g, p, o) = (p \in ms)
     /\ MatchNums(g, o, PathAlpha, SelfLen) = nums
     /\ dg = DigestOfSet(PathAlpha, ms, SelfLen)
     /\ ds = SumLv(SelfLen + 1)
     /\ StratExact(g, o, SelfPaths)
     /\ (Strategy(g, o).kind # "regex" => StratReport(g, o, PathAlpha, SelfLen)[1] = 0)
SelfOK == ~Wanted \/ \A o \in OptSet : SelfFor(o)

\* ---------------------------------------------------------------- bounded alphabets
\*   a 97  b 98  . 46  / 47  - 45  A 65  * 42  ? 63  [ 91  ] 93  ! 33  { 123  } 125  , 44  \ 92
CharWords == {<<c>> : c \in {97, 98, 46, 47, 45, 42, 63, 91, 93, 33, 123, 125, 44, 92}}
\*  a b . / - ? * **/ /** /**/ [ab] [!a] [a-a] {a,b.} \*
TokWords == {<<97>>, <<98>>, <<46>>, <<47>>, <<45>>, <<63>>, <<42>>, <<42, 42, 47>>, <<47, 42, 42>>,
             <<47, 42, 42, 47>>, <<91, 97, 98, 93>>, <<91, 33, 97, 93>>, <<91, 97, 45, 97, 93>>, <<123, 97, 44, 98, 46, 125>>,
             <<92, 42>>}
\*  a . / * **/ /** /**/ [a-b] {,.a} {a/,*}
TokWords2 == {<<97>>, <<46>>, <<47>>, <<42>>, <<42, 42, 47>>, <<47, 42, 42>>, <<47, 42, 42, 47>>,
              <<91, 97, 45, 98, 93>>, <<123, 44, 46, 97, 125>>, <<123, 97, 47, 44, 42, 125>>}
\* alternates written out:  { } , a . / * **/ /** **
AltWords == {<<123>>, <<125>>, <<44>>, <<97>>, <<46>>, <<47>>, <<42>>, <<42, 42, 47>>, <<47, 42, 42>>, <<42, 42>>}
\* the shapes the strategies are chosen from:  a . / * **/ /**
StratWords == {<<97>>, <<46>>, <<47>>, <<42>>, <<42, 42, 47>>, <<47, 42, 42>>}
StratWordsB == StratWords \cup {<<98>>}
\* the same shapes over letters of both cases, for case-insensitive globs (no literal shortcut may be taken for them)
StratWordsCI == {<<97>>, <<65>>, <<46>>, <<47>>, <<42, 42, 47>>, <<42>>}
OptsCI == {[ci |-> TRUE, ls |-> l, be |-> TRUE, ea |-> FALSE] : l \in BOOLEAN}
CIAlphaDef == <<97, 65, 46, 47>>                                 \* a A . /

OptsBasic == {[ci |-> c, ls |-> l, be |-> TRUE, ea |-> FALSE] : c \in BOOLEAN, l \in BOOLEAN}
OptsCS == {[ci |-> FALSE, ls |-> l, be |-> TRUE, ea |-> FALSE] : l \in BOOLEAN}
OptsLS == {[ci |-> FALSE, ls |-> TRUE, be |-> TRUE, ea |-> FALSE]}
OptsNoBE == {[ci |-> c, ls |-> l, be |-> TRUE, ea |-> e] : c \in BOOLEAN, l \in BOOLEAN, e \in BOOLEAN}
OptsAll == [ci : BOOLEAN, ls : BOOLEAN, be : BOOLEAN, ea : BOOLEAN]

PathAlphaDef == <<97, 98, 46, 47, 45, 65>>                       \* a b . / - A
StratAlphaDef == <<97, 98, 46, 47>>                              \* a b . /
MetaAlphaDef == <<97, 98, 46, 47, 45, 65, 42, 63, 91, 93, 33, 123, 125, 44, 92>>
RandAlphaDef == <<97, 98, 46, 47, 45, 65, 66, 42, 93, 44, 92, 255>>
=============================================================================

SPECIFICATION Spec
CONSTANTS
  Words <- AltWords
  MinWords = 0
  MaxWords = 5
  Must = {123}
  OptSet <- OptsAll
  PathAlpha <- PathAlphaDef
  PathLen = 5
  StratLen = 0
  MetaAlpha <- MetaAlphaDef
  MetaLen = 0
  RandAlpha <- RandAlphaDef
  RandMin = 6
  RandMax = 11
  RandCount = 1
  SelfLen = 0
INVARIANTS Emit EmitHdr

SPECIFICATION Spec
CONSTANTS
  Words <- TokWords
  MinWords = 0
  MaxWords = 3
  Must = {}
  OptSet <- OptsCS
  PathAlpha <- PathAlphaDef
  PathLen = 5
  StratLen = 0
  MetaAlpha <- MetaAlphaDef
  MetaLen = 0
  RandAlpha <- RandAlphaDef
  RandMin = 6
  RandMax = 11
  RandCount = 2
  SelfLen = 0
INVARIANTS Emit EmitHdr

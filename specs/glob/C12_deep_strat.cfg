SPECIFICATION Spec
CONSTANTS
  Words <- StratWordsB
  MinWords = 0
  MaxWords = 4
  Must = {}
  OptSet <- OptsCS
  PathAlpha <- StratAlphaDef
  PathLen = 5
  StratLen = 5
  MetaAlpha <- MetaAlphaDef
  MetaLen = 0
  RandAlpha <- RandAlphaDef
  RandMin = 6
  RandMax = 11
  RandCount = 0
  SelfLen = 0
INVARIANTS Emit EmitHdr

SPECIFICATION Spec
INVARIANT Emit

SPECIFICATION Spec
CONSTANTS
  Words <- CharWords
  MinWords = 5
  MaxWords = 5
  Must = {}
  OptSet <- OptsLS
  PathAlpha <- PathAlphaDef
  PathLen = 4
  StratLen = 0
  MetaAlpha <- MetaAlphaDef
  MetaLen = 0
  RandAlpha <- RandAlphaDef
  RandMin = 6
  RandMax = 11
  RandCount = 0
  SelfLen = 0
INVARIANTS Emit EmitHdr

------------------------------ MODULE GlobEval ------------------------------
(* The specification as an oracle for *given* cases: used to confirm a suspected disagreement on
   one concrete (glob, options, path) before it is reported, to diagnose a digest mismatch (the
   full set of matching paths of a universe), and by nothing else.  Cases are read from the ndjson
   file named by the environment variable C12_CASES; case i:
       [chars, o, paths, full, alpha, len]
   Emitted per case: the documented parse result, the result under the named deviation, the
   strategy label, Matches for every listed path (by the reference matcher), and, if full = 1,
   the numbers of all matching paths over alpha up to length len.                             *)
EXTENDS GlobStrategy, TLC, Json, IOUtils

Cases == ndJsonDeserialize(IOEnv.C12_CASES)

VARIABLE i
Init == i = 0
Next == i < Len(Cases) /\ i' = i + 1
Spec == Init /\ [][Next]_i

Emit ==
  i = 0 \/
  LET c == Cases[i]
      o == [ci |-> c.o.ci, ls |-> c.o.ls, be |-> c.o.be, ea |-> c.o.ea]
      pr == Parse(c.chars, o)
      lp == IF pr.err = "unopened_alternates" THEN ParseWith(c.chars, o, TRUE) ELSE pr
  IN IF lp.err # ""
     THEN PrintT(<<"EMIT", ToJson([i |-> i, err |-> pr.err, lerr |-> lp.err])>>)
     ELSE LET g == lp.toks
          IN PrintT(<<"EMIT", ToJson([i |-> i, err |-> pr.err, lerr |-> "",
                                      strat |-> Strategy(g, o).kind,
                                      m |-> [k \in 1..Len(c.paths) |-> Matches(g, c.paths[k], o)],
                                      nums |-> IF c.full = 1 THEN MatchNums(g, o, c.alpha, c.len) ELSE {}])>>)
=============================================================================

SPECIFICATION Spec
CONSTANTS
  Words <- TokWords2
  MinWords = 0
  MaxWords = 3
  Must = {}
  OptSet <- OptsAll
  PathAlpha <- PathAlphaDef
  PathLen = 5
  StratLen = 0
  MetaAlpha <- MetaAlphaDef
  MetaLen = 2
  RandAlpha <- RandAlphaDef
  RandMin = 6
  RandMax = 11
  RandCount = 2
  SelfLen = 0
INVARIANTS Emit EmitHdr

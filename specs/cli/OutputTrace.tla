----------------------------- MODULE OutputTrace -----------------------------
(* Trace-level specification for property C08: decides whether the observed stdout of a
   multi-threaded `rg` run is a permutation of the per-file output blocks of the single-threaded run
   of the same search, with file separators exactly between blocks and the same exit status.

   The trace (ndjson, IOEnv.TRACE) concatenates many runs.  Output bytes are rendered by the driver as
   sequences of small integers, one per line of output (equal lines <-> equal integers, so equality of
   integer sequences is byte equality).  Records:

     group    blocks : for every file of the tree the output of the single-threaded search restricted
                       to that file (a candidate block; <<>> when the file yields no output)
     ref      out, status : the single-threaded run over the whole tree.  Parsing it fixes, for the
                       group, the set of files reported, and the file separator (none or one line):
                       the separator convention is *derived* from the -j1 output, not assumed.
     run      out, status, threads : a multi-threaded run, judged against the group's reference
     sortref  out, status : `-j1 --sort path` (the first one is the reference, a repetition must equal it)
     sortrun  out, status, threads : `-jN --sort path`, must equal the reference byte for byte, every time

   State = (record l, position pos in its output, files already printed, in order).  Block(f, s) is
   enabled iff file f has not been printed yet and separator s followed by f's whole block is a prefix
   of the remaining output; Finish closes the run with a verdict when no block is enabled.  The
   verdict of every record is emitted (EMIT) by the invariant-shaped operator Emit; the driver only
   reads verdicts.  *)
EXTENDS Naturals, Sequences, FiniteSets, TLC, Json, IOUtils

Rec == ndJsonDeserialize(IOEnv.TRACE)
NRec == Len(Rec)

VARIABLES l, pos, order,            \* parse state: record, position, files recognised so far (in order)
          g,                        \* record index of the current group
          sep, sepKnown,            \* the group's file separator (<<>> or one line), derived from ref
          present, refStatus,       \* files reported by / exit status of the reference run
          sref, srun,               \* record indices of the first sortref / sortrun of the group
          last,                     \* verdict of the record just closed (emission only)
          done, idx                 \* redundant with order / the group's blocks, kept for speed on groups of
                                    \* thousands of files: the set of files in order; first line -> files whose block starts with it

vars == <<l, pos, order, g, sep, sepKnown, present, refStatus, sref, srun, last, done, idx>>

NoVerdict == [l |-> 0, verdict |-> "", pos |-> 0, order |-> <<>>]
printed == done
E == Rec[l]
Out == E.out
Blocks == Rec[g].blocks
Blk(f) == Blocks[f]
NB == Len(Blocks)

\* sequence b occurs in the current output starting at position p
At(b, p) == /\ p + Len(b) <= Len(Out) + 1
            /\ \A i \in 1..Len(b) : Out[p + i - 1] = b[i]

Direct(p) == IF p <= Len(Out) /\ Out[p] \in DOMAIN idx
             THEN {f \in idx[Out[p]] : f \notin printed /\ At(Blk(f), p)}
             ELSE {}
IndexOf(bs) == LET ne == {f \in 1..Len(bs) : bs[f] # <<>>}
               IN  [t \in {bs[f][1] : f \in ne} |-> {f \in ne : bs[f][1] = t}]

\* candidate steps <<file, separator consumed before it>>
Cands ==
  IF printed = {} \/ (sepKnown /\ sep = <<>>) THEN {<<f, <<>>>> : f \in Direct(pos)}
  ELSE IF sepKnown THEN (IF At(sep, pos) THEN {<<f, sep>> : f \in Direct(pos + Len(sep))} ELSE {})
  ELSE \* reference run, first gap: no separator if a block follows directly, else a one-line separator
       IF Direct(pos) # {} THEN {<<f, <<>>>> : f \in Direct(pos)}
       ELSE IF pos <= Len(Out) THEN {<<f, <<Out[pos]>>>> : f \in Direct(pos + 1)}
       ELSE {}

AtEnd == pos = Len(Out) + 1

Init == /\ l = 1 /\ pos = 1 /\ order = <<>> /\ g = 0 /\ sep = <<>> /\ sepKnown = FALSE
        /\ present = {} /\ refStatus = 0 /\ sref = 0 /\ srun = 0 /\ last = NoVerdict
        /\ done = {} /\ idx = <<>>

Group ==
  /\ E.k = "group"
  /\ g' = l /\ l' = l + 1 /\ pos' = 1 /\ order' = <<>>
  /\ sep' = <<>> /\ sepKnown' = FALSE /\ present' = {} /\ refStatus' = 0 /\ sref' = 0 /\ srun' = 0
  /\ last' = NoVerdict
  /\ done' = {} /\ idx' = IndexOf(E.blocks)

Block(c) ==
  /\ E.k \in {"ref", "run"}
  /\ c \in Cands
  /\ pos' = pos + Len(c[2]) + Len(Blk(c[1]))
  /\ order' = Append(order, c[1]) /\ done' = done \cup {c[1]}
  /\ IF E.k = "ref" /\ ~sepKnown /\ printed # {}
     THEN sepKnown' = TRUE /\ sep' = c[2]
     ELSE UNCHANGED <<sep, sepKnown>>
  /\ last' = NoVerdict
  /\ UNCHANGED <<l, g, present, refStatus, sref, srun, idx>>

\* why a multi-threaded run's output is not accepted (the remaining output starts at pos)
Diagnose ==
  IF AtEnd
  THEN IF present \ printed # {} THEN "missing_file"
       ELSE IF printed \ present # {} THEN "extra_file"
       ELSE IF E.status # refStatus THEN "status"
       ELSE "ok"
  ELSE IF \E f \in printed : At(Blk(f), pos) \/ (sep # <<>> /\ At(sep, pos) /\ At(Blk(f), pos + Len(sep)))
       THEN "duplicate_file"
  ELSE IF sep # <<>> /\ \/ (printed # {} /\ Direct(pos) # {})                      \* separator missing
                        \/ (At(sep, pos) /\ \/ printed = {}                        \* leading
                                            \/ pos + Len(sep) = Len(Out) + 1       \* trailing
                                            \/ At(sep, pos + Len(sep))             \* doubled
                                            \/ Direct(pos + Len(sep)) # {})
       THEN "separator"
  ELSE "interleaved"

Close(v) == /\ last' = [l |-> l, verdict |-> v, pos |-> pos, order |-> order]
            /\ l' = l + 1 /\ pos' = 1 /\ order' = <<>> /\ done' = {} /\ UNCHANGED idx

FinishRef ==
  /\ E.k = "ref" /\ Cands = {}
  /\ Close(IF AtEnd THEN "ok" ELSE "ref_unparsable")
  /\ present' = printed /\ refStatus' = E.status /\ sepKnown' = TRUE
  /\ UNCHANGED <<g, sep, sref, srun>>

FinishRun ==
  /\ E.k = "run" /\ Cands = {}
  /\ Close(Diagnose)
  /\ UNCHANGED <<g, sep, sepKnown, present, refStatus, sref, srun>>

SortRef ==
  /\ E.k = "sortref"
  /\ IF sref = 0
     THEN sref' = l /\ Close("ok")
     ELSE sref' = sref /\ Close(IF Out = Rec[sref].out /\ E.status = Rec[sref].status
                                THEN "ok" ELSE "sort_not_deterministic")
  /\ UNCHANGED <<g, sep, sepKnown, present, refStatus, srun>>

SortRun ==
  /\ E.k = "sortrun"
  /\ srun' = IF srun = 0 THEN l ELSE srun
  /\ Close(IF sref = 0 THEN "no_sortref"
           ELSE IF srun # 0 /\ Out # Rec[srun].out THEN "sort_not_deterministic"
           ELSE IF Out # Rec[sref].out THEN "sort_differs"
           ELSE IF E.status # Rec[sref].status THEN "status"
           ELSE "ok")
  /\ UNCHANGED <<g, sep, sepKnown, present, refStatus, sref>>

Next == /\ l <= NRec
        /\ \/ Group \/ (E.k \in {"ref", "run"} /\ \E c \in Cands : Block(c)) \/ FinishRef \/ FinishRun \/ SortRef \/ SortRun

Spec == Init /\ [][Next]_vars

---------------------------------------------------------------------------
\* The parse is deterministic on well-formed groups (blocks start with distinct lines).  If it is not,
\* a verdict could depend on the branch: the driver treats a violation of this invariant as a tool error.
Unambiguous == (l <= NRec /\ E.k \in {"ref", "run"}) => Cardinality(Cands) <= 1

WellFormed == l <= NRec => /\ E.k \in {"group", "ref", "run", "sortref", "sortrun"}
                           /\ (E.k # "group" => g # 0)

\* the two redundant variables say what they are meant to say (checked while the parse is short)
Redundant == /\ Len(order) <= 48 => done = {order[i] : i \in DOMAIN order}
             /\ (g # 0 /\ NB <= 48) => idx = IndexOf(Blocks)

Emit == last.l # 0 => PrintT(<<"EMIT", ToJson(last)>>)

\* every record was consumed
Accepted == TLCGet("stats").diameter >= NRec
=============================================================================

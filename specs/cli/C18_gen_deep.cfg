INIT GenInit
NEXT GenNext
CONSTANTS
  Seeds <- MCSeeds
  ScenariosOf <- MCScenariosOf
  Families = {"faults", "noise", "xform", "glob", "cross", "missing", "zip"}
  MaxLen = 3
  Bodies <- BodiesMXX
  FaultContents = "more"
  BigInFaults = TRUE
  Cap = 1
  MaxOut = 0
  ErrVols = {0}
  Async = TRUE
  CloseRule = "v14"
  KF_StderrOnEarlyStop = TRUE
INVARIANTS GenSane GenEmit

SPECIFICATION Spec
CONSTANTS
  NW = 2
  NF = 3
  MaxLen = 2
  Seps = {FALSE}
  FilesMode = FALSE
  MayFail = TRUE
  UseLock = TRUE
  ClearBuf = FALSE
  SepByWriter = TRUE
  UseChannel = TRUE
INVARIANTS TypeOK Atomic Complete FlagsOK

----------------------------- MODULE ExitStatus -----------------------------
(***************************************************************************)
(* C15 - exit status and error reporting contract of the `rg` process.     *)
(*                                                                         *)
(* A scenario is one run of ripgrep:                                       *)
(*   files    a sequence of up to MaxFiles outcome kinds, one per path     *)
(*   mode     standard | quiet (-q) | l (-l) | c (-c) | files (--files)    *)
(*            | json (--json) | fwm (--files-without-match)                *)
(*   threads  1 | 4                                                        *)
(*   naming   explicit (every path is an argument) | traversal (rg finds   *)
(*            the paths by walking the current directory)                  *)
(*   args     ok | badregex | badglob | badenc | badflag                   *)
(*   nomsg    --no-messages given                                          *)
(*   cut      -1: the consumer reads all of stdout; c >= 0: the consumer   *)
(*            closes the pipe after the fraction c/Cuts of the output      *)
(*                                                                         *)
(* Outcome kinds (classes of the property in brackets):                    *)
(*   match    [has-match]    regular file, some line matches               *)
(*   prematch [has-match]    the same, read through a --pre command that   *)
(*                           works (it hands the file through)             *)
(*   nomatch  [no-match]     regular file, no line matches                 *)
(*   binary   [binary]       NUL byte first, a matching line after it      *)
(*   perm     [cannot-open]  regular file, mode 000                        *)
(*   preperm  [cannot-open]  the same, selected for a --pre command that    *)
(*                           does not mind (it exits 0 whatever happens):   *)
(*                           ripgrep itself must notice the unreadable file *)
(*   dangling [cannot-open]  path that vanished: dangling symlink (named   *)
(*                           explicitly; a walk skips symlinks silently)   *)
(*   linkL    [cannot-open]  dangling symlink met by a walk that follows   *)
(*                           links (-L): the entry cannot be listed        *)
(*   dir000   [cannot-open]  directory of mode 000 met by the walk         *)
(*   dir444   [cannot-open]  a file in a directory of mode 444: it is listed (names can be read) but can be neither       *)
(*                           stat'ed nor opened                                                                      *)
(*   eio      [read-error]   opens, every read fails (named explicitly)    *)
(*   prefail  [read-error]   the --pre command of this file fails          *)
(*                                                                         *)
(* What is documented (man page, EXIT STATUS):                             *)
(*   "If ripgrep finds a match, then the exit status of the program is 0.  *)
(*    If no match could be found, then the exit status is 1. If an error   *)
(*    occurred, then the exit status is always 2 unless ripgrep was run    *)
(*    with the -q/--quiet flag and a match was found."                     *)
(*   "2 ... both catastrophic errors (e.g., a regex syntax error) and for  *)
(*    soft errors (e.g., unable to read a file)."                          *)
(* --binary: a file found by traversal is no longer searched once a NUL    *)
(* byte is seen; a file named explicitly is searched until a match is      *)
(* found ("binary file matches").  --files lists paths and opens nothing,  *)
(* so only faults met while *listing* are errors there.                    *)
(* --files-without-match: the result of a file is its path iff the file    *)
(* was searched and holds no match.                                        *)
(*                                                                         *)
(* The module defines Status, Diagnostics, Results as functions of the     *)
(* scenario, proves (TLC, every generated scenario) that they are          *)
(* consistent, and emits one prediction per scenario.                      *)
(***************************************************************************)
EXTENDS Integers, Sequences, FiniteSets, TLC, Json

CONSTANTS Seeds,            \* initial (partial) scenarios
          ScenariosOf(_),   \* seed -> set of complete scenarios
          Cuts,             \* closed-pipe scenarios: cut \in 0..Cuts-1
          QuietWins         \* TRUE: the documented rule.  FALSE only in the self-test cfg: clause 0
                            \* without "-q found a match", which TLC must reject (Partition)

VARIABLES scn, pc
vars == <<scn, pc>>

\* ---------------------------------------------------------------- vocabulary
Kinds    == {"match", "prematch", "preperm", "nomatch", "binary", "perm", "dangling", "linkL", "dir000", "dir444", "eio", "prefail"}
Modes    == {"standard", "quiet", "l", "c", "files", "json", "fwm"}
Namings  == {"explicit", "traversal"}
ArgKinds == {"ok", "badregex", "badglob", "badenc", "badflag"}

Class(k) == CASE k \in {"match", "prematch"} -> "has-match"
              [] k = "nomatch" -> "no-match"
              [] k = "binary"  -> "binary"
              [] k \in {"perm", "preperm", "dangling", "linkL", "dir000", "dir444"} -> "cannot-open"
              [] k \in {"eio", "prefail"}             -> "read-error"

Healthy(k) == k \in {"match", "prematch", "nomatch", "binary"}

\* the step of processing a path at which a faulty kind fails
FailStage(k) == CASE k \in {"dangling", "linkL", "dir000"} -> "list"
                  [] k \in {"perm", "preperm", "dir444"} -> "open"
                  [] k \in {"eio", "prefail"}     -> "read"

\* the steps a mode performs on every path
Reaches(mode) == IF mode = "files" THEN {"list"} ELSE {"list", "open", "read"}

\* kinds that can be realised under a naming
KindsOf(naming) == IF naming = "explicit" THEN Kinds \ {"dir000", "dir444", "linkL"}
                                          ELSE Kinds \ {"dangling", "eio"}

IsScenario(s) ==
  /\ DOMAIN s = {"fam", "files", "mode", "threads", "naming", "args", "nomsg", "cut"}
  /\ s.mode \in Modes /\ s.threads \in {1, 4} /\ s.naming \in Namings
  /\ s.args \in ArgKinds /\ s.nomsg \in BOOLEAN /\ s.cut \in -1..(Cuts - 1)
  /\ Len(s.files) >= 1
  /\ \A i \in 1..Len(s.files) : s.files[i] \in KindsOf(s.naming)
  /\ ~(s.mode = "files" /\ s.args = "badregex")     \* --files takes no pattern

\* ---------------------------------------------------------------- per file
ArgsBad(s) == s.args # "ok"
Quiet(s)   == s.mode = "quiet"

\* the file's fault is met, i.e. "an error occurred" because of it
Errs(k, s) == ~Healthy(k) /\ FailStage(k) \in Reaches(s.mode)

\* the file yields a result ("a match (or listed file) was found")
Hits(k, s) ==
  /\ ~Errs(k, s)
  /\ CASE s.mode = "files" -> TRUE
       [] s.mode = "fwm"   -> k = "nomatch"
       [] OTHER            -> k \in {"match", "prematch"} \/ (k = "binary" /\ s.naming = "explicit")

Idx(s) == 1..Len(s.files)

\* ---------------------------------------------------------------- per run
\* invalid arguments: nothing is searched at all
Matched(s) == ~ArgsBad(s) /\ \E i \in Idx(s) : Hits(s.files[i], s)
Errored(s) == ArgsBad(s) \/ \E i \in Idx(s) : Errs(s.files[i], s)
Closed(s)  == s.cut >= 0

\* The three clauses of the statement, one operator each.
Clause(st, s) ==
  CASE st = 0 -> (Matched(s) /\ ~Errored(s)) \/ (QuietWins /\ Quiet(s) /\ Matched(s))
    [] st = 1 -> ~Matched(s) /\ ~Errored(s)
    [] st = 2 -> Errored(s) /\ ~(Quiet(s) /\ Matched(s))

Status(s) == CHOOSE st \in {0, 1, 2} : Clause(st, s)

\* files that must be named on stderr.  -q may stop at the first match, --no-messages
\* suppresses the messages (not the status): nothing is demanded then.
Diagnostics(s) ==
  IF ArgsBad(s) \/ s.nomsg \/ (Quiet(s) /\ Matched(s)) THEN {}
  ELSE {i \in Idx(s) : Errs(s.files[i], s)}

\* files whose result block must be on stdout: an error elsewhere suppresses nothing
Results(s) ==
  IF ArgsBad(s) \/ Quiet(s) \/ Closed(s) THEN {}
  ELSE {i \in Idx(s) : Hits(s.files[i], s)}

NoResults(s)  == ArgsBad(s)                \* stdout must be empty
NeedMessage(s) == ArgsBad(s)               \* stderr must say something
NoMessage(s)  == Closed(s)                 \* stderr must be empty

\* closing the pipe is only specified for runs that have something to write and no fault
ClosedOK(s) == Closed(s) => (Matched(s) /\ ~Errored(s) /\ ~Quiet(s))

WellFormed(s) == IsScenario(s) /\ ClosedOK(s)

\* ---------------------------------------------------------------- theorems
With(s, fs) == [s EXCEPT !.files = fs]
Summary(s)  == <<Matched(s), Errored(s), Quiet(s)>>

ExactlyOneClause(s) == Cardinality({st \in {0, 1, 2} : Clause(st, s)}) = 1

Perms(n) == {p \in [1..n -> 1..n] : \A i, j \in 1..n : i # j => p[i] # p[j]}
Variants(s) ==
  {[With(s, [i \in Idx(s) |-> s.files[p[i]]]) EXCEPT !.threads = t, !.nomsg = nm]
     : p \in Perms(Len(s.files)), t \in {1, 4}, nm \in BOOLEAN}

\* the status is a function of (matched, errored, quiet) only; order of the files, number
\* of threads and --no-messages do not matter
SummaryDetermines(s) ==
  /\ \A v \in Variants(s) : Summary(v) = Summary(s) /\ Status(v) = Status(s)
  /\ Status(s) = (IF Summary(s)[1] /\ (Summary(s)[3] \/ ~Summary(s)[2]) THEN 0
                  ELSE IF Summary(s)[2] THEN 2 ELSE 1)

\* one more path: a path that neither hits nor fails changes nothing, a failing path forces 2
\* (unless -q found a match), a hit turns 1 into 0 and leaves 2 alone (unless -q)
Monotone(s) ==
  ArgsBad(s) \/ Closed(s) \/
  \A k \in KindsOf(s.naming) :
    LET t == With(s, Append(s.files, k)) IN
    CASE Errs(k, s) -> Status(t) = (IF Quiet(s) /\ Matched(s) THEN 0 ELSE 2)
      [] Hits(k, s) -> Status(t) = (IF Errored(s) /\ ~Quiet(s) THEN 2 ELSE 0)
      [] OTHER      -> Status(t) = Status(s)

\* whether a file's results / diagnostic are demanded depends on that file alone
Local(s) ==
  ArgsBad(s) \/ Closed(s) \/
  \A i \in Idx(s) :
    LET one == With(s, <<s.files[i]>>) IN
    /\ (i \in Results(s)) = (1 \in Results(one))
    /\ (Quiet(s) /\ Matched(s)) \/ ((i \in Diagnostics(s)) = (1 \in Diagnostics(one)))
    /\ ~(i \in Results(s) /\ Errs(s.files[i], s))

Contract(s) ==
  /\ Status(s) \in {0, 1, 2}
  /\ ArgsBad(s) => Status(s) = 2 /\ Results(s) = {} /\ NoResults(s)
  /\ Closed(s)  => Status(s) = 0 /\ Diagnostics(s) = {} /\ NoMessage(s)
  /\ Status(s) = 0 => Matched(s)
  /\ Status(s) = 1 => Results(s) = {} /\ Diagnostics(s) = {}
  /\ (~Quiet(s) /\ Errored(s)) => Status(s) = 2

\* ---------------------------------------------------------------- behaviour
Init == scn \in Seeds /\ pc = "pick"
Pick == pc = "pick" /\ scn' \in ScenariosOf(scn) /\ pc' = "done"
Next == Pick
Spec == Init /\ [][Next]_vars
Done == pc = "done"

Sane      == Done => WellFormed(scn)
Partition == Done => ExactlyOneClause(scn)
Function  == Done => SummaryDetermines(scn)
Monotonic == Done => Monotone(scn)
Locality  == Done => Local(scn)
Contracts == Done => Contract(scn)

SetSeq(S, n) == SelectSeq([i \in 1..n |-> i], LAMBDA i : i \in S)
ClassSeq(s)  == [i \in Idx(s) |-> Class(s.files[i])]

Emitted == Done => PrintT(<<"EMIT", ToJson(
  [scn        |-> scn,
   classes    |-> ClassSeq(scn),
   status     |-> Status(scn),
   matched    |-> Matched(scn),
   errored    |-> Errored(scn),
   diag       |-> SetSeq(Diagnostics(scn), Len(scn.files)),
   results    |-> SetSeq(Results(scn), Len(scn.files)),
   no_results |-> NoResults(scn),
   need_msg   |-> NeedMessage(scn),
   no_msg     |-> NoMessage(scn),
   cuts       |-> Cuts])>>)
=============================================================================

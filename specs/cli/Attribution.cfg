SPECIFICATION Spec
INVARIANT Verdict

SPECIFICATION Spec
CONSTANTS
  Seeds <- MCSeeds
  ScenariosOf <- MCScenariosOf
  QuietWins = TRUE
  Cuts = 8
  Fams = {"faults", "args", "pipe", "pre"}
  MaxFiles = 4
  FaultKinds <- AllKinds
  NoMsgs <- Both
  ThreadSet = {1, 4}
  MaxPipeFiles = 3
INVARIANTS Sane Partition Function Monotonic Locality Contracts Emitted

SPECIFICATION ProtoSpec
CONSTANTS
  Seeds <- NoSeeds
  ScenariosOf <- NoScenarios
  Families = {}
  MaxLen = 0
  Bodies <- BodiesMX
  FaultContents = "small"
  BigInFaults = FALSE
  Cap = 3
  MaxOut = 4
  ErrVols <- ErrVolsDeep
  Async = TRUE
  CloseRule = "v14"
  KF_StderrOnEarlyStop = TRUE
INVARIANTS NoStuck EofMeansConsumed Conforms
PROPERTY Termination

----------------------------- MODULE MCParPrint -----------------------------
(* Model-checking wrapper for ParPrint: emission of terminal outputs as synthetic traces for
   OutputTrace (the trace specification must accept every output of the real design and reject
   outputs of the mutants: "who checks the checker", DESIGN.md section 7).  *)
EXTENDS ParPrint, Json

TokInt(t) == IF t = SEP THEN 1000 ELSE t.f * 10 + t.i
Ints(s) == [i \in 1..Len(s) |-> TokInt(s[i])]

RECURSIVE Asc(_)
Asc(S) == IF S = {} THEN <<>>
          ELSE LET m == CHOOSE x \in S : \A y \in S : x <= y IN <<m>> \o Asc(S \ {m})

\* one record per terminal state: candidate blocks, the sequential ("-j1") output, the observed output
EmitFinal ==
  Terminated =>
    PrintT(<<"EMIT", ToJson([blocks |-> [f \in Files |-> Ints(Block(f))],
                             ref |-> Ints(Joined(Asc(NonEmpty))),
                             out |-> Ints(out),
                             good |-> (out \in {Joined(o) : o \in Orders(NonEmpty)}),
                             status |-> IF matched THEN 0 ELSE 1,
                             refstatus |-> IF NonEmpty # {} THEN 0 ELSE 1])>>)
=============================================================================

---------------------------- MODULE Attribution ----------------------------
(* C09 at the level of the rg binary, several files per run: every printed line is the line of the FILE it is shown
   for.  A run searches a few files one after the other (some of which fail part-way: a preprocessor that writes a
   prefix of the file, or all of it, and then exits unsuccessfully); the printer is the same object for all files of
   a worker, so what it remembers of one search must not colour the next.

   Observed runs are read from IOEnv.RUNS (ndjson), one record per rg invocation:
     files : sequence of [lines |-> sequence of line ids (the file's content), want |-> sequence of line numbers that
             must be shown as matching lines, ok |-> BOOLEAN (the file is searched to its end without a fault)]
     form  : "heading" (--heading: the path on a line of its own opens the file's section)
           | "prefix"  (-H --no-heading: every line carries `path:`)
           | "json"    (--json: begin / match / context / end messages carry the path)
     out   : sequence of tokens
             [k |-> "heading", f]            path line (heading) or begin message of file f
             [k |-> "end", f]                end message (json)
             [k |-> "line", f, n, t, m]      line number n, text id t, m = shown as a matching line;
                                             f = file named by the token itself (prefix, json) or 0 (heading form)
             [k |-> "sep"]                   empty line (heading form) / context separator `--`
             [k |-> "other"]                 anything else
   TLC evaluates Allowed on every record and prints a verdict for those that are not allowed.                      *)
EXTENDS Naturals, Sequences, FiniteSets, TLC, Json, IOUtils

Runs == ndJsonDeserialize(IOEnv.RUNS)
VARIABLE idx
Init == idx \in 1..Len(Runs)
Next == UNCHANGED idx
Spec == Init /\ [][Next]_idx

NF(r) == Len(r.files)
Toks(r, k) == {j \in 1..Len(r.out) : r.out[j].k = k}

\* the file a line token is shown for: named by the token, or the nearest heading before it (0: none)
Opener(r, j) == LET hs == {i \in 1..(j - 1) : r.out[i].k = "heading"} IN
                IF hs = {} THEN 0 ELSE r.out[CHOOSE i \in hs : \A x \in hs : x <= i].f
Owner(r, j) == IF r.form = "heading" THEN Opener(r, j) ELSE r.out[j].f

\* the printed line is line n of the file it is shown for
LineOK(r, j) == LET f == Owner(r, j)  tok == r.out[j] IN
                /\ f \in 1..NF(r)
                /\ tok.n \in 1..Len(r.files[f].lines)
                /\ r.files[f].lines[tok.n] = tok.t
                /\ (r.form = "json" => Opener(r, j) = f)           \* inside the begin ... end bracket of its own file

\* lines shown as matches of file f, in output order
Shown(r, f) == SelectSeq([j \in 1..Len(r.out) |-> IF r.out[j].k = "line" /\ r.out[j].m /\ Owner(r, j) = f THEN r.out[j].n ELSE 0],
                         LAMBDA n : n # 0)
IsPrefixOf(a, b) == Len(a) <= Len(b) /\ \A i \in 1..Len(a) : a[i] = b[i]

Allowed(r) ==
  /\ Toks(r, "other") = {}
  /\ \A j \in Toks(r, "line") : LineOK(r, j)
  \* a file opens at most once; a file searched without a fault shows exactly its matching lines, a failing one a prefix
  /\ \A f \in 1..NF(r) :
       /\ Cardinality({j \in Toks(r, "heading") : r.out[j].f = f}) <= 1
       /\ IF r.files[f].ok THEN Shown(r, f) = r.files[f].want ELSE IsPrefixOf(Shown(r, f), r.files[f].want)
       /\ (r.form # "prefix" /\ Shown(r, f) # <<>>) => \E j \in Toks(r, "heading") : r.out[j].f = f
       /\ (r.form = "json" /\ r.files[f].ok) =>
             Cardinality({j \in Toks(r, "end") : r.out[j].f = f}) = Cardinality({j \in Toks(r, "heading") : r.out[j].f = f})
  \* json: an end message closes the file that is open
  /\ \A j \in Toks(r, "end") : Opener(r, j) = r.out[j].f

Verdict == Allowed(Runs[idx]) \/ PrintT(<<"VERDICT", ToJson([id |-> Runs[idx].id, ok |-> FALSE])>>)
=============================================================================

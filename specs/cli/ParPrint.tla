------------------------------ MODULE ParPrint ------------------------------
(* Design-level specification of ripgrep's multi-threaded output path (property C08).

   crates/core/main.rs `search_parallel`: every walker worker owns a clone of the search worker and
   with it a private printer buffer.  Per file handed to the worker by the parallel walker:

       searched := true                         (Take)
       buffer.clear()                           (Clear)
       search the file, printing into buffer    (Search / SearchFail: on Err nothing is printed)
       matched := true if there was a match
       bufwtr.print(&buffer)                    termcolor::BufferWriter::print:
           if buffer is empty: return           (BwPrint)
           lock stdout                          (Lock)
           if separator configured and printed: write separator "\n"   (Sep)
           write_all(buffer)                    (Write, modelled one token at a time: write_all is
                                                 not atomic at the OS level, only the lock makes it so)
           printed := true                      (Mark)
           unlock                               (Unlock)

   `files_parallel` (--files): workers send the path on a channel (Send); one printer thread receives
   (PTake) and writes each path line (PWrite); nobody else writes to stdout.

   The walker is abstracted to "any idle worker may take any file not yet handed out" (envelope: the
   property must not depend on the traversal order).  A block is a sequence of tokens; len[f] = 0 means
   the file produced no output (no match).

   UseLock / ClearBuf / SepByWriter / UseChannel = TRUE is the real design; setting one of them to
   FALSE gives a mutant for which TLC must find a counterexample (non-vacuity of the properties).  *)
EXTENDS Naturals, Sequences, FiniteSets, TLC

CONSTANTS NW,           \* number of workers (>= 1)
          NF,           \* number of files
          MaxLen,       \* a file's block has 0..MaxLen tokens
          Seps,         \* subset of BOOLEAN: modes explored (TRUE: a file separator is configured)
          FilesMode,    \* TRUE: --files (channel + single printer thread), FALSE: search
          MayFail,      \* TRUE: a search may fail (Err) after partially filling the buffer
          UseLock, ClearBuf, SepByWriter, UseChannel   \* mutant switches, all TRUE in the real design

Workers == 1..NW
Files == 1..NF
Printer == 0                      \* id of the --files printer thread

Tok(f, i) == [f |-> f, i |-> i]
SEP == Tok(0, 0)

VARIABLES
  len,        \* Files -> 0..MaxLen: size of each file's block (chosen initially, the "input")
  hasSep,     \* the mode has a separator
  todo,       \* files not yet handed to a worker
  pc, cur, buf, wpos,   \* per worker: control state, current file, private buffer, tokens written
  lock,       \* 0 = free, else the holder
  printed,    \* the buffer writer's "something was printed" flag
  out,        \* stdout: sequence of tokens
  matched, searched,    \* the atomics that decide the exit status / the nothing-searched warning
  failed,     \* history: files whose search returned Err
  chan, ppc, pcur, ppos, \* --files: channel, printer thread state
  good        \* constant after Init: the set Good of complete well-formed outputs for (len, hasSep)
              \* (kept in a variable only so that TLC does not recompute it in every state)

vars == <<len, hasSep, todo, pc, cur, buf, wpos, lock, printed, out, matched, searched, failed,
          chan, ppc, pcur, ppos, good>>

RECURSIVE BlockUpTo(_, _)
BlockUpTo(f, n) == IF n = 0 THEN <<>> ELSE Append(BlockUpTo(f, n - 1), Tok(f, n))
Block(f) == BlockUpTo(f, IF FilesMode THEN 2 ELSE len[f])      \* --files: a path line = path, terminator

(* A block order is a sequence of distinct files. *)

NonEmpty == {f \in Files : Block(f) # <<>>}

\* all orders (sequences without repetition) of the files in S
RECURSIVE Orders(_)
Orders(S) == IF S = {} THEN {<<>>} ELSE UNION {{<<x>> \o o : o \in Orders(S \ {x})} : x \in S}

RECURSIVE Joined(_)
Joined(o) == IF o = <<>> THEN <<>>
             ELSE IF Len(o) = 1 THEN Block(o[1])
             ELSE Block(o[1]) \o (IF hasSep THEN <<SEP>> ELSE <<>>) \o Joined(Tail(o))

IsPrefixOf(p, s) == Len(p) <= Len(s) /\ \A i \in 1..Len(p) : p[i] = s[i]

\* every complete output: all non-empty blocks, each once, in some order, separator exactly between
Good == {Joined(o) : o \in Orders(NonEmpty)}

Init ==
  /\ len \in [Files -> 0..MaxLen]
  /\ hasSep \in Seps
  /\ todo = Files
  /\ pc = [w \in Workers |-> "idle"]
  /\ cur = [w \in Workers |-> 0]
  /\ buf = [w \in Workers |-> <<>>]
  /\ wpos = [w \in Workers |-> 0]
  /\ lock = 0 /\ printed = FALSE /\ out = <<>>
  /\ matched = FALSE /\ searched = FALSE /\ failed = {}
  /\ chan = <<>> /\ ppc = "recv" /\ pcur = 0 /\ ppos = 0
  /\ good = Good

PrinterIdle == UNCHANGED <<chan, ppc, pcur, ppos, good>>

---------------------------------------------------------------------------
(* search mode *)

Take(w, f) ==
  /\ pc[w] = "idle" /\ f \in todo
  /\ todo' = todo \ {f}
  /\ cur' = [cur EXCEPT ![w] = f]
  /\ IF FilesMode
     THEN pc' = [pc EXCEPT ![w] = "send"] /\ UNCHANGED searched
     ELSE pc' = [pc EXCEPT ![w] = "clear"] /\ searched' = TRUE
  /\ UNCHANGED <<len, hasSep, buf, wpos, lock, printed, out, matched, failed>> /\ PrinterIdle

Clear(w) ==
  /\ pc[w] = "clear"
  /\ buf' = [buf EXCEPT ![w] = IF ClearBuf THEN <<>> ELSE @]
  /\ pc' = [pc EXCEPT ![w] = "search"]
  /\ UNCHANGED <<len, hasSep, todo, cur, wpos, lock, printed, out, matched, searched, failed>> /\ PrinterIdle

\* In the mutant "separator written by the worker" the worker prepends the separator to its own
\* buffer, deciding from the shared flag at the time it starts printing.
Search(w) ==
  /\ pc[w] = "search"
  /\ LET b == Block(cur[w])
         pre == IF ~SepByWriter /\ hasSep /\ printed /\ b # <<>> THEN <<SEP>> ELSE <<>> IN
     buf' = [buf EXCEPT ![w] = @ \o pre \o b]
  /\ matched' = (matched \/ len[cur[w]] > 0)
  /\ pc' = [pc EXCEPT ![w] = "print"]
  /\ UNCHANGED <<len, hasSep, todo, cur, wpos, lock, printed, out, searched, failed>> /\ PrinterIdle

SearchFail(w) ==
  /\ MayFail /\ pc[w] = "search"
  /\ \E n \in 0..len[cur[w]] : buf' = [buf EXCEPT ![w] = @ \o BlockUpTo(cur[w], n)]
  /\ failed' = failed \cup {cur[w]}
  /\ pc' = [pc EXCEPT ![w] = "idle"]                     \* err_message, WalkState::Continue
  /\ UNCHANGED <<len, hasSep, todo, cur, wpos, lock, printed, out, matched, searched>> /\ PrinterIdle

BwPrint(w) ==
  /\ pc[w] = "print"
  /\ pc' = [pc EXCEPT ![w] = IF buf[w] = <<>> THEN "idle" ELSE "lock"]
  /\ UNCHANGED <<len, hasSep, todo, cur, buf, wpos, lock, printed, out, matched, searched, failed>> /\ PrinterIdle

Lock(w) ==
  /\ pc[w] = "lock"
  /\ UseLock => lock = 0
  /\ lock' = IF UseLock THEN w ELSE lock
  /\ pc' = [pc EXCEPT ![w] = "sep"]
  /\ UNCHANGED <<len, hasSep, todo, cur, buf, wpos, printed, out, matched, searched, failed>> /\ PrinterIdle

Sep(w) ==
  /\ pc[w] = "sep"
  /\ out' = IF SepByWriter /\ hasSep /\ printed THEN Append(out, SEP) ELSE out
  /\ wpos' = [wpos EXCEPT ![w] = 0]
  /\ pc' = [pc EXCEPT ![w] = "write"]
  /\ UNCHANGED <<len, hasSep, todo, cur, buf, lock, printed, matched, searched, failed>> /\ PrinterIdle

Write(w) ==
  /\ pc[w] = "write"
  /\ IF wpos[w] < Len(buf[w])
     THEN /\ out' = Append(out, buf[w][wpos[w] + 1])
          /\ wpos' = [wpos EXCEPT ![w] = @ + 1]
          /\ UNCHANGED pc
     ELSE /\ pc' = [pc EXCEPT ![w] = "mark"]
          /\ UNCHANGED <<out, wpos>>
  /\ UNCHANGED <<len, hasSep, todo, cur, buf, lock, printed, matched, searched, failed>> /\ PrinterIdle

Mark(w) ==
  /\ ~FilesMode /\ pc[w] = "mark"
  /\ printed' = TRUE
  /\ pc' = [pc EXCEPT ![w] = "unlock"]
  /\ UNCHANGED <<len, hasSep, todo, cur, buf, wpos, lock, out, matched, searched, failed>> /\ PrinterIdle

Unlock(w) ==
  /\ pc[w] = "unlock"
  /\ lock' = IF UseLock THEN 0 ELSE lock
  /\ pc' = [pc EXCEPT ![w] = "idle"]
  /\ UNCHANGED <<len, hasSep, todo, cur, buf, wpos, printed, out, matched, searched, failed>> /\ PrinterIdle

---------------------------------------------------------------------------
(* --files mode *)

\* real design: the path travels over the channel; mutant (UseChannel = FALSE): the worker writes
\* the path line itself, token by token, without any lock
Send(w) ==
  /\ pc[w] = "send"
  /\ matched' = TRUE
  /\ IF UseChannel
     THEN /\ chan' = Append(chan, cur[w]) /\ pc' = [pc EXCEPT ![w] = "idle"] /\ UNCHANGED <<buf, wpos>>
     ELSE /\ buf' = [buf EXCEPT ![w] = Block(cur[w])] /\ wpos' = [wpos EXCEPT ![w] = 0]
          /\ pc' = [pc EXCEPT ![w] = "write"] /\ UNCHANGED chan
  /\ UNCHANGED <<len, hasSep, todo, cur, lock, printed, out, searched, failed, ppc, pcur, ppos, good>>

PTake ==
  /\ ppc = "recv" /\ chan # <<>>
  /\ pcur' = Head(chan) /\ chan' = Tail(chan) /\ ppos' = 0 /\ ppc' = "write"
  /\ UNCHANGED <<len, hasSep, todo, pc, cur, buf, wpos, lock, printed, out, matched, searched, failed, good>>

PWrite ==
  /\ ppc = "write"
  /\ IF ppos < Len(Block(pcur))
     THEN out' = Append(out, Block(pcur)[ppos + 1]) /\ ppos' = ppos + 1 /\ UNCHANGED ppc
     ELSE ppc' = "recv" /\ UNCHANGED <<out, ppos>>
  /\ UNCHANGED <<len, hasSep, todo, pc, cur, buf, wpos, lock, printed, matched, searched, failed, chan, pcur, good>>

\* a mutant worker that wrote its own line goes back to idle through "mark"
MarkFiles(w) ==
  /\ FilesMode /\ pc[w] = "mark"
  /\ pc' = [pc EXCEPT ![w] = "idle"]
  /\ UNCHANGED <<len, hasSep, todo, cur, buf, wpos, lock, printed, out, matched, searched, failed>> /\ PrinterIdle

---------------------------------------------------------------------------

Terminated == /\ todo = {} /\ \A w \in Workers : pc[w] = "idle"
              /\ chan = <<>> /\ ppc = "recv"

\* the last disjunct lets TLC's deadlock check mean "stuck before everything was printed"
Next == \/ \E w \in Workers : \/ \E f \in Files : Take(w, f)
                              \/ Clear(w) \/ Search(w) \/ SearchFail(w) \/ BwPrint(w) \/ Lock(w) \/ Sep(w)
                              \/ Write(w) \/ Mark(w) \/ Unlock(w)
                              \/ Send(w) \/ MarkFiles(w)
        \/ PTake \/ PWrite
        \/ Terminated /\ UNCHANGED vars

Spec == Init /\ [][Next]_vars

---------------------------------------------------------------------------
(* Properties. *)

\* safety, at every moment: what has reached stdout so far is a prefix of such an output, i.e. whole
\* blocks of distinct files with separators exactly between them followed by at most one partial block
\* (no interleaving, no duplicate, no stray or missing separator)
Atomic == \E g \in good : IsPrefixOf(out, g)

\* at the end: exactly the files whose search succeeded, each once
Complete == Terminated => out \in {Joined(o) : o \in Orders(NonEmpty \ failed)}

\* the flags behind the exit status
FlagsOK == Terminated => /\ matched = (IF FilesMode THEN Files # {} ELSE \E f \in Files \ failed : len[f] > 0)
                         /\ (~FilesMode => searched = (Files # {}))

TypeOK == /\ lock \in 0..NW
          /\ \A w \in Workers : pc[w] = "write" => wpos[w] <= Len(buf[w])
          /\ (UseLock => \A w \in Workers : pc[w] \in {"sep", "write", "mark", "unlock"} /\ ~FilesMode => lock = w)

\* "nothing gets stuck before everything is printed" is TLC's deadlock check (see Next)
=============================================================================

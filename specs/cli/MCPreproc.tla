----------------------------- MODULE MCPreproc -----------------------------
(* Bounded scenario families for the Preproc outcome model (C18) and constants for the protocol runs. *)
EXTENDS Preproc

CONSTANTS Families,      \* which scenario families to generate
          MaxLen,        \* contents of the "xform" family: all sequences of <= MaxLen lines over Bodies
          Bodies,
          FaultContents, \* "small" | "more"
          BigInFaults    \* TRUE: the 3 MiB stderr volume takes part in the full fault product

SeqsUpTo(S, n) == UNION {[1..k -> S] : k \in 0..n}

S(kind, content, xform, errvol, errpos, exit, timing, tail, early, preglob, threads, codec, zstate) ==
  [kind |-> kind, content |-> content, xform |-> xform, errvol |-> errvol, errpos |-> errpos, exit |-> exit,
   timing |-> timing, tail |-> tail, early |-> early, preglob |-> preglob, threads |-> threads,
   codec |-> codec, zstate |-> zstate]

Earlies == {"none", "m1", "q", "l", "bin"}
FlagEarlies == {"none", "m1", "q", "l"}
Exits == {"0", "1", "255", "kill"}
Threads == {1, 4}
PreGlobs == {"none", "sel", "unsel", "negsel", "negunsel", "selz", "unselz", "negunselz", "pairneg", "pairpos", "pathsel", "pathunsel"}
Xforms == {"echo", "swap", "fixed", "nothing"}
Codecs == {"gzip", "bzip2", "xz"}
\* (timing, tail): the long tail only makes sense for a command that gets to the end of its output
Timings == {<<"before", "short">>, <<"mid", "short">>, <<"after", "short">>, <<"after", "long">>}
ErrsSmall == {<<"0", "first">>, <<"small", "first">>, <<"small", "last">>}
ErrsBig == {<<"big", "first">>, <<"big", "last">>}

SmallContents == {<<"m", "x", "m">>, <<"x", "m">>}
MoreContents == SmallContents \cup {<<"m">>, <<"x", "x">>, <<"m", "m", "x">>, <<"x", "xm", "m">>}
FContents == IF FaultContents = "small" THEN SmallContents ELSE MoreContents
XContents == SeqsUpTo(Bodies, MaxLen) \cup {<<"xm">>, <<"x", "mx">>}

\* ---- families; a seed is <<family, early, threads>> so that TLC's workers share the generation
MCSeeds == {<<f, e, t>> : f \in Families, e \in Earlies, t \in Threads}

\* every fault of the command: stderr volume/position x exit code x exit timing x tail
Faults(e, t) ==
  {S("pre", c, "echo", ev[1], ev[2], x, tt[1], tt[2], e, "none", t, "", "")
     : c \in FContents, ev \in (IF BigInFaults THEN ErrsSmall \cup ErrsBig ELSE ErrsSmall), x \in Exits, tt \in Timings}
\* 3 MiB of stderr on a reduced product (the "never blocks" clause)
Noise(e, t) ==
  {S("pre", c, "echo", ev[1], ev[2], x, tt[1], tt[2], e, "none", t, "", "")
     : c \in {<<"m", "x", "m">>}, ev \in ErrsBig, x \in {"0", "1"}, tt \in {<<"before", "short">>, <<"after", "short">>, <<"after", "long">>}}
\* what is searched: every content x transformation x --pre-glob, well-behaved command
XformsFam(e, t) ==
  {S("pre", c, x, "0", "first", "0", "after", "short", e, g, t, "", "")
     : c \in XContents, x \in Xforms, g \in PreGlobs}
\* --pre-glob against a failing / noisy command
GlobFam(e, t) ==
  {S("pre", c, x, "small", "first", xc, "after", "short", e, g, t, "", "")
     : c \in SmallContents, x \in {"swap", "nothing"}, xc \in {"0", "1"}, g \in PreGlobs}
\* thorough tier: transformation x fault x --pre-glob on all short contents
CrossFam(e, t) ==
  {S("pre", c, x, ev[1], ev[2], xc, tt[1], tt[2], e, g, t, "", "")
     : c \in SeqsUpTo(Bodies, 2), x \in Xforms, ev \in ErrsSmall, xc \in Exits, tt \in Timings, g \in {"none", "sel"}}
MissingFam(e, t) ==
  IF e = "bin" THEN {} ELSE
  {S("missing", c, "echo", "0", "first", "0", "after", "short", e, g, t, "", "") : c \in SmallContents, g \in PreGlobs}
ZipFam(e, t) ==
  IF e = "bin" THEN {} ELSE
  {S("z", c, "echo", "0", "first", "0", "after", tl, e, "none", t, cd, "valid")
     : c \in SmallContents, tl \in {"short", "long"}, cd \in Codecs}
  \cup {S("z", c, "echo", "0", "first", "0", "after", "short", e, "none", t, cd, zs)
     : c \in SmallContents, cd \in Codecs, zs \in (IF e = "none" THEN {"unrec", "unrecuc", "nocmd", "noisy"} ELSE {"unrec", "unrecuc", "noisy"})}
  \cup (IF e # "none" THEN {} ELSE
        {S("z", c, "echo", "small", "last", "1", "after", tl, e, "none", t, cd, "trunc")
           : c \in SmallContents, tl \in {"short", "long"}, cd \in Codecs}
        \* the shortest truncation: a compressed-named file of zero bytes (not a valid empty archive: the tools fail on it)
        \cup {S("z", <<"m">>, "echo", "small", "last", "1", "after", "short", e, "none", t, cd, "empty") : cd \in Codecs})

MCScenariosOf(seed) ==
  LET f == seed[1] e == seed[2] t == seed[3] IN
  CASE f = "faults" -> Faults(e, t)
    [] f = "noise" -> Noise(e, t)
    [] f = "xform" -> XformsFam(e, t)
    [] f = "glob" -> GlobFam(e, t)
    [] f = "cross" -> CrossFam(e, t)
    [] f = "missing" -> MissingFam(e, t)
    [] f = "zip" -> ZipFam(e, t)

NoSeeds == {}
NoScenarios(seed) == {}
BodiesMX == {"m", "x"}
BodiesMXX == {"m", "x", "xm"}
ErrVolsQuick == {0, 1, 3}
ErrVolsDeep == {0, 1, 2, 4, 5}
=============================================================================

INIT GenInit
NEXT GenNext
CONSTANTS
  Seeds <- MCSeeds
  ScenariosOf <- MCScenariosOf
  Families = {"faults", "noise", "xform", "glob", "missing", "zip"}
  MaxLen = 2
  Bodies <- BodiesMX
  FaultContents = "small"
  BigInFaults = FALSE
  Cap = 1
  MaxOut = 0
  ErrVols = {0}
  Async = TRUE
  CloseRule = "v14"
  KF_StderrOnEarlyStop = TRUE
INVARIANTS GenSane GenEmit

SPECIFICATION Spec
CONSTANTS
  NW = 3
  NF = 3
  MaxLen = 0
  Seps = {FALSE}
  FilesMode = TRUE
  MayFail = FALSE
  UseLock = TRUE
  ClearBuf = TRUE
  SepByWriter = TRUE
  UseChannel = TRUE
INVARIANTS TypeOK Atomic Complete FlagsOK

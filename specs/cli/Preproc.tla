------------------------------ MODULE Preproc ------------------------------
(* C18: preprocessor (--pre) and decompression (-z) output is what gets searched; failures surface.

   Part (b)  THE OUTCOME FUNCTION the property states.  A scenario describes the file, the child
             command's behaviour, how ripgrep is invoked; `Outcome` gives what the statement demands:
             error or not (or "either" where the statement is silent), the allowed exit statuses,
             and the result lines.  A generator (GenInit/GenNext) enumerates scenario families and
             emits scenario + outcome for replay on the rg binary.

   Part (a)  THE PIPE PROTOCOL of crates/cli/src/process.rs (CommandReader): a concurrent model of
             child, searching parent and stderr helper thread over two bounded pipes.  TLC checks
             that nobody ever gets stuck (for every order of the child's writes, every stderr
             volume up to "more than a pipe holds", every exit point, every early stop of the
             parent) and that the error decision taken in close() agrees with `Verdict`, the
             core of the outcome function of part (b).

   Both parts meet in `Verdict`: part (b) derives the facts (spawned, output consumed to EOF, exit
   status, killed by the closed pipe) from the scenario, part (a) from the protocol run.         *)
EXTENDS Naturals, Sequences, FiniteSets, TLC, Json

(***************************************************************************)
(* Part (b): the outcome function                                          *)
(***************************************************************************)

\* Is a failure of the command an error?   "yes" / "no" / "either" (statement silent).
\*   cannot be started                                          => error
\*   output consumed to EOF:   error  <=>  unsuccessful exit
\*   ripgrep stopped reading early and that terminated the command (write on the closed pipe)
\*                                                              => not an error
\*   ripgrep stopped reading early, the command ended on its own: success => no error,
\*                                                              failure => statement silent
Verdict(spawned, consumedEOF, exitOK, pipeKilled) ==
  IF ~spawned THEN "yes"
  ELSE IF consumedEOF THEN (IF exitOK THEN "no" ELSE "yes")
  ELSE IF pipeKilled THEN "no"
  ELSE IF exitOK THEN "no" ELSE "either"

\* ---- lines: a file / an output is a sequence of lines from a small vocabulary; every line is
\* terminated by LF.  "NUL" is the line consisting of one NUL byte.
NULLINE == "NUL"
HasM(l) == l \in {"m", "xm", "mx"}                    \* the pattern is `m`
SwapLine(l) == CASE l = "m" -> "x" [] l = "x" -> "m" [] l = "xm" -> "mx" [] l = "mx" -> "xm" [] OTHER -> l
FixedText == <<"x", "m">>

Transform(x, c) ==
  CASE x = "echo" -> c
    [] x = "swap" -> [i \in 1..Len(c) |-> SwapLine(c[i])]
    [] x = "fixed" -> FixedText
    [] x = "nothing" -> <<>>

\* binary detection scenarios: the command's output carries a NUL line after its first line
WithNul(ls) == IF Len(ls) = 0 THEN ls ELSE <<ls[1], NULLINE>> \o Tail(ls)

(* A scenario:
     kind     "pre" (script given to --pre) | "missing" (--pre names no executable) | "z" (-z)
     content  the file's lines
     xform    what the script writes to stdout: echo | swap | fixed | nothing
     errvol   stderr volume "0" | "small" | "big" (3 MiB);  errpos  "first" (before any stdout) | "last"
     exit     "0" | "1" | "255" | "kill" (the script kills itself with SIGKILL)
     timing   exit "before" any output | "mid" (after the first line) | "after" all output
     tail     "short" | "long": after its output the command goes on writing > 600 KB of
              non-matching filler (so it is certainly still writing when ripgrep stops early)
     early    none | m1 | q | l (flags) | bin (NUL line in the command's output => binary quit)
     preglob  none | sel (--pre-glob selects the file) | unsel (--pre-glob selects nothing)
              | negsel (only a negated glob, which the file does not match: selected) | negunsel (... matches: not selected)
     threads  1 | 4
     codec    gzip | bzip2 | xz ;  zstate valid | trunc | unrec (compressed bytes, name not
              recognised) | nocmd (decompressor cannot be started)                          *)

\* negsel / negunsel: every --pre-glob is negated ("!*.zzz" / "!*.txt"): a file that none of them matches IS selected
\* selz / unselz / negunselz: the same three with -z given BEFORE --pre and the file named like a gzip archive (plain text
\* inside): --pre switches -z off, so a file that --pre-glob does not select is searched directly, as it is
\* pairneg: --pre-glob '*.txt' then --pre-glob '!a.txt' (the later glob decides: not selected); pairpos: the same two in the
\* other order (selected).  unrecuc: like unrec, the name carrying the codec's extension in UPPER case (not recognised either)
\* pathsel / pathunsel: a glob that holds a path separator, `d/*.txt` (selects d/a.txt) / `e/*.txt` (does not)
Selected(s) == IF s.kind = "z" THEN s.zstate \notin {"unrec", "unrecuc"} ELSE s.preglob \in {"none", "sel", "negsel", "selz", "pairpos", "pathsel"}
Spawned(s) == ~(s.kind = "missing" \/ (s.kind = "z" /\ s.zstate = "nocmd"))
\* the model knows the bytes the command writes, except for a truncated archive
\* (noisy: a valid archive whose decompressor first writes several hundred KB to its stderr and then succeeds: no effect)
KnownChild(s) == s.kind = "pre" \/ (s.kind = "z" /\ s.zstate \in {"valid", "noisy"})

Full(s) == LET t == Transform(s.xform, s.content) IN IF s.early = "bin" THEN WithNul(t) ELSE t
Written(s) ==
  CASE s.timing = "before" -> <<>>
    [] s.timing = "mid" -> SubSeq(Full(s), 1, IF Len(Full(s)) = 0 THEN 0 ELSE 1)
    [] s.timing = "after" -> Full(s)
Filler(s) == s.timing = "after" /\ s.tail = "long"        \* non-matching lines follow Written(s)

\* ---- the search of a sequence of lines (as an implicit file: binary detection quits at NUL)
NulIdx(ls) == {i \in 1..Len(ls) : ls[i] = NULLINE}
HasNul(ls) == NulIdx(ls) # {}
VisibleLen(ls) == IF HasNul(ls) THEN (CHOOSE i \in NulIdx(ls) : \A j \in NulIdx(ls) : i <= j) - 1 ELSE Len(ls)
MatchIdx(ls) == {i \in 1..VisibleLen(ls) : HasM(ls[i])}
FirstMatch(ls) == CHOOSE i \in MatchIdx(ls) : \A j \in MatchIdx(ls) : i <= j

RECURSIVE LinesFrom(_, _, _)
LinesFrom(ls, i, onlyFirst) ==
  IF i > VisibleLen(ls) THEN <<>>
  ELSE IF HasM(ls[i]) THEN <<[n |-> i, t |-> ls[i]]>> \o (IF onlyFirst THEN <<>> ELSE LinesFrom(ls, i + 1, onlyFirst))
  ELSE LinesFrom(ls, i + 1, onlyFirst)

\* what ripgrep prints for one file searched as `ls` under the early-stop mode (no NUL in sight)
Search(ls, early) ==
  LET matched == MatchIdx(ls) # {} IN
  [matched |-> matched,
   lines   |-> IF early \in {"q", "l"} THEN <<>> ELSE LinesFrom(ls, 1, early = "m1"),
   listed  |-> early = "l" /\ matched]

\* ripgrep stops reading before EOF
Stops(ls, early) == (early \in {"m1", "q", "l"} /\ MatchIdx(ls) # {}) \/ HasNul(ls)

\* a second file that --pre-glob does not select accompanies the file under test
OtherPresent(s) == s.kind = "pre" /\ s.preglob = "sel" /\ s.early # "q"
OtherContent == <<"x", "m">>

\* One allowed complete observation for the file under test.
Alt(err, status, lines, listed, binwarn) ==
  [err |-> err, status |-> status, lines |-> lines, listed |-> listed, binwarn |-> binwarn]
Prefixes(ls) == {SubSeq(ls, 1, k) : k \in 0..Len(ls)}

(* The allowed observations when the bytes `w` are searched under `early`, `om` = another file matched.
   - no error: exactly the matching lines.  One envelope: when the bytes hold a NUL (binary quit),
     ripgrep itself reports the matching lines before the NUL only as far as they arrived in an
     earlier read than the NUL (grep-searcher: a buffer in which the NUL is found is dropped), so any
     prefix of them is "the result of searching these bytes"; the warning line and status follow.
   - error: status 2 and, deliberately unconstrained, any prefix of the lines (printed with -j1,
     dropped with -j4).  (-q reports a match found before the error as status 0.)               *)
OkAlts(w, early, om) ==
  LET r == Search(w, early) IN
  IF HasNul(w)
  THEN {Alt(FALSE, IF Len(p) > 0 \/ om THEN 0 ELSE 1, p, FALSE, Len(p) > 0) : p \in Prefixes(r.lines)}
  ELSE {Alt(FALSE, IF r.matched \/ om THEN 0 ELSE 1, r.lines, r.listed, FALSE)}
ErrAlts(w, early) ==
  LET r == Search(w, early) IN
  UNION { {Alt(TRUE, st, p, l, b) : l \in {FALSE, r.listed},
                                   b \in (IF HasNul(w) /\ Len(p) > 0 THEN BOOLEAN ELSE {FALSE}),
                                   st \in (IF early = "q" /\ r.matched THEN {0, 2} ELSE {2})}
          : p \in Prefixes(r.lines) }

NoFacts == [consumed |-> FALSE, stops |-> FALSE, pipekilled |-> FALSE, exitok |-> FALSE, nwritten |-> 0]

Outcome(s) ==
  LET other == IF OtherPresent(s) THEN Search(OtherContent, s.early) ELSE Search(<<>>, s.early)
      base == [err |-> "no", status |-> {0, 1}, mode |-> "alts", alts |-> {}, other |-> OtherPresent(s),
               olines |-> other.lines, olisted |-> other.listed,
               selected |-> Selected(s), spawned |-> Spawned(s), facts |-> NoFacts,
               \* a command that cannot be started: a second file selected in the same way stands next to the file under
               \* test, and the error is owed for each of the two (neither can have results)
               twin |-> Selected(s) /\ ~Spawned(s)]
  IN
  IF ~Selected(s) THEN
     \* searched directly: the child's behaviour is irrelevant
     IF s.kind = "z"
     THEN [base EXCEPT !.mode = "ref"]                             \* raw compressed bytes: as without -z
     ELSE LET alts == OkAlts(s.content, IF s.early = "bin" THEN "none" ELSE s.early, other.matched) IN
          [base EXCEPT !.alts = alts, !.status = {a.status : a \in alts}]
  ELSE IF ~Spawned(s) THEN [base EXCEPT !.err = "yes", !.status = {2}, !.mode = "any"]
  ELSE IF ~KnownChild(s) THEN
     \* truncated archive read to EOF: the decompressor fails after its output was consumed
     [base EXCEPT !.err = "yes", !.status = {2}, !.mode = "prefixref",
                  !.facts = [NoFacts EXCEPT !.consumed = TRUE]]
  ELSE
     LET w == Written(s)
         stops == Stops(w, s.early)
         pipeKilled == stops /\ Filler(s)
         exitOK == ~pipeKilled /\ s.exit = "0"
         v == Verdict(TRUE, ~stops, exitOK, pipeKilled)
         alts == (IF v \in {"no", "either"} THEN OkAlts(w, s.early, other.matched) ELSE {})
                 \cup (IF v \in {"yes", "either"} THEN ErrAlts(w, s.early) ELSE {})
     IN [base EXCEPT !.err = v, !.alts = alts, !.status = {a.status : a \in alts},
                     !.facts = [consumed |-> ~stops, stops |-> stops, pipekilled |-> pipeKilled,
                                exitok |-> exitOK, nwritten |-> Len(w)]]

\* sanity of the outcome function itself (checked by TLC on every generated scenario)
OutcomeSane(s) ==
  LET o == Outcome(s) IN
  /\ o.err \in {"yes", "no", "either"}
  /\ (o.err = "yes" => o.status \subseteq {0, 2} /\ 2 \in o.status)
  /\ (o.err = "yes" /\ s.early # "q" => o.status = {2})
  /\ (o.err = "no" => o.status \subseteq {0, 1})
  /\ (o.mode = "alts" => o.alts # {} /\ \A a \in o.alts : (a.err => o.err # "no") /\ (~a.err => o.err # "yes"))
  /\ (~Selected(s) => o.err = "no")                      \* a file searched directly never fails through the command
  /\ (o.facts.pipekilled => o.err = "no")                \* early stop is not an error ...
  /\ (Selected(s) /\ Spawned(s) /\ KnownChild(s) /\ s.errvol = "big" /\ s.exit = "0" => o.err = "no")  \* ... nor is noise

(***************************************************************************)
(* Part (a): the pipe protocol of CommandReader                            *)
(***************************************************************************)
CONSTANTS Seeds, ScenariosOf(_),     \* generator (part b): seeds and the scenarios of a seed
          Cap,                       \* capacity of each pipe (units)
          MaxOut,                    \* the child intends to write 0..MaxOut units to stdout
          ErrVols,                   \* ... and v \in ErrVols units to stderr (some v > Cap)
          Async,                     \* TRUE: StderrReader::async (helper thread); FALSE: sync (lazy)
          CloseRule,                 \* "v14": nonzero /\ (eof \/ stderr non-empty)
                                     \* "sigpipe": nonzero /\ (eof \/ (not killed by SIGPIPE /\ stderr non-empty))
          KF_StderrOnEarlyStop       \* named deviation: a command that wrote to stderr and is then
                                     \* terminated by ripgrep's early stop IS reported as an error

VARIABLES gen,                                   \* generator state (part b); [pc |-> "off"] in protocol runs
          cst, cstatus, outLeft, errLeft,        \* child: "none"|"run"|"exited"; ""|"ok"|"fail"|"pipe"
          cop,                                   \* the write the child is committed to: "idle"|"out"|"err"
          outPipe, errPipe, outOpen,             \* pipes; parent still holds the stdout read end
          ppc, eof, closeRes, final,             \* parent (searcher thread)
          hpc, collected,                        \* stderr helper thread; stderr bytes collected
          written, consumedN                     \* history: stdout units written / read

pvars == <<cst, cstatus, cop, outLeft, errLeft, outPipe, errPipe, outOpen, ppc, eof, closeRes, final, hpc,
           collected, written, consumedN>>
vars == <<gen, pvars>>

ProtoIdle ==
  /\ cst = "none" /\ cstatus = "" /\ cop = "idle" /\ outLeft = 0 /\ errLeft = 0 /\ outPipe = 0 /\ errPipe = 0
  /\ outOpen = FALSE /\ ppc = "off" /\ eof = FALSE /\ closeRes = "" /\ final = "" /\ hpc = "off"
  /\ collected = 0 /\ written = 0 /\ consumedN = 0

ProtoInit ==
  /\ gen = [pc |-> "off"]
  /\ cst = "none" /\ cstatus = "" /\ cop = "idle"
  /\ outLeft \in 0..MaxOut /\ errLeft \in ErrVols
  /\ outPipe = 0 /\ errPipe = 0 /\ outOpen = FALSE
  /\ ppc = "spawn" /\ eof = FALSE /\ closeRes = "" /\ final = ""
  /\ hpc = "off" /\ collected = 0 /\ written = 0 /\ consumedN = 0

\* ---- parent: CommandReaderBuilder::build
Spawn(ok) ==
  /\ ppc = "spawn"
  /\ IF ok THEN /\ cst' = "run" /\ outOpen' = TRUE /\ ppc' = "read"
                /\ hpc' = IF Async THEN "run" ELSE "off"
                /\ UNCHANGED final
           ELSE /\ ppc' = "done" /\ final' = "err"          \* "preprocessor command could not start"
                /\ UNCHANGED <<cst, outOpen, hpc>>
  /\ UNCHANGED <<gen, cstatus, cop, outLeft, errLeft, outPipe, errPipe, eof, closeRes, collected, written, consumedN>>

\* ---- child: any interleaving of stdout writes, stderr writes, and an exit at any point.
\* The child first commits to its next system call (cop), then performs it; a committed write
\* blocks while its pipe is full (a blocked process cannot change its mind and exit).
ChildChoose ==
  /\ cst = "run" /\ cop = "idle"
  /\ \/ outLeft > 0 /\ cop' = "out"
     \/ errLeft > 0 /\ cop' = "err"
  /\ UNCHANGED <<gen, cst, cstatus, outLeft, errLeft, outPipe, errPipe, outOpen, ppc, eof, closeRes, final, hpc,
                 collected, written, consumedN>>

ChildWriteOut ==
  /\ cst = "run" /\ cop = "out"
  /\ IF outOpen
     THEN /\ outPipe < Cap                                   \* blocks while the pipe is full
          /\ outPipe' = outPipe + 1 /\ outLeft' = outLeft - 1 /\ written' = written + 1
          /\ cop' = "idle"
          /\ UNCHANGED <<cst, cstatus>>
     ELSE /\ cst' = "exited" /\ cstatus' = "pipe"            \* SIGPIPE: reader gone
          /\ UNCHANGED <<outPipe, outLeft, written, cop>>
  /\ UNCHANGED <<gen, errLeft, errPipe, outOpen, ppc, eof, closeRes, final, hpc, collected, consumedN>>

ChildWriteErr ==
  /\ cst = "run" /\ cop = "err"
  /\ errPipe < Cap                                            \* blocks while the pipe is full
  /\ errPipe' = errPipe + 1 /\ errLeft' = errLeft - 1 /\ cop' = "idle"
  /\ UNCHANGED <<gen, cst, cstatus, outLeft, outPipe, outOpen, ppc, eof, closeRes, final, hpc, collected,
                 written, consumedN>>

ChildExit(c) ==                                \* at any point between two system calls
  /\ cst = "run" /\ cop = "idle"
  /\ cst' = "exited" /\ cstatus' = c
  /\ UNCHANGED <<gen, cop, outLeft, errLeft, outPipe, errPipe, outOpen, ppc, eof, closeRes, final, hpc, collected,
                 written, consumedN>>

\* ---- parent: the searcher reading CommandReader (io::Read); read() blocks while the pipe is
\* empty and the child lives; after a read that returned data the searcher may stop early
ParentRead ==
  /\ ppc = "read" /\ outPipe > 0
  /\ \E k \in 1..outPipe : outPipe' = outPipe - k /\ consumedN' = consumedN + k
  /\ ppc' = "got"
  /\ UNCHANGED <<gen, cst, cstatus, cop, outLeft, errLeft, errPipe, outOpen, eof, closeRes, final, hpc,
                 collected, written>>

ParentContinue ==
  /\ ppc = "got" /\ ppc' = "read"
  /\ UNCHANGED <<gen, cst, cstatus, cop, outLeft, errLeft, outPipe, errPipe, outOpen, eof, closeRes, final, hpc,
                 collected, written, consumedN>>

ParentEOF ==                                  \* read() returned 0: eof := true, then close()
  /\ ppc = "read" /\ outPipe = 0 /\ cst = "exited"
  /\ eof' = TRUE /\ ppc' = "close_drop"
  /\ UNCHANGED <<gen, cst, cstatus, cop, outLeft, errLeft, outPipe, errPipe, outOpen, closeRes, final, hpc,
                 collected, written, consumedN>>

ParentStopEarly ==                            \* -m / -q / -l / binary quit: the searcher returns, close()
  /\ ppc = "got"
  /\ ppc' = "close_drop"
  /\ UNCHANGED <<gen, cst, cstatus, cop, outLeft, errLeft, outPipe, errPipe, outOpen, eof, closeRes, final, hpc,
                 collected, written, consumedN>>

CloseDrop ==                                  \* drop(stdout)
  /\ ppc = "close_drop"
  /\ outOpen' = FALSE /\ outPipe' = 0 /\ ppc' = "close_wait"
  /\ UNCHANGED <<gen, cst, cstatus, cop, outLeft, errLeft, errPipe, eof, closeRes, final, hpc, collected,
                 written, consumedN>>

CloseWait ==                                  \* child.wait()
  /\ ppc = "close_wait" /\ cst = "exited"
  /\ IF cstatus = "ok" THEN closeRes' = "ok" /\ ppc' = "finish"
                       ELSE closeRes' = closeRes /\ ppc' = "close_stderr"
  /\ UNCHANGED <<gen, cst, cstatus, cop, outLeft, errLeft, outPipe, errPipe, outOpen, eof, final, hpc, collected,
                 written, consumedN>>

IsErr == IF CloseRule = "v14" THEN eof \/ collected > 0
         ELSE eof \/ (cstatus # "pipe" /\ collected > 0)

ParentReadErr ==                              \* sync reader: read_to_end on stderr after the wait
  /\ ppc = "close_stderr" /\ ~Async /\ errPipe > 0
  /\ collected' = collected + errPipe /\ errPipe' = 0
  /\ UNCHANGED <<gen, cst, cstatus, cop, outLeft, errLeft, outPipe, outOpen, ppc, eof, closeRes, final, hpc,
                 written, consumedN>>

CloseDecide ==                                \* stderr complete (helper joined / EOF): the rule
  /\ ppc = "close_stderr"
  /\ IF Async THEN hpc = "done" ELSE errPipe = 0
  /\ closeRes' = IF IsErr THEN "err" ELSE "ok"
  /\ ppc' = "finish"
  /\ UNCHANGED <<gen, cst, cstatus, cop, outLeft, errLeft, outPipe, errPipe, outOpen, eof, final, hpc, collected,
                 written, consumedN>>

Finish ==                                     \* search result kept only if close succeeded
  /\ ppc = "finish"
  /\ final' = closeRes /\ ppc' = "done"
  /\ UNCHANGED <<gen, cst, cstatus, cop, outLeft, errLeft, outPipe, errPipe, outOpen, eof, closeRes, hpc, collected,
                 written, consumedN>>

\* ---- helper thread (StderrReader::async): read_to_end on the child's stderr
HelperRead ==
  /\ hpc = "run" /\ errPipe > 0
  /\ \E k \in 1..errPipe : errPipe' = errPipe - k /\ collected' = collected + k
  /\ UNCHANGED <<gen, cst, cstatus, cop, outLeft, errLeft, outPipe, outOpen, ppc, eof, closeRes, final, hpc,
                 written, consumedN>>

HelperEOF ==
  /\ hpc = "run" /\ errPipe = 0 /\ cst = "exited"
  /\ hpc' = "done"
  /\ UNCHANGED <<gen, cst, cstatus, cop, outLeft, errLeft, outPipe, errPipe, outOpen, ppc, eof, closeRes, final,
                 collected, written, consumedN>>

Finished == ppc = "done" /\ cst \in {"none", "exited"} /\ hpc \in {"off", "done"}

ProtoStep ==
  \/ \E ok \in BOOLEAN : Spawn(ok)
  \/ ChildChoose \/ ChildWriteOut \/ ChildWriteErr \/ \E c \in {"ok", "fail"} : ChildExit(c)
  \/ ParentRead \/ ParentContinue \/ ParentEOF \/ ParentStopEarly \/ CloseDrop \/ CloseWait \/ ParentReadErr \/ CloseDecide \/ Finish
  \/ HelperRead \/ HelperEOF

ProtoNext == ProtoStep \/ (Finished /\ UNCHANGED vars)
ProtoSpec == ProtoInit /\ [][ProtoNext]_vars /\ WF_vars(ProtoStep)

\* ---- what TLC checks on the protocol
\* nobody is ever stuck: "large stderr output from the command never blocks the search"
NoStuck == Finished \/ ENABLED ProtoStep
Termination == <>(ppc = "done")

\* the eof flag means what the statement calls "its output was consumed"
EofMeansConsumed == eof => (cst = "exited" /\ consumedN = written)

\* the decision of close() is the one the statement demands
Exempt == KF_StderrOnEarlyStop /\ ~eof /\ cstatus = "pipe" /\ collected > 0
ProtoVerdict == Verdict(cst # "none", eof, cstatus = "ok", cstatus = "pipe")
Conforms ==
  ppc = "done" =>
     /\ (ProtoVerdict = "yes" => final = "err")
     /\ (ProtoVerdict = "no" => final = "ok" \/ Exempt)

\* one line per terminal state: the facts and the decision (outcome table of the protocol)
ProtoEmit ==
  Finished => PrintT(<<"PROTO", ToJson([spawned |-> cst # "none", eof |-> eof, status |-> cstatus,
                                        stderr |-> collected > 0, final |-> final, verdict |-> ProtoVerdict,
                                        exempt |-> Exempt])>>)

(***************************************************************************)
(* Part (b), continued: the scenario generator                             *)
(***************************************************************************)
GenInit == ProtoIdle /\ gen \in {[pc |-> "seed", seed |-> s] : s \in Seeds}
GenPick == /\ gen.pc = "seed"
           /\ \E s \in ScenariosOf(gen.seed) : gen' = [pc |-> "done", scn |-> s]
           /\ UNCHANGED pvars
GenNext == GenPick
GenSpec == GenInit /\ [][GenNext]_vars

GenSane == gen.pc = "done" => OutcomeSane(gen.scn)
GenEmit == gen.pc = "done" => PrintT(<<"EMIT", ToJson([scn |-> gen.scn, exp |-> Outcome(gen.scn)])>>)
=============================================================================

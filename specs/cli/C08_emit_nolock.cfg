SPECIFICATION Spec
CONSTANTS
  NW = 2
  NF = 2
  MaxLen = 2
  Seps = {TRUE, FALSE}
  FilesMode = FALSE
  MayFail = FALSE
  UseLock = FALSE
  ClearBuf = TRUE
  SepByWriter = TRUE
  UseChannel = TRUE
INVARIANTS EmitFinal

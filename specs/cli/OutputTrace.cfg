SPECIFICATION Spec
INVARIANTS WellFormed Unambiguous Redundant Emit

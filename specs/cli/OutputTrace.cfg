SPECIFICATION Spec
INVARIANTS WellFormed Unambiguous Emit

SPECIFICATION Spec
CONSTANTS
  NW = 4
  NF = 4
  MaxLen = 1
  Seps = {TRUE}
  FilesMode = FALSE
  MayFail = FALSE
  UseLock = TRUE
  ClearBuf = TRUE
  SepByWriter = TRUE
  UseChannel = TRUE
INVARIANTS TypeOK Atomic Complete FlagsOK

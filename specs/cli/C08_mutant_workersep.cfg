SPECIFICATION Spec
CONSTANTS
  NW = 2
  NF = 3
  MaxLen = 1
  Seps = {TRUE}
  FilesMode = FALSE
  MayFail = FALSE
  UseLock = TRUE
  ClearBuf = TRUE
  SepByWriter = FALSE
  UseChannel = TRUE
INVARIANTS TypeOK Atomic Complete FlagsOK

SPECIFICATION Spec
CONSTANTS
  NW = 3
  NF = 3
  MaxLen = 2
  Seps = {TRUE, FALSE}
  FilesMode = FALSE
  MayFail = TRUE
  UseLock = TRUE
  ClearBuf = TRUE
  SepByWriter = TRUE
  UseChannel = TRUE
INVARIANTS TypeOK Atomic Complete FlagsOK

---------------------------- MODULE BinaryPolicy ----------------------------
(* C14 at the level of the rg binary: which outputs are allowed for a file that holds NUL bytes.
   Observed runs are read from IOEnv.RUNS (ndjson), one record per rg invocation:
     lines : sequence of [m |-> BOOLEAN (the line matches), nul |-> BOOLEAN (the line holds a NUL)]
     naming: "implicit" (found by traversal) | "explicit" (named on the command line)
     mode  : "default" | "binary" (--binary) | "text" (--text)
     out   : sequence of tokens [k |-> "line", i |-> index of the input line printed byte-identically]
                              | [k |-> "notice"]   ('binary file matches ...')
                              | [k |-> "warning"]  ('WARNING: stopped searching binary file after match ...')
                              | [k |-> "other"]    (anything else on stdout)
     nulout: BOOLEAN, stdout contains a NUL byte
   TLC evaluates Allowed on every record and prints a verdict for those that are not allowed.      *)
EXTENDS Naturals, Sequences, FiniteSets, TLC, Json, IOUtils

Runs == ndJsonDeserialize(IOEnv.RUNS)
VARIABLE idx
Init == idx \in 1..Len(Runs)
Next == UNCHANGED idx
Spec == Init /\ [][Next]_idx

Matching(r) == {i \in 1..Len(r.lines) : r.lines[i].m}
NulLines(r) == {i \in 1..Len(r.lines) : r.lines[i].nul}
FirstNul(r) == IF NulLines(r) = {} THEN Len(r.lines) + 1 ELSE CHOOSE i \in NulLines(r) : \A j \in NulLines(r) : i <= j

LineToks(r) == SelectSeq(r.out, LAMBDA t : t.k = "line")
Increasing(s) == \A a, b \in 1..Len(s) : a < b => s[a].i < s[b].i
Count(r, k) == Cardinality({j \in 1..Len(r.out) : r.out[j].k = k})
\* context lines (-C): input lines that do not match, printed byte-identically, never holding a NUL, in order with the rest
CtxOK(r) == /\ \A j \in 1..Len(r.out) : r.out[j].k = "ctx" => (r.out[j].i \notin Matching(r) /\ r.out[j].i \notin NulLines(r))
            /\ LET pr == SelectSeq(r.out, LAMBDA t : t.k \in {"line", "ctx"}) IN Increasing(pr)
LastIs(r, k) == Len(r.out) > 0 /\ r.out[Len(r.out)].k = k

\* --text: exactly the output of a search without binary detection
TextOK(r) == /\ Len(r.out) = Cardinality(Matching(r))
             /\ \A j \in 1..Len(r.out) : r.out[j].k = "line" /\ r.out[j].i \in Matching(r)
             /\ Increasing(r.out)

\* a file met during traversal, default mode: dropped, or cut off (with a warning if lines were printed)
ImplicitOK(r) ==
  /\ ~r.nulout /\ CtxOK(r)
  /\ Count(r, "other") = 0 /\ Count(r, "notice") = 0
  /\ \A j \in 1..Len(LineToks(r)) : LineToks(r)[j].i \in Matching(r) \ NulLines(r)
  /\ Increasing(LineToks(r))
  /\ Count(r, "warning") <= 1
  /\ (Count(r, "warning") = 1 => (LastIs(r, "warning") /\ Len(LineToks(r)) >= 1 /\ NulLines(r) # {}))
  /\ (NulLines(r) = {} => Len(LineToks(r)) = Cardinality(Matching(r)))     \* no NUL: nothing may be dropped
  /\ (Count(r, "warning") = 1 => \A j \in 1..Len(r.out) : r.out[j].k # "ctx" \/ j < Len(r.out))
  \* cut off after something was printed => the warning is there
  /\ ((Len(LineToks(r)) >= 1 /\ \E i \in Matching(r) : \A j \in 1..Len(LineToks(r)) : LineToks(r)[j].i # i) => Count(r, "warning") = 1)

\* explicitly named, or --binary: at most a notice; silent only if no line matches
ConvertOK(r) ==
  /\ ~r.nulout /\ CtxOK(r)
  /\ Count(r, "other") = 0 /\ Count(r, "warning") = 0
  \* (a NUL outside the examined portion - beyond the sniffed window of a memory map, in a line that does not
  \*  match - goes unnoticed; what matters is that no printed line holds a NUL)
  /\ \A j \in 1..Len(LineToks(r)) : LineToks(r)[j].i \in Matching(r) \ NulLines(r)
  /\ Increasing(LineToks(r))
  /\ Count(r, "notice") <= 1
  /\ (Count(r, "notice") = 1 => (LastIs(r, "notice") /\ NulLines(r) # {}))
  /\ (Matching(r) # {} => (Len(LineToks(r)) >= 1 \/ Count(r, "notice") = 1))
  /\ (NulLines(r) = {} => (Count(r, "notice") = 0 /\ Len(LineToks(r)) = Cardinality(Matching(r))))

\* summary modes on an explicitly named / --binary file: a file with a matching line is not reported as empty
\* (count = -c, count0 = -c --include-zero, countm0 = --count-matches --include-zero, list = -l, fwm = --files-without-match)
CountModes == {"count", "count0", "countm0"}
SummaryOK(r) == /\ ~r.nulout
                /\ (r.summary \in CountModes => (Matching(r) # {} => (Len(r.out) = 1 /\ r.out[1].k = "count" /\ r.out[1].i >= 1)))
                /\ (r.summary = "list" => (Matching(r) # {} => (Len(r.out) = 1 /\ r.out[1].k = "listed")))
                /\ (r.summary = "fwm" => (Matching(r) # {} => r.out = <<>>))
                /\ (Matching(r) = {} => /\ Len(r.out) <= 1
                                        /\ \A j \in 1..Len(r.out) : \/ (r.out[j].k = "count" /\ r.out[j].i = 0)
                                                                     \/ (r.summary = "fwm" /\ r.out[j].k = "listed"))

\* summary modes on a file met during traversal, default mode.  r.noticed: the file holds a NUL in the portion every one of
\* the modes that read a file to its end examines (the whole file through a reader, the leading 64 KiB of a memory map):
\* the file is dropped, whatever the mode would have said about it.  -l stops at the first match, so nothing static is known
\* about what it examined.  Without any NUL the summary is exact.
One(k, i) == <<[k |-> k, i |-> i]>>
ImplicitSummaryOK(r) ==
  LET n == Cardinality(Matching(r)) IN
  /\ ~r.nulout /\ Count(r, "other") = 0 /\ Len(r.out) <= 1
  /\ (r.noticed /\ r.summary # "list") => r.out = <<>>
  /\ NulLines(r) = {} =>
       CASE r.summary = "count"   -> r.out = (IF n = 0 THEN <<>> ELSE One("count", n))
         [] r.summary = "count0"  -> r.out = One("count", n)
         [] r.summary = "countm0" -> Len(r.out) = 1 /\ r.out[1].k = "count" /\ r.out[1].i >= n /\ (n = 0 => r.out[1].i = 0)
         [] r.summary = "list"    -> r.out = (IF n = 0 THEN <<>> ELSE One("listed", 0))
         [] r.summary = "fwm"     -> r.out = (IF n = 0 THEN One("listed", 0) ELSE <<>>)

\* "repl": a replacement (-r) is printed, so lines are not the input's own; what remains of the policy is that no NUL byte of the
\* file reaches the output
Allowed(r) == IF r.summary = "repl" THEN ~r.nulout
              ELSE IF r.summary # "none" THEN (IF r.mode = "binary" \/ r.naming = "explicit" THEN SummaryOK(r) ELSE ImplicitSummaryOK(r))
              ELSE IF r.mode = "text" THEN TextOK(r)
              ELSE IF r.mode = "binary" \/ r.naming = "explicit" THEN ConvertOK(r)
              ELSE ImplicitOK(r)

Verdict == Allowed(Runs[idx]) \/ PrintT(<<"VERDICT", ToJson([id |-> Runs[idx].id, ok |-> FALSE])>>)
=============================================================================

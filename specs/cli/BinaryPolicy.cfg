SPECIFICATION Spec
INVARIANT Verdict

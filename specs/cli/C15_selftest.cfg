SPECIFICATION Spec
CONSTANTS
  Seeds <- MCSeeds
  ScenariosOf <- MCScenariosOf
  QuietWins = FALSE
  Cuts = 4
  Fams = {"faults"}
  MaxFiles = 2
  FaultKinds <- AllKinds
  NoMsgs <- OnlyFalse
  ThreadSet = {1, 4}
  MaxPipeFiles = 2
INVARIANTS Partition

SPECIFICATION Spec
CONSTANTS
  NW = 2
  NF = 3
  MaxLen = 0
  Seps = {FALSE}
  FilesMode = TRUE
  MayFail = FALSE
  UseLock = TRUE
  ClearBuf = TRUE
  SepByWriter = TRUE
  UseChannel = FALSE
INVARIANTS TypeOK Atomic Complete FlagsOK

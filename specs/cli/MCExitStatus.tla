---------------------------- MODULE MCExitStatus ----------------------------
(* Bounded scenario families for ExitStatus (C15); one cfg per tier selects the bounds. *)
EXTENDS ExitStatus

CONSTANTS Fams,          \* families to generate: "faults", "args", "pipe"
          MaxFiles,      \* "faults": sequences of 1..MaxFiles kinds
          FaultKinds,    \* "faults": kinds used (intersected with what the naming can realise)
          NoMsgs,        \* "faults": values of --no-messages
          ThreadSet,     \* thread counts
          MaxPipeFiles   \* "pipe": sequences of 1..MaxPipeFiles healthy kinds

SeqsUpTo(S, n) == UNION {[1..k -> S] : k \in 1..n}

Base == [fam |-> "", files |-> <<>>, mode |-> "standard", threads |-> 1, naming |-> "explicit",
         args |-> "ok", nomsg |-> FALSE, cut |-> -1]

\* ---- family "faults": every sequence of outcome kinds x mode x threads x naming (x --no-messages)
FaultSeeds == {[Base EXCEPT !.fam = "faults", !.mode = m, !.threads = t, !.naming = n, !.nomsg = nm]
                 : m \in Modes, t \in ThreadSet, n \in Namings, nm \in NoMsgs}
FaultScn(s) == {With(s, fs) : fs \in SeqsUpTo(FaultKinds \cap KindsOf(s.naming), MaxFiles)}

\* ---- family "args": each kind of invalid argument x mode x threads x naming over a few file lists
\* (a file that would match, so that results would appear if the error were not fatal)
ArgFiles == {<<"match">>, <<"match", "nomatch">>, <<"perm", "match">>, <<"prematch">>}
ArgSeeds == {s \in {[Base EXCEPT !.fam = "args", !.mode = m, !.threads = t, !.naming = n, !.args = a]
                      : m \in Modes, t \in ThreadSet, n \in Namings, a \in ArgKinds \ {"ok"}}
               : ~(s.mode = "files" /\ s.args = "badregex")}
ArgScn(s) == {With(s, fs) : fs \in ArgFiles}

\* ---- family "pipe": fault-free runs with output x every cut point
PipeSeeds == {[Base EXCEPT !.fam = "pipe", !.mode = m, !.threads = t, !.naming = n]
                : m \in Modes \ {"quiet"}, t \in ThreadSet, n \in Namings}
PipeScn(s) == {x \in {[With(s, fs) EXCEPT !.cut = c]
                        : fs \in SeqsUpTo({"match", "prematch", "nomatch", "binary"}, MaxPipeFiles), c \in 0..(Cuts - 1)}
                 : ClosedOK(x)}

\* ---- family "pre": an unreadable file handed to a lenient preprocessor, alone and next to healthy files
PreFiles == {<<"preperm">>, <<"preperm", "match">>, <<"match", "preperm">>, <<"preperm", "nomatch">>, <<"prematch", "preperm">>,
             <<"preperm", "preperm">>}
PreSeeds == {[Base EXCEPT !.fam = "pre", !.mode = m, !.threads = t, !.naming = n, !.nomsg = nm]
               : m \in Modes, t \in ThreadSet, n \in Namings, nm \in NoMsgs}
PreScn(s) == {With(s, fs) : fs \in PreFiles}

MCSeeds == (IF "pre" \in Fams THEN PreSeeds ELSE {}) \cup (IF "faults" \in Fams THEN FaultSeeds ELSE {})
      \cup (IF "args" \in Fams THEN ArgSeeds ELSE {})
      \cup (IF "pipe" \in Fams THEN PipeSeeds ELSE {})

MCScenariosOf(s) == CASE s.fam = "pre" -> PreScn(s)
                      [] s.fam = "faults" -> FaultScn(s)
                      [] s.fam = "args"   -> ArgScn(s)
                      [] s.fam = "pipe"   -> PipeScn(s)

AllKinds == Kinds \ {"prematch", "preperm"}       \* (a working preprocessor takes part in the closed-pipe family only)
FiveKinds == {"match", "nomatch", "binary", "perm", "prefail"}
OnlyFalse == {FALSE}
Both == {FALSE, TRUE}
=============================================================================

SPECIFICATION Spec
CONSTANTS
  NW = 2
  NF = 3
  MaxLen = 2
  Seps = {TRUE, FALSE}
  FilesMode = FALSE
  MayFail = FALSE
  UseLock = TRUE
  ClearBuf = TRUE
  SepByWriter = TRUE
  UseChannel = TRUE
INVARIANTS EmitFinal

SPECIFICATION ProtoSpec
CONSTANTS
  Seeds <- NoSeeds
  ScenariosOf <- NoScenarios
  Families = {}
  MaxLen = 0
  Bodies <- BodiesMX
  FaultContents = "small"
  BigInFaults = FALSE
  Cap = 2
  MaxOut = 3
  ErrVols <- ErrVolsQuick
  Async = TRUE
  CloseRule = "v14"
  KF_StderrOnEarlyStop = FALSE
INVARIANTS Conforms

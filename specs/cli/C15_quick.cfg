SPECIFICATION Spec
CONSTANTS
  Seeds <- MCSeeds
  ScenariosOf <- MCScenariosOf
  QuietWins = TRUE
  Cuts = 4
  Fams = {"faults", "args", "pipe", "pre"}
  MaxFiles = 3
  FaultKinds <- AllKinds
  NoMsgs <- Both
  ThreadSet = {1, 4}
  MaxPipeFiles = 3
INVARIANTS Sane Partition Function Monotonic Locality Contracts Emitted

------------------------------ MODULE RegexSem ------------------------------
(* Leftmost-first (Perl / Rust regex) semantics with capture groups over sequences of symbols,
   by priority-ordered enumeration of the ways a regex can match at a position.

   Symbols are small naturals (the harness renders them to bytes; one symbol may be a multi-byte
   UTF-8 scalar).  Symbol classes are given by the constants below.

   AST (records, field k is the kind):
     [k |-> "eps"]
     [k |-> "set", s |-> set of symbols]                 literal, class, dot (already expanded)
     [k |-> "cat", a, b]   [k |-> "alt", a, b]
     [k |-> "rep", a, min, max, g]                        max = Inf for unbounded; g = greedy
     [k |-> "grp", i, a]                                  capture group number i >= 1
     [k |-> "look", l]      l \in "bol" "eol" "bot" "eot" "wb" "nwb" "ws" "we"
   env: [crlf |-> BOOLEAN, lt |-> line terminator symbol used by (?m)^ and $]                 *)
EXTENDS Naturals, Sequences, FiniteSets

CONSTANTS WordSyms,   \* symbols that are word characters
          InvalidSyms, \* symbols that stand for bytes that are not valid UTF-8
          CR, LF      \* the symbols for \r and \n

Inf == 9999
IsW(x) == x \in WordSyms
At(s, i) == IF i >= 1 /\ i <= Len(s) THEN s[i] ELSE 0   \* 0 = outside the haystack

Eps == [k |-> "eps"]
Set(S) == [k |-> "set", s |-> S]
Cat(a, b) == [k |-> "cat", a |-> a, b |-> b]
Alt(a, b) == [k |-> "alt", a |-> a, b |-> b]
Rep(a, mn, mx, g) == [k |-> "rep", a |-> a, min |-> mn, max |-> mx, g |-> g]
Grp(i, a) == [k |-> "grp", i |-> i, a |-> a]
Look(l) == [k |-> "look", l |-> l]

\* p = number of symbols before the position (0..Len(s)); inside = the position is not at an end
LookHolds(l, s, p, env) ==
  LET prev == At(s, p) next == At(s, p + 1) n == Len(s) IN
  \* Unicode word boundaries next to an invalid byte: \b treats it as a non-word character, while
  \* \B and the half boundaries refuse to match (regex-automata look.rs, is_word_unicode_negate etc.)
  CASE l = "wb"  -> (p > 0 /\ IsW(prev)) # (p < n /\ IsW(next))
    [] l = "nwb" -> /\ (p > 0 /\ IsW(prev)) = (p < n /\ IsW(next))
                    /\ ~(p > 0 /\ prev \in InvalidSyms) /\ ~(p < n /\ next \in InvalidSyms)
    [] l = "ws"  -> ~(p > 0 /\ IsW(prev)) /\ ~(p > 0 /\ prev \in InvalidSyms)
    [] l = "we"  -> ~(p < n /\ IsW(next)) /\ ~(p < n /\ next \in InvalidSyms)
    [] l = "bot" -> p = 0
    [] l = "eot" -> p = n
    [] l = "bol" -> IF env.crlf
                    THEN p = 0 \/ prev = LF \/ (prev = CR /\ ~(p < n /\ next = LF))
                    ELSE p = 0 \/ prev = env.lt
    [] l = "eol" -> IF env.crlf
                    THEN p = n \/ next = CR \/ (next = LF /\ ~(p > 0 /\ prev = CR))
                    ELSE p = n \/ next = env.lt

\* a result: [e |-> end position, c |-> capture table]; capture table: group -> <<start, end>> or <<>>
RECURSIVE Run(_, _, _, _, _)
Run(r, s, p, c, env) ==
  CASE r.k = "eps" -> << [e |-> p, c |-> c] >>
    [] r.k = "set" -> IF p < Len(s) /\ s[p + 1] \in r.s THEN << [e |-> p + 1, c |-> c] >> ELSE <<>>
    [] r.k = "look" -> IF LookHolds(r.l, s, p, env) THEN << [e |-> p, c |-> c] >> ELSE <<>>
    [] r.k = "alt" -> Run(r.a, s, p, c, env) \o Run(r.b, s, p, c, env)
    [] r.k = "cat" ->
         LET as == Run(r.a, s, p, c, env)
             RECURSIVE Fl(_)
             Fl(i) == IF i > Len(as) THEN <<>> ELSE Run(r.b, s, as[i].e, as[i].c, env) \o Fl(i + 1)
         IN Fl(1)
    [] r.k = "grp" ->
         LET as == Run(r.a, s, p, c, env) IN
         [i \in 1..Len(as) |-> [e |-> as[i].e, c |-> [as[i].c EXCEPT ![r.i] = <<p, as[i].e>>]]]
    [] r.k = "rep" ->
         \* one more iteration (if allowed) vs stopping here (if min reached); an iteration that
         \* consumes nothing is not repeated (the engines' empty-loop rule)
         LET canStop == r.min = 0
             canMore == r.max > 0
             rest == Rep(r.a, IF r.min > 0 THEN r.min - 1 ELSE 0, IF r.max = Inf THEN Inf ELSE r.max - 1, r.g)
             as == IF canMore THEN Run(r.a, s, p, c, env) ELSE <<>>
             RECURSIVE Fl(_)
             Fl(i) == IF i > Len(as) THEN <<>>
                      ELSE (IF as[i].e > p \/ r.min > 0
                            THEN (IF as[i].e > p THEN Run(rest, s, as[i].e, as[i].c, env)
                                  ELSE Run(Rep(r.a, 0, 0, r.g), s, as[i].e, as[i].c, env))
                            ELSE <<>>) \o Fl(i + 1)
             more == Fl(1)
             stop == IF canStop THEN << [e |-> p, c |-> c] >> ELSE <<>>
         IN IF r.g THEN more \o stop ELSE stop \o more

NoCaps(n) == [i \in 1..n |-> <<>>]

\* Find(r, s, at): leftmost start >= at, first result in priority order: <<>> or <<start, end, caps>>
RECURSIVE FindFrom(_, _, _, _, _)
FindFrom(r, s, st, n, env) ==
  IF st > Len(s) THEN <<>>
  ELSE LET rs == Run(r, s, st, NoCaps(n), env) IN
       IF rs # <<>> THEN <<st, rs[1].e, rs[1].c>> ELSE FindFrom(r, s, st + 1, n, env)

IsMatch(r, s, n, env) == FindFrom(r, s, 0, n, env) # <<>>

\* grep_matcher::Matcher::try_find_iter_at: successive non-overlapping matches; an empty match
\* immediately after the previous match is skipped
RECURSIVE IterFrom(_, _, _, _, _, _)
IterFrom(r, s, lastEnd, lastMatch, n, env) ==
  IF lastEnd > Len(s) THEN <<>>
  ELSE LET m == FindFrom(r, s, lastEnd, n, env) IN
       IF m = <<>> THEN <<>>
       ELSE IF m[1] = m[2]
            THEN IF lastMatch = m[2] THEN IterFrom(r, s, m[2] + 1, lastMatch, n, env)
                 ELSE << m >> \o IterFrom(r, s, m[2] + 1, m[2], n, env)
            ELSE << m >> \o IterFrom(r, s, m[2], m[2], n, env)
FindIter(r, s, n, env) == IterFrom(r, s, 0, Inf + 1, n, env)
=============================================================================

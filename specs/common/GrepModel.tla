---------------------------- MODULE GrepModel ----------------------------
(* Reference ("grep") model of line-oriented search results: a pure function of the input
   bytes and the search configuration.  No buffers, no strategies, no read histories.

   Bytes are naturals.  A line "matches" iff it contains the byte MB (109, 'm'); this stands
   for an arbitrary matcher because the searcher only ever asks "does this line match".
   Offsets are 0-based, sequences are 1-based: the byte at offset o is inp[o+1].

   cfg: [A, B \in Nat, inv, pass, stopnm, lnum \in BOOLEAN, term \in {"lf","crlf","nul"}]      *)
EXTENDS Naturals, Sequences, FiniteSets

MB == 109            \* byte that makes a line match
CB == 99             \* byte that makes a line a (false) candidate for the fast path
NUL == 0

Min(a, b) == IF a < b THEN a ELSE b
Max(a, b) == IF a > b THEN a ELSE b

TermByte(t) == IF t = "nul" THEN 0 ELSE 10

\* end (exclusive, terminator included) of the line starting at offset s
LineEndIn(inp, tb, s) ==
  LET hits == {e \in (s+1)..Len(inp) : inp[e] = tb}
  IN IF hits = {} THEN Len(inp) ELSE CHOOSE e \in hits : \A f \in hits : e <= f

RECURSIVE LinesFrom(_, _, _)
LinesFrom(inp, tb, s) ==
  IF s >= Len(inp) THEN <<>>
  ELSE LET e == LineEndIn(inp, tb, s) IN << [s |-> s, e |-> e] >> \o LinesFrom(inp, tb, e)

LineTable(inp, cfg) == LinesFrom(inp, TermByte(cfg.term), 0)

HasByte(inp, l, b) == \E p \in (l.s+1)..l.e : inp[p] = b

\* ------------------------------------------------------------------------
Ev(k, ln, off, len) == [k |-> k, ln |-> ln, off |-> off, len |-> len]
BeginEv == Ev("begin", 0, 0, 0)
BreakEv == Ev("break", 0, 0, 0)
\* finish: off = bytes searched; len = 1 iff the count is pinned by the property (complete run)
FinishEv(bytes, pinned) == Ev("finish", 0, bytes, IF pinned THEN 1 ELSE 0)

\* The full result stream of an uninterrupted search without binary detection, for an arbitrary
\* selection: L = line table, sels = set of selected line indices, total = input length,
\* merge = consecutive selected lines are delivered as ONE match event (multi-line search).
ExpectedGen(L, sels, cfg, total, merge) ==
  LET n == Len(L)
      AA == IF cfg.pass THEN 0 ELSE cfg.A
      BB == IF cfg.pass THEN 0 ELSE cfg.B
      Sel(i) == i \in sels
      first == IF sels = {} THEN 0 ELSE CHOOSE i \in sels : \A j \in sels : i <= j
      nons == {g \in 1..n : g > first /\ ~Sel(g)}
      stopl == IF cfg.stopnm /\ first > 0 /\ nons # {}
               THEN CHOOSE g \in nons : \A h \in nons : g <= h ELSE 0
      neff == IF stopl > 0 THEN stopl ELSE n
      IsAfter(i) == \E j \in Max(1, i - AA)..(i-1) : Sel(j)
      IsBefore(i) == \E j \in (i+1)..Min(neff, i + BB) : Sel(j)
      Deliv(i) == Sel(i) \/ cfg.pass \/ IsAfter(i) \/ IsBefore(i)
      \* end (exclusive) of the run of selected lines starting at i
      RECURSIVE RunEnd(_)
      RunEnd(i) == IF merge /\ i < neff /\ Sel(i + 1) THEN RunEnd(i + 1) ELSE i
      LineEv(i, j) == Ev(IF Sel(i) THEN "match" ELSE "ctx", IF cfg.lnum THEN i ELSE 0, L[i].s, L[j].e - L[i].s)
      RECURSIVE Go(_, _, _)
      Go(i, last, acc) ==
        IF i > neff THEN acc
        ELSE IF ~Deliv(i) THEN Go(i+1, last, acc)
        ELSE LET brk == last > 0 /\ last < i - 1 /\ (AA > 0 \/ BB > 0)
                 j == IF Sel(i) THEN RunEnd(i) ELSE i
             IN Go(j+1, j, IF brk THEN acc \o <<BreakEv, LineEv(i, j)>> ELSE Append(acc, LineEv(i, j)))
  IN <<BeginEv>> \o Go(1, 0, <<>>) \o << FinishEv(total, stopl = 0) >>

\* line mode: a line is selected iff it contains MB, complemented by inversion
Expected(inp, cfg) ==
  LET L == LineTable(inp, cfg) IN
  ExpectedGen(L, {i \in 1..Len(L) : HasByte(inp, L[i], MB) # cfg.inv}, cfg, Len(inp), FALSE)

\* Two streams agree when they are equal except that an unpinned finish carries no byte count.
EvEq(a, b) == IF a.k = "finish" /\ b.k = "finish" /\ (a.len = 0 \/ b.len = 0) THEN TRUE ELSE a = b
StreamEq(x, y) == Len(x) = Len(y) /\ \A i \in 1..Len(x) : EvEq(x[i], y[i])
IsPrefixOf(x, y) == Len(x) <= Len(y) /\ \A i \in 1..Len(x) : EvEq(x[i], y[i])

\* ------------------------------------------------------------------------
\* Theorems about the model itself (checked by TLC over all bounded inputs): C03's clauses.
ModelSane(inp, cfg) ==
  LET ex == Expected(inp, cfg)
      L == LineTable(inp, cfg)
      lines == SelectSeq(ex, LAMBDA e : e.k \in {"match", "ctx"})
  IN /\ \A i \in 1..(Len(lines)-1) : lines[i].off < lines[i+1].off              \* input order, no duplicates
     /\ \A i \in 1..Len(lines) : \E j \in 1..Len(L) :
           /\ L[j].s = lines[i].off /\ L[j].e - L[j].s = lines[i].len             \* a delivered line is a line
           /\ (cfg.lnum => lines[i].ln = j)                                       \* true 1-based number
     /\ ex[1] = BeginEv /\ ex[Len(ex)].k = "finish"
     /\ (~cfg.stopnm => ex[Len(ex)] = FinishEv(Len(inp), TRUE))
     /\ (cfg.pass /\ ~cfg.stopnm => Len(lines) = Len(L))                           \* passthru delivers all
     /\ \A i \in 2..Len(ex) : ex[i].k = "break" =>                                \* a break sits exactly in a gap
           /\ ex[i-1].k \in {"match", "ctx"} /\ i < Len(ex) /\ ex[i+1].k \in {"match", "ctx"}
           /\ ex[i-1].off + ex[i-1].len < ex[i+1].off
     /\ \A i \in 2..(Len(ex)-1) : (ex[i].k \in {"match","ctx"} /\ ex[i+1].k \in {"match","ctx"}
                                   /\ ~cfg.pass /\ (cfg.A > 0 \/ cfg.B > 0))
                                  => ex[i].off + ex[i].len = ex[i+1].off            \* no break => adjacent
=============================================================================

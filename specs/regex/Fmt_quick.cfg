SPECIFICATION Spec
CONSTANTS
  WordSyms <- MCWordSyms
  InvalidSyms = {12}
  CR = 13
  LF = 14
  Lines <- MCLines
  Width <- MCWidth
  TrimSyms <- MCTrimSyms
  Seeds <- PlainSeeds
  ScenariosOf <- PlainOf
INVARIANTS EmittedFmt EmitCfgs

SPECIFICATION Spec
CONSTANTS
  WordSyms <- MCWordSyms
  InvalidSyms = {12}
  CR = 13
  LF = 14
  Lines <- MCLines
  Seeds <- NulSeeds
  PatternsOf <- MCPatternsOf
INVARIANTS Emitted EmitLines

SPECIFICATION Spec
CONSTANTS
  WordSyms <- MCWordSyms
  InvalidSyms = {12}
  CR = 13
  LF = 14
  Lines <- MCLinesDeep
  Width <- MCWidth
  Seeds <- PlainSeedsDeep
  ScenariosOf <- PlainOf
INVARIANTS Emitted EmitLines

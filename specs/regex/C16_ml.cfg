SPECIFICATION Spec
CONSTANTS
  WordSyms <- MCWordSyms
  InvalidSyms = {12}
  CR = 13
  LF = 14
  MaxLen = 3
  CtxMax = 1
  WithPlans = TRUE
  WithCrlf = FALSE
INVARIANT Emitted

SPECIFICATION Spec
CONSTANTS
  WordSyms <- MCWordSyms
  InvalidSyms = {12}
  CR = 13
  LF = 14
  MaxLen = 4
  CtxMax = 1
  WithPlans = FALSE
  WithCrlf = TRUE
INVARIANT Emitted

------------------------------ MODULE MCGrepML ------------------------------
(* Scenario generation for C13 (and the multi-line part of C16): patterns that may match the line
   terminator or sit next to it, inputs of a few short lines, context / inversion options.   *)
EXTENDS GrepModelML, SequencesExt

CONSTANTS MaxLen, CtxMax, WithPlans,
          WithCrlf    \* TRUE: also --crlf scenarios (CRLF-aware anchors and dot) on inputs holding CR LF and bare CR

VARIABLES scn, pc
vars == <<scn, pc>>

SeqsUpTo(S, n) == UNION {[1..k -> S] : k \in 0..n}
\* longer inputs for shapes that need them: chains of matches each beginning on the line where the previous one ended
\* (\nb on \nb\nb\nb\n), an empty match followed on the same line by a match that runs into the next line
SpecialInputs == { <<SLF, SB, SLF, SB, SLF, SB, SLF>>, <<SB, SLF, SB, SLF, SB, SLF, SB, SLF>>, <<SA, SLF, SB, SLF, SB, SLF, SB>>,
                   <<SLF, SB, SLF, SB, SLF, SB, SLF, SB, SLF, SA>>, <<SA, SA, SA, SLF, SA>>, <<SA, SA, SA, SLF, SA, SLF, SB>>,
                   <<SB, SA, SA, SLF, SA, SA, SLF, SA>>,
                   \* more than 128 bytes after the first block (the printers look ahead that far when they re-find matches)
                   <<SA, SLF>> \o [i \in 1..140 |-> SB] \o <<SLF>>,
                   <<SB, SA, SLF>> \o [i \in 1..70 |-> SB] \o <<SLF>> \o [i \in 1..70 |-> SA] \o <<SLF, SA, SLF, SB>> }
Inputs == SeqsUpTo({SA, SB, SLF}, MaxLen) \cup SpecialInputs

LF1 == ULit(SLF)
Pats == { UCat(ULit(SA), UCat(LF1, ULit(SB))),                    \* a\nb
          UCat(ULit(SA), LF1),                                     \* a\n
          UCat(LF1, ULit(SB)),                                     \* \nb
          UAlt(UCat(ULit(SA), LF1), UCat(ULook("bot"), ULit(SB))),  \* a\n|(?-m:^)b   (look-behind at the resumption point)
          UAlt(UCat(ULit(SA), LF1), UCat(ULook("bol"), ULit(SB))),  \* a\n|^b
          UCat(ULook("bol"), ULit(SA)), UCat(ULit(SA), ULook("eol")), ULook("bol"), ULook("eol"),
          UCat(ULit(SA), ULook("wb")), UCat(ULook("nwb"), ULit(SB)), ULook("nwb"),
          UAlt(ULit(SA), ULook("nwb")),                            \* a|\B   (empty matches, also at EOF)
          URep(ULit(SA), 0, Inf, TRUE),                            \* a*
          UCat(ULit(SA), UCat(URep(UDot, 0, Inf, TRUE), ULit(SB))), \* a.*b  (with and without dotall)
          UCat(ULit(SA), UCat(URep(UCls({SA}, TRUE), 0, Inf, FALSE), ULit(SB))),  \* a[^a]*?b  crosses lines
          UCat(ULit(SB), UCat(URep(LF1, 1, Inf, TRUE), ULit(SA))),  \* b\n+a
          UCat(UWCls(TRUE), ULit(SA)),                              \* \Wa  (\W matches \n)
          UCat(ULit(SA), UCat(LF1, ULook("wb"))),                   \* a\n\b   (assertion looking at the next line's first byte)
          UAlt(UCat(ULit(SA), UCat(LF1, ULit(SA))), ULook("nwb")),  \* a\na|\B   (an empty match, then a spanning one on the same line)
          UAlt(ULook("nwb"), UCat(ULit(SA), UCat(LF1, ULit(SA)))),  \* \B|a\na
          \* a match that ends with the terminator, then an EMPTY match right where it ended (the only match of that next line)
          UAlt(UCat(ULit(SA), LF1), UCat(ULook("bol"), ULook("eol"))),  \* a\n|^$
          UAlt(UCat(ULit(SA), LF1), URep(ULit(SB), 0, Inf, TRUE)),      \* a\n|b*
          \* an optional tail that ends in `$` and cannot match when more than 130 bytes follow on the next line - unless the
          \* text is cut off there (the printers re-find matches with 128 bytes of look-ahead)
          UCat(ULit(SA), URep(UGrp(UCat(LF1, UCat(URep(UDot, 0, 130, TRUE), ULook("eol"))), FALSE), 0, 1, TRUE)),
          ULit(SA), UCat(ULit(SA), ULit(SB)) }

Opt(ci, word, line, crlf) == [ci |-> ci, smart |-> FALSE, word |-> word, line |-> line, crlf |-> crlf, nul |-> FALSE, inv |-> FALSE, dotall |-> FALSE]
Opts == {Opt(FALSE, FALSE, FALSE, FALSE), [Opt(FALSE, FALSE, FALSE, FALSE) EXCEPT !.dotall = TRUE],
         Opt(FALSE, TRUE, FALSE, FALSE), Opt(FALSE, FALSE, TRUE, FALSE)}
        \cup (IF WithCrlf THEN {Opt(FALSE, FALSE, FALSE, TRUE), Opt(FALSE, FALSE, TRUE, TRUE),
                                 [Opt(FALSE, FALSE, FALSE, TRUE) EXCEPT !.dotall = TRUE]}     \* --crlf --multiline-dotall: the dot matches CR and LF
               ELSE {})
\* inputs of the --crlf scenarios: up to three tokens out of a, b, CR LF, a bare LF, a bare CR
RECURSIVE Flat(_)
Flat(t) == IF t = <<>> THEN <<>> ELSE Head(t) \o Flat(Tail(t))
InputsCR == {Flat(t) : t \in SeqsUpTo({<<SA>>, <<SB>>, <<SCR, SLF>>, <<SLF>>, <<SCR>>}, 3)}
            \cup {<<SA, SCR, SLF, SB, SCR, SLF>>, <<SA, SCR, SLF, SA, SCR, SLF, SB>>, <<SB, SCR, SLF, SCR, SLF, SA, SCR, SLF>>}
Cfgs == {[A |-> a, B |-> b, inv |-> i, pass |-> p, lnum |-> TRUE, stopnm |-> FALSE] :
            a \in 0..CtxMax, b \in 0..CtxMax, i \in BOOLEAN, p \in BOOLEAN}

\* Under --crlf an EMPTY match lying between the CR and the LF of a terminator is left open: a pattern that cannot match
\* LF is searched line by line on the content without its terminator (no such position), one that can is searched over
\* the whole input (the position exists and overlaps the line).  The patterns with \B - the ones with such matches -
\* are therefore not combined with --crlf.
NwbPats == {u \in Pats : u = ULook("nwb") \/ (u.k = "alt" /\ (u.a = ULook("nwb") \/ u.b = ULook("nwb")))}
Init == /\ pc = "pick"
        /\ scn \in {s \in {[u |-> u, o |-> o, cfg |-> c, inp |-> <<>>, stopAt |-> 0, errAt |-> 0] : u \in Pats, o \in Opts,
                                 c \in {c \in Cfgs : c.pass => (c.A = 0 /\ c.B = 0)}}
                        : ~(s.o.crlf /\ s.u \in NwbPats)}
Exp(sc) == ExpectedML(sc.inp, sc.u, sc.o, sc.cfg)
Pick == /\ pc = "pick"
        /\ \E i \in (IF scn.o.crlf THEN InputsCR ELSE Inputs) :
             LET base == [scn EXCEPT !.inp = i]
                 n == Len(ExpectedML(i, scn.u, scn.o, scn.cfg))
             IN \E pl \in ({<<0, 0>>} \cup (IF WithPlans THEN {<<k, 0>> : k \in 1..(n - 1)} \cup {<<0, k>> : k \in 1..(n - 1)} ELSE {})) :
                  scn' = [base EXCEPT !.stopAt = pl[1], !.errAt = pl[2]]
        /\ pc' = "done"
Next == Pick
Spec == Init /\ [][Next]_vars

Emitted == pc = "done" => PrintT(<<"EMIT", ToJson([scn |-> scn, ref |-> Exp(scn)])>>)
\* C09 (multi-line coordinates): additionally the successive matches themselves
MatchesOfScn(sc) == MLMatches(MLSem(sc.u, sc.o), sc.inp, 0, NGroups(sc.u, sc.o), MLEnv(sc.o))
EmittedWithMatches == pc = "done" => PrintT(<<"EMIT", ToJson([scn |-> scn, ref |-> Exp(scn), ms |-> MatchesOfScn(scn)])>>)
MCWordSyms == {1, 2, 3, 4, 5, 6, 10, 11}
=============================================================================

---------------------------- MODULE GrepModelML ----------------------------
(* C13: reference model of multi-line search.  The lines reported are exactly the lines overlapped by
   the successive leftmost, non-overlapping matches of the pattern over the WHOLE input (look-around
   assertions see the whole input, not the resumption point); touching or overlapping line ranges are
   merged into one reported block; inversion reports the other lines one by one; context, numbering
   and offsets follow the grep model (GrepModel!ExpectedGen).

   Input is a sequence of symbols (Syntax.tla); offsets in the emitted events are SYMBOL offsets, the
   harness converts them to byte offsets through the symbol table.                              *)
EXTENDS Syntax, GrepModel, TLC, Json

\* pattern semantics under -U: no terminator stripping, no line-oriented wrapping of the haystack
MLSem(u, o) == Wrapped(u, o)
MLEnv(o) == [crlf |-> o.crlf, lt |-> SLF]

\* the searcher's match loop (glue.rs MultiLine::sink / advance), with the search always performed
\* on the whole input starting at pos
RECURSIVE MLMatches(_, _, _, _, _)
MLMatches(r, s, pos, n, env) ==
  IF pos >= Len(s) THEN <<>>
  ELSE LET m == FindFrom(r, s, pos, n, env) IN
       IF m = <<>> THEN <<>>
       ELSE LET np == IF m[1] = m[2] /\ m[2] < Len(s) THEN m[2] + 1 ELSE m[2]
            IN << <<m[1], m[2]>> >> \o (IF np > pos \/ m[2] > pos THEN MLMatches(r, s, np, n, env) ELSE <<>>)

\* lines::locate: the range of whole lines holding a match (terminator symbol tb)
Locate(s, tb, ms, me) ==
  LET before == {i \in 1..ms : s[i] = tb}
      ls == IF before = {} THEN 0 ELSE CHOOSE i \in before : \A j \in before : j <= i
      le == IF me > ls /\ s[me] = tb THEN me
            ELSE LET after == {i \in (me + 1)..Len(s) : s[i] = tb} IN
                 IF after = {} THEN Len(s) ELSE CHOOSE i \in after : \A j \in after : i <= j
  IN <<ls, le>>

\* line table over symbols (terminator LF; under --crlf the terminator byte is still LF)
SymLines(s) == LinesFrom(s, SLF, 0)

Covered(s, u, o) ==
  LET L == SymLines(s)
      ms == MLMatches(MLSem(u, o), s, 0, NGroups(u, o), MLEnv(o))
      rng == [i \in 1..Len(ms) |-> Locate(s, SLF, ms[i][1], ms[i][2])]
  IN {j \in 1..Len(L) : \E i \in 1..Len(ms) : rng[i][1] < L[j].e /\ L[j].s < rng[i][2]}

\* cfg: [A, B, inv, pass, lnum]; stop_on_nonmatch does not apply to multi-line search
ExpectedML(s, u, o, cfg) ==
  LET L == SymLines(s)
      cov == Covered(s, u, o)
      sels == IF cfg.inv THEN (1..Len(L)) \ cov ELSE cov
  IN ExpectedGen(L, sels, [cfg EXCEPT !.stopnm = FALSE], Len(s), ~cfg.inv)
=============================================================================

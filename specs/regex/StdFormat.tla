------------------------------ MODULE StdFormat ------------------------------
(* The byte-level output grammar of the standard (text) printer in line mode, beyond what C09 / C19
   fix: prelude fields (path, line number, column, byte offset and their separators), context lines
   and breaks, --only-matching, --trim, --max-columns with and without --max-columns-preview.

   It is a function from the data of Printer.tla (per catalogue line: selected?, successive matches)
   and a print configuration to the sequence of output ITEMS of the whole catalogue file:
       <<"s", sym>>   the bytes of a content symbol            <<"d", n>>   n in decimal
       <<"x", text>>  literal text                               <<"p">>      the path as given
       <<"z">>        a NUL byte (path terminator, --null)
   The harness renders items to bytes and compares them with rg's stdout, byte for byte.

   Print configuration cf:
     n, col, b   line number / column / byte offset fields (-n, --column, -b)
     H           "none" | "sep" (-H: path, then the field separator) | "null" (-H --null: path, then NUL)
     only        -o: one record per match, holding the match only
     trim        --trim: leading ASCII white space of what is printed is removed
     M, prev     --max-columns M (0: no limit), --max-columns-preview
     A, B        lines of context after / before (context lines use `-` as separator, groups are separated by `--`)

   Transcribed from crates/printer/src/standard.rs (sink, sink_fast, sink_slow, write_prelude, write_line,
   write_exceeded_line, PreludeWriter) and util.rs (trim_ascii_prefix).  Deliberate limits are stated at
   Applicable below.                                                                                         *)
EXTENDS Printer

CONSTANT TrimSyms          \* symbols that are ASCII white space (and not the line terminator)

Txt(s) == << <<"x", s>> >>
Num(n) == << <<"d", n>> >>
Syms(content, a, b) == [i \in 1..(b - a) |-> <<"s", content[a + i]>>]      \* symbols a+1 .. b
Min2(a, b) == IF a < b THEN a ELSE b

LineBytes(content) == Bytes(content, Len(content))
Offs[i \in 1..(Len(Lines) + 1)] == IF i = 1 THEN 0 ELSE Offs[i - 1] + LineBytes(Lines[i - 1]) + 1     \* LF-terminated catalogue

\* number of leading white-space symbols of content[a+1 .. b]
RECURSIVE Lead(_, _, _)
Lead(content, a, b) == IF a < b /\ content[a + 1] \in TrimSyms THEN 1 + Lead(content, a + 1, b) ELSE 0

\* the printer looks for the individual matches of a line only when something needs them
Granular(cf) == cf.col \/ cf.only

\* ---- what is written for the piece content[a+1 .. b] of a line (the whole content, or one match under -o)
\* hasTerm: the piece is followed by the line terminator in the buffer handed to write_line (whole lines yes, -o pieces no);
\* ms: the matches the printer holds for this line (symbol positions), empty unless Granular; isCtx: context line
\* own: what ends the record - a whole line that is printed as it is keeps ITS terminator (the catalogue's LF); where
\* the printer has to add one (after a message, after a -o piece) it writes the searcher's (CR LF under --crlf)
Body(cf, content, a, b, hasTerm, isCtx, ms, crlf) ==
  LET a2 == IF cf.trim THEN a + Lead(content, a, b) ELSE a
      len == (Bytes(content, b) - Bytes(content, a2)) + (IF hasTerm THEN 1 ELSE 0)
      omitted == IF isCtx THEN "[Omitted long context line]" ELSE "[Omitted long matching line]"
  IN
  (IF cf.M > 0 /\ len > cf.M
   THEN IF cf.prev
        THEN \* the first M graphemes of the piece (a symbol is one grapheme; the terminator would be the next one)
             \* (with fewer symbols than M the terminator is among the M graphemes: nothing of the line lies beyond the preview)
             LET pend == a2 + Min2(cf.M, b - a2)
                 pendB == Bytes(content, pend) + (IF hasTerm /\ cf.M > b - a2 THEN 1 ELSE 0)
                 k == Cardinality({i \in 1..Len(ms) : /\ Bytes(content, ms[i][1]) >= pendB
                                                      /\ Bytes(content, ms[i][1]) < Bytes(content, b) + (IF hasTerm THEN 1 ELSE 0)})
             IN Syms(content, a2, pend)
                \o (IF ms = <<>> THEN Txt(" [... omitted end of long line]")
                    ELSE Txt(" [... ") \o Num(k) \o Txt(IF k = 1 THEN " more match]" ELSE " more matches]"))
        ELSE IF ms = <<>> \/ cf.only THEN Txt(omitted)
             ELSE Txt("[Omitted long line with ") \o Num(Len(ms)) \o Txt(" matches]")
   ELSE Syms(content, a2, b))
  \o Txt(IF crlf /\ (~hasTerm \/ (cf.M > 0 /\ len > cf.M)) THEN "\r\n" ELSE "\n")

\* ---- the prelude: path, line number, column, byte offset; each followed by the separator (the path by NUL under --null)
Prelude(cf, lnum, col, off, isCtx) ==
  LET sep == Txt(IF isCtx THEN "-" ELSE ":") IN
     (IF cf.H = "none" THEN <<>> ELSE << <<"p">> >> \o (IF cf.H = "null" THEN << <<"z">> >> ELSE sep))
  \o (IF cf.n THEN Num(lnum) \o sep ELSE <<>>)
  \o (IF cf.col /\ col # 0 THEN Num(col) \o sep ELSE <<>>)
  \o (IF cf.b THEN Num(off) \o sep ELSE <<>>)

\* ---- one printed line.  ms: all matches of the line (symbol positions <<start, end, caps>>)
\* A selected line of an inverted search holds no match; a context line holds matches only in an inverted search, and the
\* printer looks for them only when Granular.
Record(cf, i, content, ms0, isCtx, crlf) ==
  LET ms == IF Granular(cf) THEN ms0 ELSE <<>>
      first == IF ms = <<>> THEN 0 ELSE Bytes(content, ms[1][1]) + 1 IN
  IF cf.only /\ ms # <<>>
  THEN LET RECURSIVE Each(_)
           Each(k) == IF k > Len(ms) THEN <<>>
                      ELSE Prelude(cf, i, Bytes(content, ms[k][1]) + 1, Offs[i] + Bytes(content, ms[k][1]), isCtx)
                           \o Body(cf, content, ms[k][1], ms[k][2], FALSE, isCtx, ms, crlf) \o Each(k + 1)
       IN Each(1)
  ELSE Prelude(cf, i, first, Offs[i], isCtx) \o Body(cf, content, 0, Len(content), TRUE, isCtx, ms, crlf)

\* ---- the whole file
Printed(cf, sel) ==     \* line numbers printed: selected lines and their context
  {i \in 1..Len(Lines) : sel[i] \/ \E j \in 1..Len(Lines) : sel[j] /\ ((j < i /\ i - j <= cf.A) \/ (j > i /\ j - i <= cf.B))}

Format(cf, sel, allms, crlf) ==
  LET pr == Printed(cf, sel)
      RECURSIVE Go(_, _)
      Go(i, last) ==
        IF i > Len(Lines) THEN <<>>
        ELSE IF i \notin pr THEN Go(i + 1, last)
        ELSE (IF last # 0 /\ i > last + 1 /\ (cf.A > 0 \/ cf.B > 0) THEN Txt(IF crlf THEN "--\r\n" ELSE "--\n") ELSE <<>>)
             \o Record(cf, i, Lines[i], allms[i], ~sel[i], crlf) \o Go(i + 1, i)
  IN Go(1, 0)

\* what this module defines: without -o the records of a line need no second look at the matches when the line was trimmed
\* (the printer re-slices the trimmed line but keeps the match offsets of the untrimmed one: with --trim the count in
\* "[... K more matches]" is taken against shifted offsets - see DESIGN.md, observations), and -o with a preview likewise.
Applicable(cf, o) ==
  /\ ~(cf.prev /\ cf.trim /\ Granular(cf))
  /\ ~(cf.prev /\ cf.only)
  /\ (cf.only => cf.A = 0 /\ cf.B = 0 /\ ~o.inv)
=============================================================================

----------------------------- MODULE MCPrinter -----------------------------
EXTENDS Printer, SequencesExt

VARIABLES scn, pc
vars == <<scn, pc>>

SeqsUpTo(S, n) == UNION {[1..k -> S] : k \in 0..n}
MCWordSyms == {1, 2, 3, 4, 5, 6, 10, 11}
MCWidth(s) == IF s \in {10, 11} THEN 2 ELSE 1
Specials == { <<SFF>>, <<SA, SFF, SB>>, <<SUA>>, <<SA, SB, SA, SB>>, <<SB, SA, SA, SB>>, <<SA, SB, SSP, SA, SB>>, <<SEA, SA, SB>> }
MCLines == SetToSeq(SeqsUpTo({SA, SB, SSP, SEA}, 3) \cup Specials)

A1 == ULit(SA)  B1 == ULit(SB)
G(x) == UGrp(x, TRUE)
NG(x) == [k |-> "ngrp", a |-> x, name |-> "x"]
Opt01(x) == URep(x, 0, 1, TRUE)
Star(x) == URep(x, 0, Inf, TRUE)
Plus(x) == URep(x, 1, Inf, TRUE)
Pats == { UCat(G(A1), Opt01(G(B1))),            \* (a)(b)?
          Plus(G(UAlt(A1, B1))),                  \* (a|b)+
          UCat(NG(A1), B1),                       \* (?P<x>a)b
          Star(A1),                               \* a*
          ULook("wb"),                            \* \b
          UCat(G(Star(A1)), B1),                  \* (a*)b
          G(UCat(G(A1), B1)),                     \* ((a)b)
          UAlt(G(A1), B1),                        \* (a)|b
          UAlt(ULit(SEA), G(B1)),                 \* e-acute|(b)
          A1, UCat(A1, B1), ULook("bol"), ULook("eol"),
          UCat(G(A1), Opt01(NG(B1))),             \* (a)(?P<x>b)?
          Plus(UWCls(FALSE)),                     \* \w+
          URep(UCls({SA, SB}, FALSE), 2, 2, TRUE), \* [ab]{2}
          UCat(UGrp(A1, FALSE), G(B1)),           \* (?:a)(b)
          UCat(Star(UDot), G(B1)),                \* .*(b)
          UCat(G(Star(A1)), G(Star(B1))),       \* (a*)(b*)
          UCat(UWCls(TRUE), ULook("eol")),       \* \W$    (matches a CR before the terminator when --crlf is not given)
          ULit(SCR),                             \* \r
          UCat(B1, UDot) }                       \* b.

TChars == {TCDollar, TCOpen, TCClose, TC1, TC2, TCx, TCDash, TC0}
ShortTpls == SeqsUpTo(TChars, 2)
Big1 == <<TC4, TC2, TC9, TC4, TC9, TC6, TC7, TC2, TC9, TC7>>   \* 4294967297 = 2^32 + 1
Big0 == <<TC4, TC2, TC9, TC4, TC9, TC6, TC7, TC2, TC9, TC6>>   \* 4294967296 = 2^32
PickTpls == { <<TCDollar>> \o Big1, <<TCDollar, TCOpen>> \o Big1 \o <<TCClose>>, <<TCDash, TCDollar>> \o Big0 \o <<TCDash>>,
              <<TCDollar, TCOpen, TC1, TCClose>>, <<TCDollar, TCOpen, TCx, TCClose>>, <<TCDollar, TC1, TCDash>>, <<TCDollar, TC1, TCx>>,
              <<TCDollar, TCOpen, TC1, TCClose, TCx>>, <<TCDollar, TCOpen, TC1>>, <<TCDollar, TCx, TC1>>,
              <<TCDash, TCDollar, TC1, TCDash, TCDollar, TC2, TCDash>>, <<TCDollar, TCDollar, TC1>>,
              <<TCDollar, TCOpen, TCx, TCClose, TCDollar, TCOpen, TC1, TCClose>>, <<TCDollar, TC1, TCa>>, <<TCDollar, TCOpen, TC2, TCClose, TCDash>>,
              <<TCDollar, TC1, TC0>>, <<TCDollar, TCOpen, TCClose>>,
              \* the underscore is a name character: $1_ and $x_ name groups that do not exist, ${1}_ does not
              <<TCDollar, TC1, TCUnd>>, <<TCDollar, TCx, TCUnd>>, <<TCDollar, TCOpen, TCx, TCUnd, TCClose>>,
              <<TCDollar, TCOpen, TC1, TCClose, TCUnd>>, <<TCDollar, TCUnd, TC1>>, <<TCDollar, TC1, TCUnd, TCDollar, TC2>>,
              \* a `$` that starts no reference is literal, and what follows it is still expanded
              <<TCDollar, TCDash, TCDollar, TC1>>, <<TCDollar, TCOpen, TCClose, TCDollar, TC1>>, <<TCDollar, TCOpen, TCx, TCDollar, TC1>>,
              <<TCDollar, TCDash, TCDollar, TCDollar, TCDollar, TCOpen, TCx, TCClose>>, <<TC1, TCDollar, TCDash, TCDollar, TC0>> }

Opt(ci, word, line, crlf, inv) == [ci |-> ci, smart |-> FALSE, word |-> word, line |-> line, crlf |-> crlf, nul |-> FALSE, inv |-> inv, dotall |-> FALSE]
Plain == Opt(FALSE, FALSE, FALSE, FALSE, FALSE)

\* C19: replacement scenarios;  C09/C10: no template
ReplSeeds == {[u |-> u, o |-> o, tpl |-> <<>>, repl |-> TRUE] : u \in Pats, o \in {Plain, [Plain EXCEPT !.word = TRUE], [Plain EXCEPT !.inv = TRUE]}}
ReplOf(sd) == {[sd EXCEPT !.tpl = t] : t \in (IF sd.o = Plain THEN ShortTpls \cup PickTpls ELSE PickTpls)}
\* thorough tier: every template of up to three characters, more option sets, every content of length <= 4
MCLinesDeep == SetToSeq(SeqsUpTo({SA, SB, SSP, SEA}, 4) \cup Specials)
ReplSeedsDeep == {[u |-> u, o |-> o, tpl |-> <<>>, repl |-> TRUE] : u \in Pats,
                    o \in {Plain, [Plain EXCEPT !.word = TRUE], [Plain EXCEPT !.inv = TRUE], [Plain EXCEPT !.ci = TRUE], [Plain EXCEPT !.line = TRUE]}}
ReplOfDeep(sd) == {[sd EXCEPT !.tpl = t] : t \in (IF sd.o = Plain THEN SeqsUpTo(TChars, 3) \cup PickTpls ELSE PickTpls)}
PlainSeeds0 == {[u |-> u, o |-> o, tpl |-> <<>>, repl |-> FALSE] : u \in Pats,
                  o \in {Plain, [Plain EXCEPT !.word = TRUE], [Plain EXCEPT !.inv = TRUE], [Plain EXCEPT !.ci = TRUE],
                         [Plain EXCEPT !.line = TRUE], [Plain EXCEPT !.crlf = TRUE]}}
PlainOf(sd) == {sd}
\* thorough tier: option combinations, every content of length <= 4
PlainSeedsDeep == {sd \in {[u |-> u, o |-> o, tpl |-> <<>>, repl |-> FALSE] : u \in Pats,
                          o \in {Opt(ci, w, l, cr, inv) : ci \in BOOLEAN, w \in BOOLEAN, l \in BOOLEAN, cr \in BOOLEAN, inv \in BOOLEAN}}
                    : ~(sd.o.word /\ sd.o.line) /\ ~(sd.o.crlf /\ sd.u = ULit(SCR))}
\* (under --crlf a literal CR is rejected by the matcher builder, see C11: no such scenario)
PlainSeeds == {sd \in PlainSeeds0 : ~(sd.o.crlf /\ sd.u = ULit(SCR))}

CONSTANTS Seeds, ScenariosOf(_)
Init == scn \in Seeds /\ pc = "pick"
Pick == pc = "pick" /\ scn' \in ScenariosOf(scn) /\ pc' = "done"
Next == Pick
Spec == Init /\ [][Next]_vars

Recs(sc) == LET c == Compiled(sc.u, sc.o) IN [i \in 1..Len(Lines) |-> LineRec(c, Lines[i], sc.o, sc.tpl, sc.repl)]
\* the same catalogue with a CR appended to every line: a CRLF file searched WITHOUT --crlf (the CR is line content)
RecsCR(sc) == LET c == Compiled(sc.u, sc.o) IN
              IF sc.repl \/ sc.o.crlf THEN <<>> ELSE [i \in 1..Len(Lines) |-> LineRec(c, Lines[i] \o <<SCR>>, sc.o, sc.tpl, FALSE)]
\* nullable: the pattern matches the empty string.  The engine works on bytes and then reports empty matches at
\* every byte boundary, also inside a multi-byte character, which this symbol-level model does not represent:
\* the harness does not judge lines holding a multi-byte symbol for such patterns.
Nullable(sc) == LET c == Compiled(sc.u, sc.o) IN IsMatch(c.re, <<>>, c.n, Env(sc.o))
Emitted == pc = "done" => PrintT(<<"EMIT", ToJson([u |-> scn.u, o |-> scn.o, tpl |-> scn.tpl, repl |-> scn.repl, lines |-> Recs(scn), crlines |-> RecsCR(scn),
                                                      nullable |-> Nullable(scn)])>>)
EmitLines == (pc = "pick" /\ scn = CHOOSE x \in Seeds : TRUE) => PrintT(<<"LINES", ToJson([lines |-> Lines])>>)
=============================================================================

---------------------------- MODULE MCStdFormat ----------------------------
(* Scenario generation for StdFormat: the patterns, option sets and line catalogue of MCPrinter x a list of print
   configurations; one record per scenario with the expected output items of every applicable configuration. *)
EXTENDS MCPrinter, StdFormat

Cf(n, col, b, H, only, trim, M, prev, A, B) ==
  [n |-> n, col |-> col, b |-> b, H |-> H, only |-> only, trim |-> trim, M |-> M, prev |-> prev, A |-> A, B |-> B]
T == TRUE
F == FALSE
PrintCfgs == <<
  Cf(T, F, F, "none", F, F, 0, F, 0, 0),      \* -n
  Cf(F, F, F, "none", F, F, 0, F, 0, 0),      \* -N
  Cf(T, T, F, "none", F, F, 0, F, 0, 0),      \* -n --column
  Cf(T, T, T, "sep",  F, F, 0, F, 0, 0),      \* -H -n --column -b
  Cf(T, F, T, "null", F, F, 0, F, 0, 0),      \* -H --null -n -b
  Cf(T, F, F, "none", F, F, 3, F, 0, 0),      \* -n -M3
  Cf(T, T, F, "none", F, F, 3, F, 0, 0),      \* -n --column -M3
  Cf(T, F, F, "none", F, F, 3, T, 0, 0),      \* -n -M3 --max-columns-preview
  Cf(T, T, F, "none", F, F, 2, T, 0, 0),      \* -n --column -M2 --max-columns-preview
  Cf(T, T, F, "none", F, F, 1, T, 0, 0),      \* -n --column -M1 --max-columns-preview
  Cf(T, F, F, "none", F, T, 0, F, 0, 0),      \* -n --trim
  Cf(T, T, T, "none", F, T, 0, F, 0, 0),      \* -n --column -b --trim
  Cf(T, F, F, "none", F, T, 2, F, 0, 0),      \* -n --trim -M2
  Cf(T, F, F, "none", F, T, 2, T, 0, 0),      \* -n --trim -M2 --max-columns-preview
  Cf(T, T, F, "none", T, F, 0, F, 0, 0),      \* -o -n --column
  Cf(T, F, T, "sep",  T, F, 0, F, 0, 0),      \* -o -H -n -b
  Cf(T, F, F, "none", T, F, 1, F, 0, 0),      \* -o -n -M1
  Cf(T, T, F, "none", T, T, 0, F, 0, 0),      \* -o -n --column --trim
  Cf(T, F, F, "none", F, F, 0, F, 1, 1),      \* -n -C1
  Cf(T, T, T, "sep",  F, F, 0, F, 0, 1),      \* -H -n --column -b -B1
  Cf(T, F, F, "none", F, F, 3, F, 2, 0),      \* -n -A2 -M3
  Cf(T, T, F, "none", F, T, 2, F, 1, 1),      \* -n --column --trim -M2 -C1
  Cf(F, F, T, "null", F, F, 3, T, 1, 0)       \* -N -H --null -b -M3 --max-columns-preview -A1
>>

MCTrimSyms == {SSP, SCR}

Outs(sc) ==
  LET c == Compiled(sc.u, sc.o)
      allms == [i \in 1..Len(Lines) |-> MatchesOf(c, Lines[i], sc.o)]
      sel == [i \in 1..Len(Lines) |-> (allms[i] # <<>>) # sc.o.inv]
  IN [k \in 1..Len(PrintCfgs) |-> IF Applicable(PrintCfgs[k], sc.o) THEN Format(PrintCfgs[k], sel, allms, sc.o.crlf) ELSE << <<"skip">> >>]

EmittedFmt == pc = "done" => PrintT(<<"EMIT", ToJson([u |-> scn.u, o |-> scn.o, nullable |-> Nullable(scn), outs |-> Outs(scn)])>>)
EmitCfgs == (pc = "pick" /\ scn = CHOOSE x \in Seeds : TRUE) => PrintT(<<"CFGS", ToJson([cfgs |-> PrintCfgs, lines |-> Lines])>>)
=============================================================================

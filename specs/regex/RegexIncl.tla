----------------------------- MODULE RegexIncl -----------------------------
(* C11: the promises of a line-oriented matcher, decided over ALL lines (any length) over the
   symbol alphabet by exploring a finite product automaton, not by sampling text.

   Inputs (one record per pattern, read from IOEnv.PATTERNS, produced by harness matcher_dump from
   the real RegexMatcher via hook H3):
     user : the pattern as the user wrote it (Syntax.tla user AST) with its options o, fixed
     hir  : the matcher's FINAL regex (after case folding, -w/-x wrapping, terminator stripping),
            in RegexSem form over the same symbols
     lits : the literals of the fast candidate-line regex (sequence of symbol sequences), or <<>> / none
     nonmatching : the symbols the matcher declares as never occurring inside a match
   Automata: Antimirov partial derivatives with a one-symbol look-behind / look-ahead, so a state is
   (set of residual regexes, previous symbol).  Three explorations per pattern:
     "line" mode, over terminator-free lines:
        (1) NoFalseNegative : hir matches the line => some literal occurs in the line
        (3) SameLines       : user pattern (documented semantics) and hir accept exactly the same lines
     "any" mode, over all strings:
        (2) NoBadByteInMatch: no match of hir contains a declared non-matching symbol or a terminator *)
EXTENDS Syntax, TLC, Json, IOUtils

Pats == ndJsonDeserialize(IOEnv.PATTERNS)

MCWordSyms == {1, 2, 3, 4, 5, 6, 10, 11}
BND == 0
ToSet(s) == {s[i] : i \in DOMAIN s}

\* ---------------------------------------------------------------- derivatives
LookHolds2(l, p, n) ==   \* p = previous symbol, n = next symbol, BND at the ends
  CASE l = "wb"  -> IsW(p) # IsW(n)
    [] l = "nwb" -> IsW(p) = IsW(n) /\ p \notin InvalidSyms /\ n \notin InvalidSyms
    [] l = "ws"  -> ~IsW(p) /\ p \notin InvalidSyms
    [] l = "we"  -> ~IsW(n) /\ n \notin InvalidSyms
    [] l = "bot" -> p = BND
    [] l = "eot" -> n = BND
    [] l = "bol" -> p = BND \/ p = SLF
    [] l = "eol" -> n = BND \/ n = SLF
    [] l = "bolc" -> p = BND \/ p = SLF \/ (p = SCR /\ n # SLF)
    [] l = "eolc" -> n = BND \/ n = SCR \/ (n = SLF /\ p # SCR)

RECURSIVE Nullable(_, _, _)
Nullable(r, p, n) ==
  CASE r.k = "eps" -> TRUE
    [] r.k = "set" -> FALSE
    [] r.k = "cat" -> Nullable(r.a, p, n) /\ Nullable(r.b, p, n)
    [] r.k = "alt" -> Nullable(r.a, p, n) \/ Nullable(r.b, p, n)
    [] r.k = "rep" -> r.min = 0 \/ Nullable(r.a, p, n)
    [] r.k = "grp" -> Nullable(r.a, p, n)
    [] r.k = "look" -> LookHolds2(r.l, p, n)

MkCat(a, b) == IF a.k = "eps" THEN b ELSE IF b.k = "eps" THEN a ELSE [k |-> "cat", a |-> a, b |-> b]
Dec(x) == IF x = Inf THEN Inf ELSE IF x > 0 THEN x - 1 ELSE 0
RepRest(r) == IF r.max = 1 THEN Eps ELSE [k |-> "rep", a |-> r.a, min |-> Dec(r.min), max |-> Dec(r.max), g |-> TRUE]

RECURSIVE Deriv(_, _, _)
Deriv(r, p, c) ==
  CASE r.k = "eps" -> {}
    [] r.k = "look" -> {}
    [] r.k = "set" -> IF c \in ToSet(r.s) THEN {Eps} ELSE {}
    [] r.k = "cat" -> {MkCat(x, r.b) : x \in Deriv(r.a, p, c)} \cup
                      (IF Nullable(r.a, p, c) THEN Deriv(r.b, p, c) ELSE {})
    [] r.k = "alt" -> Deriv(r.a, p, c) \cup Deriv(r.b, p, c)
    [] r.k = "grp" -> Deriv(r.a, p, c)
    [] r.k = "rep" -> IF r.max = 0 THEN {} ELSE {MkCat(x, RepRest(r)) : x \in Deriv(r.a, p, c)}


\* canonical sequence of a set of symbols (ascending)
SetToSeqN(S) == LET RECURSIVE B(_, _)
                    B(i, acc) == IF i > 15 THEN acc ELSE B(i + 1, IF i \in S THEN Append(acc, i) ELSE acc)
                IN B(1, <<>>)

\* the hir arrives from JSON: sets are sequences there; ToSet above copes with both
\* the user pattern is lowered here, by the same operator C01 uses
RECURSIVE Norm(_)
Norm(r) == CASE r.k = "set" -> [k |-> "set", s |-> SetToSeqN(r.s)]
             [] r.k \in {"cat", "alt"} -> [k |-> r.k, a |-> Norm(r.a), b |-> Norm(r.b)]
             [] r.k = "rep" -> [k |-> "rep", a |-> Norm(r.a), min |-> r.min, max |-> r.max, g |-> TRUE]
             [] r.k = "grp" -> Norm(r.a)
             [] OTHER -> r
RECURSIVE Joined(_)
Joined(ps) == IF Len(ps) = 1 THEN ps[1] ELSE UAlt(UGrp(ps[1], FALSE), Joined(Tail(ps)))
\* user ASTs arrive from JSON too: class members are arrays there
RECURSIVE FromJsonU(_)
FromJsonU(u) == CASE u.k = "cls" -> UCls(ToSet(u.s), u.neg)
                  [] u.k \in {"cat", "alt"} -> [k |-> u.k, a |-> FromJsonU(u.a), b |-> FromJsonU(u.b)]
                  [] u.k = "rep" -> URep(FromJsonU(u.a), u.min, u.max, u.g)
                  [] u.k = "grp" -> UGrp(FromJsonU(u.a), u.cap)
                  [] u.k = "nou" -> UNoU(FromJsonU(u.a))
                  [] OTHER -> u
\* under --crlf the user's ^ and $ are the CRLF-aware assertions (the product evaluates looks without an environment)
RECURSIVE CrlfLooks(_)
CrlfLooks(r) == CASE r.k = "look" -> (IF r.l = "bol" THEN [r EXCEPT !.l = "bolc"] ELSE IF r.l = "eol" THEN [r EXCEPT !.l = "eolc"] ELSE r)
                  [] r.k \in {"cat", "alt"} -> [r EXCEPT !.a = CrlfLooks(r.a), !.b = CrlfLooks(r.b)]
                  [] r.k = "rep" -> [r EXCEPT !.a = CrlfLooks(r.a)]
                  [] OTHER -> r
UserSem(pt) == LET u == Norm(Wrapped(Joined([i \in 1..Len(pt.user) |-> FromJsonU(pt.user[i])]), pt.o)) IN
               IF pt.o.crlf THEN CrlfLooks(u) ELSE u

\* ---------------------------------------------------------------- the product
VARIABLES idx, mode, U, H, prev, lp, lseen, umatch, hmatch, ended, w
vars == <<idx, mode, U, H, prev, lp, lseen, umatch, hmatch, ended, w>>
View == <<idx, mode, U, H, prev, lp, lseen, umatch, hmatch, ended>>

P == Pats[idx]
TermSyms(pt) == IF pt.o.nul THEN {SNUL} ELSE IF pt.o.crlf THEN {SCR, SLF} ELSE {SLF}
\* in line mode a "line" may contain a bare CR under --crlf (only CR LF terminates)
Alpha(pt) == ToSet(pt.alpha)
LineAlphabet(pt) == Alpha(pt) \ (IF pt.o.nul THEN {SNUL} ELSE {SLF})
Bad(pt) == ToSet(pt.nonmatching) \cup TermSyms(pt)
HasLits(pt) == pt.haslits
Lits(pt) == pt.lits

Init == /\ idx \in 1..Len(Pats) /\ mode \in {"line", "any"}
        /\ Pats[idx].ok
        /\ U = {} /\ H = {} /\ prev = BND /\ lp = {} /\ lseen = FALSE
        /\ umatch = FALSE /\ hmatch = FALSE /\ ended = FALSE /\ w = <<>>

HirP == P.hir
UThreads == U \cup {UserSem(P)}
HThreads == H \cup {[r |-> HirP, bad |-> FALSE]}

Consume(c) ==
  /\ ~ended
  /\ umatch' = IF mode = "line" THEN (umatch \/ \E x \in UThreads : Nullable(x, prev, c)) ELSE FALSE
  /\ hmatch' = (hmatch \/ \E x \in HThreads : Nullable(x.r, prev, c))
  /\ U' = IF mode = "line" THEN UNION {Deriv(x, prev, c) : x \in UThreads} ELSE {}
  /\ H' = UNION { {[r |-> y, bad |-> (mode = "any" /\ (x.bad \/ c \in Bad(P)))] : y \in Deriv(x.r, prev, c)} : x \in HThreads }
  /\ prev' = c
  /\ IF mode = "line" /\ HasLits(P)
     THEN LET L == Lits(P)
              starts == {<<i, 0>> : i \in 1..Len(L)}
              adv == {<<q[1], q[2] + 1>> : q \in {q \in (lp \cup starts) : q[2] < Len(L[q[1]]) /\ L[q[1]][q[2] + 1] = c}}
          IN /\ lp' = {q \in adv : q[2] < Len(L[q[1]])}
             /\ lseen' = (lseen \/ \E q \in adv : q[2] = Len(L[q[1]]))
     ELSE UNCHANGED <<lp, lseen>>
  /\ w' = Append(w, c)
  /\ UNCHANGED <<idx, mode, ended>>

End ==
  /\ ~ended /\ ended' = TRUE
  /\ umatch' = IF mode = "line" THEN (umatch \/ \E x \in UThreads : Nullable(x, prev, BND)) ELSE FALSE
  /\ hmatch' = (hmatch \/ \E x \in HThreads : Nullable(x.r, prev, BND))
  /\ lseen' = (lseen \/ (mode = "line" /\ HasLits(P) /\ \E i \in 1..Len(Lits(P)) : Lits(P)[i] = <<>>))
  /\ UNCHANGED <<idx, mode, U, H, prev, lp, w>>

Next == End \/ \E c \in (IF mode = "line" THEN LineAlphabet(P) ELSE Alpha(P) \cup Bad(P)) : Consume(c)
Spec == Init /\ [][Next]_vars

\* ---------------------------------------------------------------- the promises
\* (1) the candidate search never passes over a line that contains a match
NoFalseNegative == (mode = "line" /\ ended /\ HasLits(P) /\ hmatch) => lseen
\* (3) the matcher's final regex accepts exactly the lines the user's pattern accepts
SameLines == (mode = "line" /\ ended) => (umatch = hmatch)
\* (2) a match never contains a declared non-matching symbol or the terminator: a thread that has
\*     consumed one must not be able to complete
BadThreadCompletes(n) == \E x \in H : x.bad /\ Nullable(x.r, prev, n)
NoBadByteInMatch == (mode = "any") => ~(\E n \in Alpha(P) \cup Bad(P) \cup {BND} : BadThreadCompletes(n))

Witness(kind) == PrintT(<<"WITNESS", ToJson([id |-> P.id, kind |-> kind, line |-> w])>>)
Check1 == NoFalseNegative \/ Witness("false_negative")
Check2 == NoBadByteInMatch \/ Witness("bad_byte_in_match")
Check3 == SameLines \/ Witness("altered")
\* the checks print their witness and let the exploration continue (one TLC run decides a whole batch)
Checks == Check1 /\ Check2 /\ Check3
=============================================================================

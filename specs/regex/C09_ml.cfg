SPECIFICATION Spec
CONSTANTS
  WordSyms <- MCWordSyms
  InvalidSyms = {12}
  CR = 13
  LF = 14
  MaxLen = 4
  CtxMax = 0
  WithPlans = FALSE
  WithCrlf = FALSE
INVARIANT EmittedWithMatches

---------------------------- MODULE MCLineMatch ----------------------------
EXTENDS LineMatch, SequencesExt

SeqsUpTo(S, n) == UNION {[1..k -> S] : k \in 0..n}

LineSyms == {SA, SB, SUA, SSP, SDOT, SEA}
Specials == { <<SFF>>, <<SA, SFF, SA>>, <<SCR>>, <<SA, SCR>>, <<SA, SCR, SB>>, <<SUS, SD0>>, <<SA, SDASH, SB>>,
              <<SUEA>>, <<SUB, SB>>, <<SA, SB, SA, SB>>, <<SB, SA, SA, SB>>, <<SSP, SB, SA, SB>>,
              <<SA, SB>> \o [i \in 1..12 |-> SA] \o <<SB>>, <<SB>> \o [i \in 1..12 |-> SA] \o <<SB, SSP, SA>>, <<SA, SB>> \o [i \in 1..11 |-> SA] \o <<SB>>, <<SB, SA, SSP, SA, SB>>, <<SEA, SA>>, <<SA, SEA>> }
MCLines == SetToSeq(SeqsUpTo(LineSyms, 3) \cup Specials)

LitSyms == {SA, SB, SUA, SDOT, SEA, SUEA}
Leaves == {ULit(c) : c \in LitSyms}
          \cup {UDot, UCls({SA, SB}, FALSE), UCls({SA}, TRUE), UCls({SUA, SEA}, FALSE), UWCls(FALSE), UWCls(TRUE), UPosix(TRUE), UPosix(FALSE)}
Looks == {ULook("bol"), ULook("eol"), ULook("wb"), ULook("nwb")}
RepsOf(x) == {URep(x, 0, Inf, TRUE), URep(x, 1, Inf, TRUE), URep(x, 0, 1, TRUE), URep(x, 0, Inf, FALSE), URep(x, 2, 2, TRUE)}
L0 == Leaves \cup Looks
L1 == L0 \cup UNION {RepsOf(x) : x \in Leaves}
L2 == L1 \cup {UCat(x, y) : x \in L1, y \in L0} \cup {UAlt(x, y) : x \in L0, y \in L0}
          \cup {UCat(UGrp(UAlt(x, y), TRUE), z) : x \in Leaves, y \in Leaves, z \in {ULit(SA), ULook("wb")}}

\* literal strings for -F (meta characters are literal there)
FixedStrs == {s \in SeqsUpTo({SA, SUA, SDOT, SSP}, 2) : s # <<>>}
RECURSIVE LitCat(_)
LitCat(s) == IF Len(s) = 1 THEN ULit(s[1]) ELSE UCat(ULit(s[1]), LitCat(Tail(s)))

Opt(ci, smart, word, line, crlf, nul, inv) ==
  [ci |-> ci, smart |-> smart, word |-> word, line |-> line, crlf |-> crlf, nul |-> nul, inv |-> inv, dotall |-> FALSE]
Plain == Opt(FALSE, FALSE, FALSE, FALSE, FALSE, FALSE, FALSE)
OptSets == { Plain, [Plain EXCEPT !.ci = TRUE], [Plain EXCEPT !.smart = TRUE], [Plain EXCEPT !.word = TRUE],
             [Plain EXCEPT !.line = TRUE], [Plain EXCEPT !.inv = TRUE], [Plain EXCEPT !.crlf = TRUE],
             [Plain EXCEPT !.word = TRUE, !.ci = TRUE], [Plain EXCEPT !.line = TRUE, !.inv = TRUE],
             [Plain EXCEPT !.crlf = TRUE, !.line = TRUE], [Plain EXCEPT !.smart = TRUE, !.word = TRUE],
             [Plain EXCEPT !.nul = TRUE], [Plain EXCEPT !.nul = TRUE, !.inv = TRUE] }

Fams == {"l1", "cat", "alt", "grp", "fixed", "two"}
\* C11: matcher-level option sets (inversion is not a matcher option) and extra families
MatcherOptSets == {o \in OptSets : ~o.inv} \cup {[Plain EXCEPT !.nul = TRUE], [Plain EXCEPT !.ci = TRUE, !.crlf = TRUE],
                                                 [Plain EXCEPT !.word = TRUE, !.crlf = TRUE]}
C11Fams == Fams \cup {"lf", "inner", "innerq", "altlit", "nou", "manylf"}
C11Seeds == {[o |-> o, fam |-> f, pats |-> <<>>, fixed |-> FALSE] : o \in MatcherOptSets, f \in C11Fams}
C11SeedsQuick == {s \in C11Seeds : s.fam \in {"l1", "alt", "grp", "lf", "inner", "innerq", "two", "altlit", "nou", "manylf"}}
WPlus == URep(UWCls(FALSE), 1, Inf, TRUE)
NWStar == URep(UWCls(TRUE), 0, Inf, TRUE)
NWPlus == URep(UWCls(TRUE), 1, Inf, TRUE)
QuickOptSets == { Plain, [Plain EXCEPT !.ci = TRUE], [Plain EXCEPT !.crlf = TRUE], [Plain EXCEPT !.word = TRUE],
                  [Plain EXCEPT !.line = TRUE, !.inv = TRUE], [Plain EXCEPT !.smart = TRUE, !.word = TRUE],
                  [Plain EXCEPT !.nul = TRUE], [Plain EXCEPT !.crlf = TRUE, !.line = TRUE] }
MCSeeds == {[o |-> o, fam |-> f, pats |-> <<>>, fixed |-> FALSE] : o \in OptSets, f \in Fams \cup {"altlit"}}
MCSeedsQuick == {[o |-> o, fam |-> f, pats |-> <<>>, fixed |-> FALSE] : o \in QuickOptSets, f \in (Fams \ {"cat"}) \cup {"catq", "innerq", "altlit"}}
Sc(ps, o, fx) == [pats |-> ps, o |-> o, fixed |-> fx, fam |-> "", sel |-> <<>>]
MCPatternsOf(sd) ==
  LET o == sd.o IN
  CASE sd.fam = "l1" -> {[sd EXCEPT !.pats = <<x>>] : x \in L1}
    [] sd.fam = "cat" -> {[sd EXCEPT !.pats = <<UCat(x, y)>>] : x \in L1, y \in L0}
    [] sd.fam = "catq" -> {[sd EXCEPT !.pats = <<UCat(x, y)>>] : x \in L1, y \in {ULit(SA), ULook("wb"), UDot, ULit(SUEA)}}
    [] sd.fam = "alt" -> {[sd EXCEPT !.pats = <<UAlt(x, y)>>] : x \in L0, y \in L0}
    [] sd.fam = "grp" -> {[sd EXCEPT !.pats = <<UCat(UGrp(UAlt(x, y), TRUE), z)>>] : x \in Leaves, y \in Leaves, z \in {ULit(SA), ULook("wb")}}
    [] sd.fam = "fixed" -> {[sd EXCEPT !.pats = <<LitCat(s)>>, !.fixed = TRUE] : s \in FixedStrs}
    [] sd.fam = "lf" -> {[sd EXCEPT !.pats = <<x>>] : x \in {ULit(SLF), UCat(ULit(SA), UCat(ULit(SLF), ULit(SB))), UAlt(ULit(SA), ULit(SLF)),
                                                              UCls({SA, SLF}, FALSE), UCat(ULit(SA), URep(ULit(SLF), 0, 1, TRUE)), UCls({SA}, TRUE),
                                                              UCat(URep(UCls({SA}, TRUE), 1, Inf, TRUE), ULit(SB)), ULit(SCR), UCat(ULit(SA), ULit(SCR)),
                                                              \* behind a text anchor (such patterns have no terminator to report, but the promise stands)
                                                              UCat(ULook("bot"), UCat(ULit(SA), UCat(ULit(SLF), ULit(SB)))),
                                                              UCat(ULook("bot"), UCat(ULit(SA), UCat(UWCls(TRUE), ULit(SB)))),
                                                              UCat(ULit(SA), UCat(UCls({SA}, TRUE), UCat(ULit(SB), ULook("eot")))),
                                                              \* the terminator next to a byte that is not UTF-8, in byte mode
                                                              UNoU(UCat(ULit(SFF), ULit(SLF))), UNoU(UCat(ULit(SA), UCat(ULit(SFF), ULit(SLF))))}}
                         \* the same as fixed strings (-F): a literal holding the terminator must be rejected, not searched for
                         \cup {[sd EXCEPT !.pats = <<LitCat(s)>>, !.fixed = TRUE] :
                                 s \in {<<SA, SLF, SB>>, <<SLF>>, <<SA, SLF>>, <<SA, SCR, SB>>, <<SA, SNUL, SB>>, <<SDOT, SLF>>}}
    [] sd.fam = "inner" -> {[sd EXCEPT !.pats = <<UCat(x, UCat(y, z))>>] :
                              x \in {WPlus, URep(UDot, 0, Inf, TRUE), URep(UCls({SA, SB}, FALSE), 1, Inf, TRUE), ULook("wb"), UCat(WPlus, ULit(SB))},
                              y \in {UCat(ULit(SA), ULit(SB)), UGrp(UAlt(UCat(ULit(SA), ULit(SB)), ULit(SUA)), TRUE), UCat(ULit(SEA), ULit(SA)),
                                     URep(ULit(SA), 2, 2, TRUE), URep(ULit(SA), 12, 12, TRUE), URep(ULit(SA), 0, 2, TRUE), URep(ULit(SA), 1, 3, TRUE), UAlt(ULit(SB), UCat(ULit(SA), ULook("wb")))},
                              z \in {WPlus, URep(UDot, 0, Inf, TRUE), ULit(SB), ULook("wb"), URep(ULit(SB), 0, 1, TRUE)}}
    [] sd.fam = "innerq" -> {[sd EXCEPT !.pats = <<UCat(x, UCat(y, ULit(SB)))>>] :
                               x \in {UCat(WPlus, ULit(SB)), ULook("wb"), ULit(SB), UCat(ULook("wb"), ULit(SB))},
                               y \in {URep(ULit(SA), 12, 12, TRUE), URep(ULit(SA), 0, 2, TRUE), URep(ULit(SA), 2, 2, TRUE), URep(ULit(SA), 1, 3, TRUE)}}
    \* a literal, a group of alternatives of which some hold a literal and some none, a literal:  \ba(\W*A\W*|\W+)b
    [] sd.fam = "altlit" -> {[sd EXCEPT !.pats = <<UCat(x, UCat(ULit(SA), UCat(UGrp(y, TRUE), ULit(SB))))>>] :
                               x \in {ULook("wb"), WPlus, URep(UDot, 0, 1, TRUE)},
                               y \in {UAlt(UCat(NWStar, UCat(ULit(SUA), NWStar)), NWPlus), UAlt(NWPlus, UCat(NWStar, ULit(SUA))),
                                      UAlt(UCat(URep(ULit(SSP), 0, Inf, TRUE), ULit(SDOT)), URep(ULit(SSP), 1, Inf, TRUE)),
                                      UAlt(UCat(NWStar, ULit(SUA)), UAlt(ULit(SDOT), NWPlus)),
                                      UAlt(UCat(ULit(SUA), ULit(SDOT)), URep(UDot, 0, Inf, TRUE)),
                                      \* an optional group "unbounded part, then a literal" as a direct branch:  \ba((?:\w+A)?|\.)b
                                      UAlt(URep(UCat(WPlus, ULit(SUA)), 0, 1, TRUE), ULit(SDOT)),
                                      UAlt(ULit(SDOT), URep(UCat(WPlus, ULit(SUA)), 0, 1, TRUE)),
                                      UAlt(URep(UCat(NWPlus, ULit(SUA)), 0, Inf, TRUE), ULit(SDOT))}}
    \* byte-mode classes ((?-u:...)): the dot and negated classes range over every byte, the terminator among them
    [] sd.fam = "nou" -> {[sd EXCEPT !.pats = <<UNoU(x)>>] :
                            x \in {UCat(ULit(SA), UCat(UDot, ULit(SB))), UCls({SA}, TRUE), UCat(ULit(SA), UCls({SB}, TRUE)), UWCls(TRUE),
                                   UCat(ULit(SA), UWCls(TRUE)), URep(UDot, 1, Inf, TRUE), UCls({SA, SLF}, FALSE), UCls({SNUL, SA}, FALSE),
                                   UCat(ULit(SA), UCat(UCls({SCR, SLF, SB}, FALSE), ULit(SB))), UCls({SLF, SCR}, FALSE), UDot,
                                   \* a small byte class with a member above 0x7F between literals (inner literals are bytes, not characters)
                                   UCat(WPlus, UCat(ULit(SA), UCat(UCls({SFF, SB}, FALSE), UCat(ULit(SB), WPlus)))),
                                   UCat(WPlus, UCat(ULit(SA), UCat(ULit(SB), UCat(UCls({SFF, SB}, FALSE), UCat(ULit(SA), UCat(ULit(SB), WPlus)))))),
                                   UCat(NWPlus, UCat(UGrp(UAlt(UCat(ULit(SA), UCat(ULit(SB), UCat(UCls({SFF, SUA}, FALSE), UCat(ULit(SA), ULit(SB))))),
                                                          UCat(ULit(SUB), UCat(ULit(SA), ULit(SUA)))), TRUE), NWPlus))}}
    \* several patterns of which only some hold the raw terminator byte (as fixed strings and as regexes without meta
    \* characters): the set must be rejected, or no match may hold the terminator
    [] sd.fam = "manylf" -> {[sd EXCEPT !.pats = ps, !.fixed = fx] : fx \in BOOLEAN,
                               ps \in {<<ULit(SA), LitCat(<<SB, SLF, SA>>)>>, <<LitCat(<<SB, SLF, SA>>), ULit(SA)>>,
                                       <<ULit(SA), ULit(SB), LitCat(<<SA, SLF>>)>>, <<LitCat(<<SLF, SB>>), ULit(SA), ULit(SB)>>,
                                       <<ULit(SA), LitCat(<<SB, SCR, SA>>)>>, <<LitCat(<<SA, SNUL, SB>>), ULit(SB)>>,
                                       <<LitCat(<<SA, SB>>), ULit(SLF)>>}}
    [] sd.fam = "two" -> {[sd EXCEPT !.pats = <<x, y>>] : x \in Leaves, y \in {ULit(SUA), ULit(SB), UCat(ULit(SA), ULit(SB))}}
                         \* two patterns whose texts differ only in the case of a letter
                         \cup {[sd EXCEPT !.pats = pr] : pr \in {<<UWCls(FALSE), UWCls(TRUE)>>, <<UWCls(TRUE), UWCls(FALSE)>>,
                                                                 <<ULook("wb"), ULook("nwb")>>, <<ULook("nwb"), ULook("wb")>>,
                                                                 <<UCat(ULit(SA), UWCls(TRUE)), UCat(ULit(SUA), UWCls(FALSE))>>}}
MCWordSyms == {1, 2, 3, 4, 5, 6, 10, 11}
\* records of --null-data searches that hold line feeds ((?m)^ and $ still refer to LF inside a record)
MCLinesNulLF == SetToSeq(SeqsUpTo({SA, SB, SLF}, 3) \cup {<<SA, SLF, SLF, SB>>, <<SLF, SA, SLF>>, <<SB, SLF, SA, SB>>})
NulSeeds == {[o |-> [Plain EXCEPT !.nul = TRUE], fam |-> f, pats |-> <<>>, fixed |-> FALSE] : f \in {"l1", "alt"}}
TinySeeds == {[o |-> Plain, fam |-> "fixed", pats |-> <<>>, fixed |-> FALSE]}
=============================================================================

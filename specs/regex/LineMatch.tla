----------------------------- MODULE LineMatch -----------------------------
(* C01: which lines of an input are reported.  TLC enumerates user patterns from a bounded grammar
   and option sets, evaluates the documented semantics (Syntax!LineMatches) on every line of a fixed
   catalogue of line contents, and emits the expected selection for replay on the real `rg`.      *)
EXTENDS Syntax, TLC, Json

CONSTANTS Lines,        \* sequence of line contents (sequences of symbols, none containing the terminator)
          Seeds,        \* set of seeds [o |-> opts, fam |-> pattern family name]
          PatternsOf(_) \* seed -> set of scenarios [pats |-> sequence of user ASTs, o |-> opts, fixed |-> BOOLEAN]

VARIABLES scn, pc
vars == <<scn, pc>>

Init == scn \in Seeds /\ pc = "pick"
Pick == pc = "pick" /\ scn' \in PatternsOf(scn) /\ pc' = "done"
Next == Pick
Spec == Init /\ [][Next]_vars

\* several -e patterns behave as their alternation (each in its own non-capturing group)
RECURSIVE Joined(_)
Joined(ps) == IF Len(ps) = 1 THEN ps[1] ELSE UAlt(UGrp(ps[1], FALSE), Joined(Tail(ps)))

Selected(sc) == LET u == Joined(sc.pats) IN
                SelectSeq([i \in 1..Len(Lines) |-> IF LineMatches(u, sc.o, Lines[i]) THEN i ELSE 0], LAMBDA x : x > 0)

Emitted == pc = "done" => PrintT(<<"EMIT", ToJson([pats |-> scn.pats, o |-> scn.o, fixed |-> scn.fixed, sel |-> Selected(scn),
                                                      cieff |-> CaseInsensitive(Joined(scn.pats), scn.o)])>>)
\* patterns only (C11 reuses the generator; the outcome is decided by RegexIncl)
EmittedPat == pc = "done" => PrintT(<<"EMIT", ToJson([pats |-> scn.pats, o |-> scn.o, fixed |-> scn.fixed])>>)
EmitLines == (pc = "pick" /\ scn = CHOOSE x \in Seeds : TRUE) => PrintT(<<"LINES", ToJson([lines |-> Lines])>>)
=============================================================================

------------------------------- MODULE Syntax -------------------------------
(* The user-level pattern syntax (what is typed after `rg`), its option semantics and its lowering to
   RegexSem.  Symbols (rendered to bytes by the harness, see lib/regexrender.py):
     1 a  2 b  3 A  4 B  5 _  6 0  7 space  8 -  9 .  10 e-acute  11 E-acute  12 invalid byte FF
     13 CR  14 LF  15 NUL
   User AST:
     [k |-> "lit", c]  [k |-> "cls", s, neg]  [k |-> "wcls", neg]  [k |-> "dot"]  [k |-> "pcls", up]
     [k |-> "cat", a, b]  [k |-> "alt", a, b]  [k |-> "rep", a, min, max, g]
     [k |-> "grp", a, cap]  [k |-> "look", l]   l \in {"bol","eol","wb","nwb","bot"}
   opts: [ci, smart, word, line, crlf, nul, inv, dotall \in BOOLEAN]                                  *)
EXTENDS RegexSem

SA == 1  SB == 2  SUA == 3  SUB == 4  SUS == 5  SD0 == 6  SSP == 7  SDASH == 8  SDOT == 9
SEA == 10  SUEA == 11  SFF == 12  SCR == 13  SLF == 14  SNUL == 15

AllSyms == 1..15
ValidSyms == AllSyms \ {SFF}           \* what `.` and negated classes range over (valid scalar values)
Upper == {SUA, SUB, SUEA}
Fold(c) == CASE c = SA -> {SA, SUA} [] c = SUA -> {SA, SUA} [] c = SB -> {SB, SUB} [] c = SUB -> {SB, SUB}
             [] c = SEA -> {SEA, SUEA} [] c = SUEA -> {SEA, SUEA} [] OTHER -> {c}
FoldSet(S) == UNION {Fold(c) : c \in S}

ULit(c) == [k |-> "lit", c |-> c]
UCls(s, neg) == [k |-> "cls", s |-> s, neg |-> neg]
UWCls(neg) == [k |-> "wcls", neg |-> neg]
UDot == [k |-> "dot"]
UNoU(x) == [k |-> "nou", a |-> x]       \* (?-u:x): classes and the dot range over BYTES (only used on lines without multi-byte symbols)
UPosix(up) == [k |-> "pcls", up |-> up]      \* [[:upper:]] / [[:lower:]]: ASCII letters of one case; NOT a literal for smart case
UCat(a, b) == [k |-> "cat", a |-> a, b |-> b]
UAlt(a, b) == [k |-> "alt", a |-> a, b |-> b]
URep(a, mn, mx, g) == [k |-> "rep", a |-> a, min |-> mn, max |-> mx, g |-> g]
UGrp(a, cap) == [k |-> "grp", a |-> a, cap |-> cap]
ULook(l) == [k |-> "look", l |-> l]

\* smart case (crates/regex/src/ast.rs): literals inside classes count
RECURSIVE AnyLit(_), AnyUpper(_)
AnyLit(u) == CASE u.k = "lit" -> TRUE [] u.k = "cls" -> u.s # {}
               [] u.k \in {"cat", "alt"} -> AnyLit(u.a) \/ AnyLit(u.b)
               [] u.k \in {"rep", "grp", "nou"} -> AnyLit(u.a) [] OTHER -> FALSE
AnyUpper(u) == CASE u.k = "lit" -> u.c \in Upper [] u.k = "cls" -> u.s \cap Upper # {}
                 [] u.k \in {"cat", "alt"} -> AnyUpper(u.a) \/ AnyUpper(u.b)
                 [] u.k \in {"rep", "grp", "nou"} -> AnyUpper(u.a) [] OTHER -> FALSE
CaseInsensitive(u, o) == o.ci \/ (o.smart /\ AnyLit(u) /\ ~AnyUpper(u))

\* (?m)^ and $ always refer to \n (or CRLF), also under --null-data, where a "line" may contain \n
Env(o) == [crlf |-> o.crlf, lt |-> SLF]

\* number capture groups left to right; returns <<sem, next group index>>
\* inside (?-u:...): a class item is one byte; every single-byte symbol - the invalid byte included - is a candidate
RECURSIVE LowerB(_, _, _, _)
ByteSyms == AllSyms \ {SEA, SUEA}
AsciiWord == WordSyms \ {SEA, SUEA}
LowerB(u, ci, o, g) ==
  CASE u.k = "lit" -> << Set(IF ci THEN Fold(u.c) ELSE {u.c}), g >>
    [] u.k = "cls" -> LET s1 == IF ci THEN FoldSet(u.s) ELSE u.s IN << Set(IF u.neg THEN ByteSyms \ s1 ELSE s1), g >>
    [] u.k = "wcls" -> << Set(IF u.neg THEN ByteSyms \ AsciiWord ELSE AsciiWord), g >>
    [] u.k = "dot" -> << Set(IF o.dotall THEN ByteSyms ELSE ByteSyms \ ({SLF} \cup (IF o.crlf THEN {SCR} ELSE {}))), g >>
    [] u.k = "cat" -> LET x == LowerB(u.a, ci, o, g) y == LowerB(u.b, ci, o, x[2]) IN << Cat(x[1], y[1]), y[2] >>
    [] u.k = "alt" -> LET x == LowerB(u.a, ci, o, g) y == LowerB(u.b, ci, o, x[2]) IN << Alt(x[1], y[1]), y[2] >>
    [] u.k = "rep" -> LET x == LowerB(u.a, ci, o, g) IN << Rep(x[1], u.min, u.max, u.g), x[2] >>
    [] u.k = "grp" -> IF u.cap THEN LET x == LowerB(u.a, ci, o, g + 1) IN << Grp(g, x[1]), x[2] >>
                      ELSE LowerB(u.a, ci, o, g)

RECURSIVE Lower(_, _, _, _)
Lower(u, ci, o, g) ==
  CASE u.k = "lit" -> << Set(IF ci THEN Fold(u.c) ELSE {u.c}), g >>
    [] u.k = "cls" -> LET s1 == IF ci THEN FoldSet(u.s) ELSE u.s IN
                      << Set(IF u.neg THEN ValidSyms \ s1 ELSE s1), g >>
    [] u.k = "wcls" -> << Set(IF u.neg THEN ValidSyms \ WordSyms ELSE WordSyms), g >>
    [] u.k = "pcls" -> << Set(IF ci THEN {SA, SB, SUA, SUB} ELSE IF u.up THEN {SUA, SUB} ELSE {SA, SB}), g >>
    [] u.k = "dot" -> << Set(IF o.dotall THEN ValidSyms ELSE ValidSyms \ ({SLF} \cup (IF o.crlf THEN {SCR} ELSE {}))), g >>
    [] u.k = "cat" -> LET x == Lower(u.a, ci, o, g) y == Lower(u.b, ci, o, x[2]) IN << Cat(x[1], y[1]), y[2] >>
    [] u.k = "alt" -> LET x == Lower(u.a, ci, o, g) y == Lower(u.b, ci, o, x[2]) IN << Alt(x[1], y[1]), y[2] >>
    [] u.k = "rep" -> LET x == Lower(u.a, ci, o, g) IN << Rep(x[1], u.min, u.max, u.g), x[2] >>
    [] u.k = "grp" -> IF u.cap THEN LET x == Lower(u.a, ci, o, g + 1) IN << Grp(g, x[1]), x[2] >>
                      ELSE Lower(u.a, ci, o, g)
    [] u.k = "look" -> << Look(u.l), g >>
    [] u.k = "nou" -> LowerB(u.a, ci, o, g)

\* the pattern as the matcher must behave: case folding, then -x / -w wrapping (-x wins over -w)
Wrapped(u, o) ==
  LET p == Lower(u, CaseInsensitive(u, o), o, 1)[1] IN
  IF o.line THEN Cat(Look("bol"), Cat(p, Look("eol")))
  ELSE IF o.word THEN Cat(Look("ws"), Cat(p, Look("we")))
  ELSE p
NGroups(u, o) == Lower(u, FALSE, o, 1)[2] - 1

\* C01: a line is selected iff the wrapped pattern matches its content, complemented under -v
LineMatches(u, o, content) == IsMatch(Wrapped(u, o), content, NGroups(u, o), Env(o)) # o.inv
=============================================================================

SPECIFICATION Spec
CONSTANTS
  WordSyms <- MCWordSyms
  InvalidSyms = {12}
  CR = 13
  LF = 14
  Lines <- MCLinesNulLF
  Seeds <- NulSeeds
  PatternsOf <- MCPatternsOf
INVARIANTS Emitted EmitLines

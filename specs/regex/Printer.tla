------------------------------ MODULE Printer ------------------------------
(* C09 / C10 / C19: what the printers must show, as data computed from the documented semantics.
   For a scenario (patterns, options, replacement template) and a catalogue of line contents the
   spec gives, per line: whether it is selected, the successive matches (byte offsets inside the
   line, via symbol widths), capture groups, the line after replace-all and the per-match
   expansions.  Formatting those data as rg's text / JSON output is left to the harness.

   Replacement templates are sequences of template characters (see TC* below); expansion follows
   the regex library's rules as transcribed in crates/matcher/src/interpolate.rs.               *)
EXTENDS Syntax, TLC, Json

CONSTANTS Lines,         \* catalogue: sequence of line contents (symbol sequences)
          Width(_)       \* bytes per symbol

\* template characters
TCDollar == 1  TCOpen == 2  TCClose == 3  TC1 == 4  TC2 == 5  TCx == 6  TCDash == 7  TC0 == 8  TCa == 9  TCUnd == 10
TC4 == 11  TC9 == 12  TC6 == 13  TC7 == 14   \* further digits, only for group numbers beyond u32 (picked templates)
IsCapLetter(c) == c \in {TC1, TC2, TCx, TC0, TCa, TCUnd, TC4, TC9, TC6, TC7}      \* [0-9A-Za-z_]
IsDigit(c) == c \in {TC1, TC2, TC0, TC4, TC9, TC6, TC7}
DigitVal(c) == CASE c = TC1 -> 1 [] c = TC2 -> 2 [] c = TC4 -> 4 [] c = TC9 -> 9 [] c = TC6 -> 6 [] c = TC7 -> 7 [] OTHER -> 0

\* ---- named groups: user AST node [k |-> "ngrp", a, name]; numbering left to right with "grp"
RECURSIVE LowerN(_, _, _, _)
LowerN(u, ci, o, g) ==   \* like Syntax!Lower but knows "ngrp"; returns <<sem, next index, names>>
  CASE u.k = "ngrp" -> LET x == LowerN(u.a, ci, o, g + 1) IN << Grp(g, x[1]), x[2], x[3] \cup {<<u.name, g>>} >>
    [] u.k = "grp" -> IF u.cap THEN LET x == LowerN(u.a, ci, o, g + 1) IN << Grp(g, x[1]), x[2], x[3] >>
                      ELSE LowerN(u.a, ci, o, g)
    [] u.k \in {"cat", "alt"} -> LET x == LowerN(u.a, ci, o, g) y == LowerN(u.b, ci, o, x[2]) IN
                                 << [k |-> u.k, a |-> x[1], b |-> y[1]], y[2], x[3] \cup y[3] >>
    [] u.k = "rep" -> LET x == LowerN(u.a, ci, o, g) IN << Rep(x[1], u.min, u.max, u.g), x[2], x[3] >>
    [] OTHER -> LET x == Lower(u, ci, o, g) IN << x[1], x[2], {} >>

RECURSIVE AnyLitN(_), AnyUpperN(_)
AnyLitN(u) == IF u.k = "ngrp" THEN AnyLitN(u.a) ELSE IF u.k \in {"cat", "alt"} THEN AnyLitN(u.a) \/ AnyLitN(u.b)
              ELSE IF u.k \in {"rep", "grp"} THEN AnyLitN(u.a) ELSE AnyLit(u)
AnyUpperN(u) == IF u.k = "ngrp" THEN AnyUpperN(u.a) ELSE IF u.k \in {"cat", "alt"} THEN AnyUpperN(u.a) \/ AnyUpperN(u.b)
                ELSE IF u.k \in {"rep", "grp"} THEN AnyUpperN(u.a) ELSE AnyUpper(u)

Compiled(u, o) ==
  LET ci == o.ci \/ (o.smart /\ AnyLitN(u) /\ ~AnyUpperN(u))
      x == LowerN(u, ci, o, 1)
      p == x[1]
      w == IF o.line THEN Cat(Look("bol"), Cat(p, Look("eol")))
           ELSE IF o.word THEN Cat(Look("ws"), Cat(p, Look("we"))) ELSE p
  IN [re |-> w, n |-> x[2] - 1, names |-> x[3]]

\* ---- matches of a line's content
MatchesOf(c, content, o) == FindIter(c.re, content, c.n, Env(o))

RECURSIVE Bytes(_, _)
Bytes(content, p) == IF p = 0 THEN 0 ELSE Bytes(content, p - 1) + Width(content[p])   \* byte offset of symbol position p

\* ---- interpolation (interpolate.rs)
\* out items: <<"s", symbol>> for haystack symbols, <<"t", template char>> for literal template text
Sub(content, a, b) == [i \in 1..(b - a) |-> <<"s", content[a + i]>>]

CapText(m, idx, content) ==   \* m = <<start, end, caps>>; group 0 is the whole match
  IF idx = 0 THEN Sub(content, m[1], m[2])
  ELSE IF idx > Len(m[3]) \/ m[3][idx] = <<>> THEN <<>>
  ELSE Sub(content, m[3][idx][1], m[3][idx][2])

NameIndex(names, nm) == LET hit == {p \in names : p[1] = nm} IN IF hit = {} THEN 99 ELSE (CHOOSE p \in hit : TRUE)[2]

RECURSIVE NumVal(_, _)
\* saturating at 99 = "no such group": a number that does not fit the group index type names no group (it is then looked up
\* as a name, which no group has), and TLC's integers are 32-bit as well
NumVal(ds, acc) == IF ds = <<>> THEN acc
                   ELSE LET v == acc * 10 + DigitVal(Head(ds)) IN NumVal(Tail(ds), IF v > 99 THEN 99 ELSE v)

\* name (sequence of cap letters) -> group index, or 99 when there is no such group
RefIndex(nameSeq, names) ==
  IF \A i \in 1..Len(nameSeq) : IsDigit(nameSeq[i]) THEN NumVal(nameSeq, 0)
  ELSE IF nameSeq = <<TCx>> THEN NameIndex(names, "x") ELSE 99

RECURSIVE Expand(_, _, _, _)
Expand(tpl, m, content, names) ==
  IF tpl = <<>> THEN <<>>
  ELSE IF Head(tpl) # TCDollar THEN << <<"t", Head(tpl)>> >> \o Expand(Tail(tpl), m, content, names)
  ELSE IF Len(tpl) >= 2 /\ tpl[2] = TCDollar THEN << <<"t", TCDollar>> >> \o Expand(SubSeq(tpl, 3, Len(tpl)), m, content, names)
  ELSE \* find_cap_ref
       LET brace == Len(tpl) >= 2 /\ tpl[2] = TCOpen
           i0 == IF brace THEN 3 ELSE 2
           RECURSIVE EndOf(_)
           EndOf(j) == IF j <= Len(tpl) /\ IsCapLetter(tpl[j]) THEN EndOf(j + 1) ELSE j
           e == EndOf(i0)
           okref == e > i0 /\ (~brace \/ (e <= Len(tpl) /\ tpl[e] = TCClose))
       IN IF Len(tpl) <= 1 \/ ~okref
          THEN << <<"t", TCDollar>> >> \o Expand(Tail(tpl), m, content, names)
          ELSE LET nm == SubSeq(tpl, i0, e - 1)
                   idx == RefIndex(nm, names)
                   rest == SubSeq(tpl, IF brace THEN e + 1 ELSE e, Len(tpl))
               IN CapText(m, idx, content) \o Expand(rest, m, content, names)

\* replace-all of one line
ReplaceAll(content, ms, tpl, names) ==
  LET RECURSIVE Go(_, _)
      Go(i, last) == IF i > Len(ms) THEN Sub(content, last, Len(content))
                     ELSE Sub(content, last, ms[i][1]) \o Expand(tpl, ms[i], content, names) \o Go(i + 1, ms[i][2])
  IN Go(1, 0)

\* ---- per-line record
LineRec(c, content, o, tpl, withRepl) ==
  LET ms == MatchesOf(c, content, o) IN
  [ sel |-> (ms # <<>>) # o.inv,
    m |-> [i \in 1..Len(ms) |-> <<Bytes(content, ms[i][1]), Bytes(content, ms[i][2])>>],
    r |-> IF withRepl THEN ReplaceAll(content, ms, tpl, c.names) ELSE <<>>,
    ro |-> IF withRepl THEN [i \in 1..Len(ms) |-> Expand(tpl, ms[i], content, c.names)] ELSE <<>> ]
=============================================================================

SPECIFICATION Spec
CONSTANTS
  WordSyms <- MCWordSyms
  InvalidSyms = {12}
  CR = 13
  LF = 14
  Lines <- MCLines
  Width <- MCWidth
  TrimSyms <- MCTrimSyms
  Seeds <- PlainSeedsDeep
  ScenariosOf <- PlainOf
INVARIANTS EmittedFmt EmitCfgs

SPECIFICATION Spec
CONSTANTS
  WordSyms <- MCWordSyms
  InvalidSyms = {12}
  CR = 13
  LF = 14
  MaxLen = 5
  CtxMax = 2
  WithPlans = FALSE
  WithCrlf = TRUE
INVARIANT Emitted

SPECIFICATION Spec
CONSTANTS
  WordSyms <- MCWordSyms
  InvalidSyms = {12}
  CR = 13
  LF = 14
INVARIANT Checks
VIEW View

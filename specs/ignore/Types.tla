------------------------------- MODULE Types -------------------------------
(* File-type selection (crates/ignore/src/types.rs; rg --type-add / -t / -T), the "then file-type selection" step
   of C05 on its own: several type definitions (one of them an include of two others), a sequence of selections
   (-t name / -T name, in command-line order), a handful of file names.

   What the documentation promises (man page of -t / -T, doc comment of Types::matched):
     * a file that matches a selected type and no negated type is searched,
     * a file that matches a negated type and no selected type is not,
     * a file that matches neither is searched iff no type was selected (-t) at all,
     * directories are never subject to type selection.
   A file matching both a selected and a negated type is left open by the documentation (ENVELOPE: either answer);
   the code resolves it by command-line order (the last selection with a matching glob wins), transcribed in
   ImplKeep and shown by TLC to lie inside the envelope for every scenario (DesignOK).                          *)
EXTENDS Naturals, Sequences, FiniteSets, TLC, Json

Files == {"a.x", "b.y", "c.xy", "mk", "n"}
\* glob -> files it matches (file names only; the globs used in the definitions)
GlobHits(g) == CASE g = "*.x" -> {"a.x"} [] g = "*.y" -> {"b.y"} [] g = "mk" -> {"mk"} [] g = "*.x*" -> {"a.x", "c.xy"}
                 [] g = "[a-b].*" -> {"a.x", "b.y"}
\* --type-add definitions, in this order:  x:*.x   y:*.y   y:mk   w:*.x*   z:include:x,y   v:[a-b].*
Defs == [x |-> <<"*.x">>, y |-> <<"*.y", "mk">>, w |-> <<"*.x*">>, z |-> <<"*.x", "*.y", "mk">>, v |-> <<"[a-b].*">>]
TypeNames == DOMAIN Defs
TypeHits(t) == UNION {GlobHits(Defs[t][i]) : i \in 1..Len(Defs[t])}

Sel(neg, t) == [neg |-> neg, t |-> t]
Selections == {Sel(n, t) : n \in BOOLEAN, t \in TypeNames}

CONSTANT MaxSel
VARIABLES sels, pc
vars == <<sels, pc>>

SeqsUpTo(S, n) == UNION {[1..k -> S] : k \in 0..n}
Init == sels = <<>> /\ pc = "pick"
Pick == pc = "pick" /\ sels' \in SeqsUpTo(Selections, MaxSel) /\ pc' = "done"
Next == Pick
Spec == Init /\ [][Next]_vars

\* ---- the documentation
Pos(ss) == UNION {TypeHits(ss[i].t) : i \in {j \in 1..Len(ss) : ~ss[j].neg}}
Neg(ss) == UNION {TypeHits(ss[i].t) : i \in {j \in 1..Len(ss) : ss[j].neg}}
HasSelected(ss) == \E i \in 1..Len(ss) : ~ss[i].neg
\* the set of allowed answers for file f: subset of {TRUE (searched), FALSE (not searched)}
Allowed(ss, f) ==
  IF f \in Pos(ss) /\ f \in Neg(ss) THEN {TRUE, FALSE}
  ELSE IF f \in Pos(ss) THEN {TRUE}
  ELSE IF f \in Neg(ss) THEN {FALSE}
  ELSE {~HasSelected(ss)}

\* ---- the code: globs of all selections in order; the last matching glob's selection decides
ImplKeep(ss, f) ==
  LET hits == {i \in 1..Len(ss) : f \in TypeHits(ss[i].t)} IN
  IF hits = {} THEN ~HasSelected(ss)
  ELSE LET last == CHOOSE i \in hits : \A j \in hits : j <= i IN ~ss[last].neg

DesignOK == pc = "done" => \A f \in Files : ImplKeep(sels, f) \in Allowed(sels, f)
\* sanity of the documentation's reading: -T alone never adds a requirement, -t alone never searches a non-member
DocSane == pc = "done" =>
  /\ (~HasSelected(sels) => \A f \in Files \ Neg(sels) : Allowed(sels, f) = {TRUE})
  /\ (Neg(sels) = {} /\ HasSelected(sels) => \A f \in Files : Allowed(sels, f) = {f \in Pos(sels)})

Emitted == pc = "done" =>
  PrintT(<<"EMIT", ToJson([sels |-> sels,
                           allowed |-> [f \in Files |-> Allowed(sels, f)],
                           impl |-> [f \in Files |-> ImplKeep(sels, f)]])>>)
=============================================================================

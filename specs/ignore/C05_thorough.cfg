SPECIFICATION Spec
CONSTANTS
  Seeds <- MCSeeds
  ScenariosOf <- MCScenariosOf
  MaxSlots = 0
  MaxFlags = 0
  Fams = {"pairs", "flags", "flag2", "roots", "globs"}
  PairRoots <- RootsWalk
  FlagGits <- GitsAll
  FlagPairsEverywhere = TRUE
  Flag2Gits <- GitsRootNoneParent
  Flag2Lvls <- LvlsAll
  GlobRoots <- RootsWalk
INVARIANTS Sane Algebra Precedence ExplicitOK Emitted

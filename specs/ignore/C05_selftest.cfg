SPECIFICATION Spec
CONSTANTS
  Seeds <- MCSeeds
  ScenariosOf <- MCScenariosOf
  MaxSlots = 0
  MaxFlags = 0
  Fams = {"pairs"}
  PairRoots <- RootsDot
  FlagGits <- GitsSingle
  FlagPairsEverywhere = FALSE
  Flag2Gits <- GitsRoot
  Flag2Lvls <- LvlsNear
  GlobRoots <- RootsGlobQuick
  SrcEnabled <- MutSrcEnabled
INVARIANTS Sane Algebra Precedence ExplicitOK

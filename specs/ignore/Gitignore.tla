----------------------------- MODULE Gitignore -----------------------------
(* gitignore(5) as a specification: which files of a directory tree does git consider ignored,
   given `.gitignore` files placed in directories of the tree.

   Sources: gitignore(5) PATTERN FORMAT; git's dir.c (trim_trailing_spaces, parse_path_pattern,
   match_basename, match_pathname, last_matching_pattern, treat_directory) and wildmatch.c (dowild
   with WM_PATHNAME) were read to settle every point the manual page leaves open.  The module is
   validated against the `git` binary on every generated repository (checks/c04.py, self-test of the
   oracle), and is then the oracle for ripgrep.

   Text is modelled by TLA+ strings (a string is a sequence of characters; TLC evaluates Len, \o,
   SubSeq on strings).  A path is a string with "/" separators relative to the repository root, a
   directory path is "" (the root) or a path.

   scn : [tree  : name of the tree (informative),
          files : sequence of file paths (directories are the proper prefixes of file paths),
          ign   : sequence of [dir |-> directory path, lines |-> sequence of lines] - the ignore files,
                  at most one per directory, each with at least one line,
          ci    : BOOLEAN - patterns are matched case-insensitively]                              *)
EXTENDS Naturals, Sequences, FiniteSets, TLC, Json

CONSTANTS Seeds,          \* set of partial scenarios (chosen by the first step; parallelises the generation)
          ScenariosOf(_)  \* seed -> set of scenarios (chosen by the second step)

VARIABLES scn, pc, ks, vis      \* ks = K(scn): the scenario with its ignore files parsed
vars == <<scn, pc, ks, vis>>

\* ---------------------------------------------------------------- characters
Ch(s, i) == SubSeq(s, i, i)

LowerOf == [A |-> "a", B |-> "b", C |-> "c", D |-> "d", H |-> "h", X |-> "x"]
UpperOf == [a |-> "A", b |-> "B", c |-> "C", d |-> "D", h |-> "H", x |-> "X"]
Lower(c) == IF c \in DOMAIN LowerOf THEN LowerOf[c] ELSE c
Upper(c) == IF c \in DOMAIN UpperOf THEN UpperOf[c] ELSE c

\* ASCII codes of the characters that may occur in generated names and patterns (ranges in classes)
Ascii == [c \in {" ", "!", "#", "*", "-", ".", "/", "?", "A", "B", "C", "D", "H", "X", "[", "\\", "]", "^",
                 "a", "b", "c", "d", "e", "g", "h", "i", "n", "o", "r", "t", "x", "z"} |->
            CASE c = " " -> 32 [] c = "!" -> 33 [] c = "#" -> 35 [] c = "*" -> 42 [] c = "-" -> 45
              [] c = "." -> 46 [] c = "/" -> 47 [] c = "?" -> 63 [] c = "A" -> 65 [] c = "B" -> 66
              [] c = "C" -> 67 [] c = "D" -> 68 [] c = "H" -> 72 [] c = "X" -> 88 [] c = "[" -> 91
              [] c = "\\" -> 92 [] c = "]" -> 93 [] c = "^" -> 94 [] c = "a" -> 97 [] c = "b" -> 98
              [] c = "c" -> 99 [] c = "d" -> 100 [] c = "e" -> 101 [] c = "g" -> 103 [] c = "h" -> 104
              [] c = "i" -> 105 [] c = "n" -> 110 [] c = "o" -> 111 [] c = "r" -> 114 [] c = "t" -> 116
              [] c = "x" -> 120 [] c = "z" -> 122]

\* ---------------------------------------------------------------- paths
HasSlash(s) == \E i \in 1..Len(s) : Ch(s, i) = "/"
SlashAt(p) == {i \in 1..Len(p) : Ch(p, i) = "/"}
Basename(p) == LET S == SlashAt(p) IN
               IF S = {} THEN p ELSE LET k == CHOOSE i \in S : \A j \in S : j <= i IN SubSeq(p, k + 1, Len(p))
\* proper ancestor directories of p (without the root)
AncestorDirs(p) == {SubSeq(p, 1, i - 1) : i \in SlashAt(p)}
\* is directory d (root = "") a proper ancestor of path p ?
IsUnder(p, d) == d = "" \/ (Len(p) > Len(d) + 1 /\ SubSeq(p, 1, Len(d)) = d /\ Ch(p, Len(d) + 1) = "/")
RelTo(p, d) == IF d = "" THEN p ELSE SubSeq(p, Len(d) + 2, Len(p))
Join(d, n) == IF d = "" THEN n ELSE d \o "/" \o n

\* ---------------------------------------------------------------- glob tokens (wildmatch with WM_PATHNAME)
\*  [k |-> "lit", c]   one character, literally (also from `\c`)
\*  [k |-> "any"]      `?`   : one character other than "/"
\*  [k |-> "star"]     `*`   : any run of characters other than "/"  (also `**` not delimited by "/")
\*  [k |-> "dstar"]    `**`  delimited by pattern start or "/" on the left and pattern end or "/" on
\*                             the right: spans whole directories
\*  [k |-> "class", neg, items, ok]  `[...]` : one character other than "/", in / not in the items
\*  [k |-> "bad"]      dangling `\` : matches nothing

\* members of a bracket expression starting at index i (first = no member read yet: a "]" is a member)
RECURSIVE ClassItems(_, _, _)
ClassItems(p, i, first) ==
  IF i > Len(p) THEN [ok |-> FALSE, items |-> <<>>, next |-> i]
  ELSE IF Ch(p, i) = "]" /\ ~first THEN [ok |-> TRUE, items |-> <<>>, next |-> i + 1]
  ELSE LET esc == Ch(p, i) = "\\"
           lo  == IF esc THEN Ch(p, i + 1) ELSE Ch(p, i)
           a   == IF esc THEN i + 2 ELSE i + 1               \* index after the member's first character
           rng == a + 1 <= Len(p) /\ Ch(p, a) = "-" /\ Ch(p, a + 1) # "]"
           hesc == rng /\ Ch(p, a + 1) = "\\"
           hi  == IF ~rng THEN lo ELSE IF hesc THEN Ch(p, a + 2) ELSE Ch(p, a + 1)
           nx  == IF ~rng THEN a ELSE IF hesc THEN a + 3 ELSE a + 2
           rest == ClassItems(p, nx, FALSE)
       IN IF (esc /\ i + 1 > Len(p)) \/ (hesc /\ a + 2 > Len(p)) THEN [ok |-> FALSE, items |-> <<>>, next |-> nx]
          ELSE [ok |-> rest.ok, items |-> <<[lo |-> lo, hi |-> hi]>> \o rest.items, next |-> rest.next]

RECURSIVE Tokens(_, _)
Tokens(p, i) ==
  IF i > Len(p) THEN <<>>
  ELSE LET c == Ch(p, i) IN
    CASE c = "\\" -> IF i = Len(p) THEN <<[k |-> "bad"]>>
                     ELSE <<[k |-> "lit", c |-> Ch(p, i + 1)]>> \o Tokens(p, i + 2)
      [] c = "?" -> <<[k |-> "any"]>> \o Tokens(p, i + 1)
      [] c = "*" ->
           LET nonstar == {j \in (i + 1)..Len(p) : Ch(p, j) # "*"}
               j == IF nonstar = {} THEN Len(p) + 1 ELSE CHOOSE x \in nonstar : \A y \in nonstar : x <= y
               left  == i = 1 \/ Ch(p, i - 1) = "/"
               right == j > Len(p) \/ Ch(p, j) = "/"
           IN <<[k |-> IF j > i + 1 /\ left /\ right THEN "dstar" ELSE "star"]>> \o Tokens(p, j)
      [] c = "[" ->
           LET neg == i + 1 <= Len(p) /\ Ch(p, i + 1) \in {"!", "^"}
               cl == ClassItems(p, IF neg THEN i + 2 ELSE i + 1, TRUE)
           IN IF ~cl.ok THEN <<[k |-> "bad"]>>         \* unterminated bracket: wildmatch aborts, no match
              ELSE <<[k |-> "class", neg |-> neg, items |-> cl.items]>> \o Tokens(p, cl.next)
      [] OTHER -> <<[k |-> "lit", c |-> c]>> \o Tokens(p, i + 1)

InRange(c, lo, hi) == IF lo = hi THEN c = lo ELSE Ascii[lo] <= Ascii[c] /\ Ascii[c] <= Ascii[hi]
InClass(items, c, ci) ==
  \E n \in 1..Len(items) :
     LET it == items[n] IN
     IF ~ci THEN InRange(c, it.lo, it.hi)
     ELSE IF it.lo = it.hi THEN Lower(c) = Lower(it.lo)
     ELSE InRange(Lower(c), it.lo, it.hi) \/ InRange(Upper(c), it.lo, it.hi)

CharEq(a, b, ci) == IF ci THEN Lower(a) = Lower(b) ELSE a = b

\* does toks[i..] match text[j..] entirely ?
RECURSIVE WM(_, _, _, _, _)
WM(toks, i, text, j, ci) ==
  IF i > Len(toks) THEN j > Len(text)
  ELSE LET t == toks[i] IN
    CASE t.k = "lit"   -> j <= Len(text) /\ CharEq(Ch(text, j), t.c, ci) /\ WM(toks, i + 1, text, j + 1, ci)
      [] t.k = "any"   -> j <= Len(text) /\ Ch(text, j) # "/" /\ WM(toks, i + 1, text, j + 1, ci)
      [] t.k = "class" -> j <= Len(text) /\ Ch(text, j) # "/" /\ (InClass(t.items, Ch(text, j), ci) # t.neg)
                          /\ WM(toks, i + 1, text, j + 1, ci)
      [] t.k = "star"  -> \E k \in j..(Len(text) + 1) :
                             /\ \A m \in j..(k - 1) : Ch(text, m) # "/"
                             /\ WM(toks, i + 1, text, k, ci)
      [] t.k = "dstar" -> IF i = Len(toks) THEN TRUE                 \* trailing `**` matches everything
                          \* `**/`: zero directories (skip the slash too), or any prefix up to a "/"
                          ELSE WM(toks, i + 2, text, j, ci) \/ \E k \in j..(Len(text) + 1) : WM(toks, i + 1, text, k, ci)
      [] OTHER -> FALSE

Wild(pat, text, ci) == WM(Tokens(pat, 1), 1, text, 1, ci)

\* ---------------------------------------------------------------- one line of an ignore file
\* dir.c trim_trailing_spaces: trailing spaces are dropped unless quoted with a backslash
RECURSIVE TrimScan(_, _, _)
TrimScan(l, i, cut) ==           \* cut = index of the first of the current run of spaces, 0 = none
  IF i > Len(l) THEN cut
  ELSE IF Ch(l, i) = " " THEN TrimScan(l, i + 1, IF cut = 0 THEN i ELSE cut)
  ELSE IF Ch(l, i) = "\\" THEN (IF i + 1 > Len(l) THEN 0 ELSE TrimScan(l, i + 2, 0))
  ELSE TrimScan(l, i + 1, 0)
TrimBlank(l) == LET c == TrimScan(l, 1, 0) IN IF c = 0 THEN l ELSE SubSeq(l, 1, c - 1)

NoRule == [none |-> TRUE]
\* line -> rule [neg, dirOnly, anchored, pat, toks] or NoRule (blank line, comment, nothing left)
ParseLine(line) ==
  IF line = "" \/ Ch(line, 1) = "#" THEN NoRule
  ELSE LET l1 == TrimBlank(line)
           neg == l1 # "" /\ Ch(l1, 1) = "!"
           l2 == IF neg THEN Tail(l1) ELSE l1
           dirOnly == l2 # "" /\ Ch(l2, Len(l2)) = "/"
           l3 == IF dirOnly THEN SubSeq(l2, 1, Len(l2) - 1) ELSE l2
           anchored == HasSlash(l3)                       \* a separator at the beginning or in the middle
           l4 == IF l3 # "" /\ Ch(l3, 1) = "/" THEN Tail(l3) ELSE l3
       IN IF l3 = "" THEN NoRule
          ELSE [neg |-> neg, dirOnly |-> dirOnly, anchored |-> anchored, pat |-> l4, toks |-> Tokens(l4, 1)]

RECURSIVE Rules(_)
Rules(lines) == IF lines = <<>> THEN <<>> ELSE <<ParseLine(Head(lines))>> \o Rules(Tail(lines))

\* rel: path relative to the ignore file's directory
RuleMatches(r, rel, isDir, ci) ==
  /\ "none" \notin DOMAIN r
  /\ r.dirOnly => isDir
  /\ WM(r.toks, 1, IF r.anchored THEN rel ELSE Basename(rel), 1, ci)

\* within one file the last matching pattern decides: "exclude" | "include" | "none"
LastMatch(rules, rel, isDir, ci) ==
  LET hits == {n \in 1..Len(rules) : RuleMatches(rules[n], rel, isDir, ci)} IN
  IF hits = {} THEN "none"
  ELSE LET n == CHOOSE x \in hits : \A y \in hits : y <= x IN IF rules[n].neg THEN "include" ELSE "exclude"

\* ---------------------------------------------------------------- a tree with ignore files
IgnFilePath(ig) == Join(ig.dir, ".gitignore")
AllFiles(s) == {s.files[n] : n \in 1..Len(s.files)} \cup {IgnFilePath(s.ign[n]) : n \in 1..Len(s.ign)}

\* a scenario with its ignore files parsed:  k = [files, dirs, ci, ign : sequence of [dir, rules]]
RECURSIVE ParsedIgn(_)
ParsedIgn(igs) == IF igs = <<>> THEN <<>>
                  ELSE <<[dir |-> Head(igs).dir, rules |-> Rules(Head(igs).lines)]>> \o ParsedIgn(Tail(igs))
K(s) == [files |-> AllFiles(s), dirs |-> UNION {AncestorDirs(f) : f \in AllFiles(s)}, ci |-> s.ci, ign |-> ParsedIgn(s.ign)]

\* ignore files that apply to path p, i.e. that live in an ancestor directory of p
Applicable(k, p) == {n \in 1..Len(k.ign) : IsUnder(p, k.ign[n].dir)}
Opinion(k, n, p, isDir) == LastMatch(k.ign[n].rules, RelTo(p, k.ign[n].dir), isDir, k.ci)

\* the deepest ignore file with an opinion decides (a deeper file overrides a shallower one)
Verdict(k, p, isDir) ==
  LET having == {n \in Applicable(k, p) : Opinion(k, n, p, isDir) # "none"}
  IN IF having = {} THEN "none"
     ELSE Opinion(k, CHOOSE n \in having : \A m \in having : Len(k.ign[m].dir) <= Len(k.ign[n].dir), p, isDir)

Excluded(k, p, isDir) == Verdict(k, p, isDir) = "exclude"

\* git never looks beneath an excluded directory: a file is visible iff neither it nor any of its
\* ancestor directories is excluded
VisibleK(k) == {f \in k.files : ~Excluded(k, f, FALSE) /\ \A d \in AncestorDirs(f) : ~Excluded(k, d, TRUE)}
Visible(s) == VisibleK(K(s))
Ignored(s) == AllFiles(s) \ Visible(s)

\* the same set by a top-down traversal that prunes excluded directories (how git and ripgrep walk)
Children(k, d) == {p \in k.files \cup k.dirs : IsUnder(p, d) /\ ~HasSlash(RelTo(p, d))}
RECURSIVE WalkFrom(_, _)
WalkFrom(k, d) ==
  UNION {IF c \in k.dirs THEN (IF Excluded(k, c, TRUE) THEN {} ELSE WalkFrom(k, c))
         ELSE (IF Excluded(k, c, FALSE) THEN {} ELSE {c}) : c \in Children(k, d)}

\* ---------------------------------------------------------------- generation
\* (initial states are generated by a single thread, so even the seed is chosen by a step)
Init == scn = <<>> /\ pc = "seed" /\ ks = <<>> /\ vis = {}
PickSeed == /\ pc = "seed"
            /\ scn' \in Seeds
            /\ pc' = "pick"
            /\ UNCHANGED <<ks, vis>>
Pick == /\ pc = "pick"
        /\ scn' \in ScenariosOf(scn)
        /\ ks' = K(scn')
        /\ vis' = VisibleK(ks')
        /\ pc' = "done"
Next == PickSeed \/ Pick
Spec == Init /\ [][Next]_vars

Done == pc = "done"

\* ---------------------------------------------------------------- theorems checked on every scenario
WellFormed(s) ==
  /\ \A n \in 1..Len(s.ign) : Len(s.ign[n].lines) >= 1 /\ (s.ign[n].dir = "" \/ s.ign[n].dir \in K(s).dirs)
  /\ \A n, m \in 1..Len(s.ign) : n # m => s.ign[n].dir # s.ign[m].dir
  /\ \A f \in AllFiles(s) : f \notin K(s).dirs

IsComment(l) == l = "" \/ Ch(l, 1) = "#"
Uncomment(ig) == [dir |-> ig.dir,
                  lines |-> SelectSeq(ig.lines, LAMBDA l : ~IsComment(l)) \o SelectSeq(ig.lines, IsComment)]
SpecSane ==
  Done => /\ WellFormed(scn)
          \* pruning: declarative and traversal formulations agree; nothing under an excluded directory is visible
          /\ vis = WalkFrom(ks, "")
          /\ \A f \in vis : \A d \in AncestorDirs(f) : ~Excluded(ks, d, TRUE)
          \* without ignore files nothing is ignored
          /\ scn.ign = <<>> => vis = {scn.files[n] : n \in 1..Len(scn.files)}
          \* comments and blank lines do not take part in "last match wins"
          /\ (\E n \in 1..Len(scn.ign) : \E i \in 1..Len(scn.ign[n].lines) : IsComment(scn.ign[n].lines[i]))
               => vis = Visible([scn EXCEPT !.ign = [n \in 1..Len(scn.ign) |-> Uncomment(scn.ign[n])]])
          \* a deeper ignore file overrides a shallower one: whenever the deepest applicable file has an
          \* opinion about a file, that opinion alone decides it (given its directories are visited)
          /\ \A f \in ks.files :
               LET A == Applicable(ks, f) IN
               A # {} =>
                 LET n == CHOOSE x \in A : \A y \in A : Len(ks.ign[y].dir) <= Len(ks.ign[x].dir)
                     o == Opinion(ks, n, f, FALSE)
                 IN o # "none" /\ (\A d \in AncestorDirs(f) : ~Excluded(ks, d, TRUE)) => ((f \in vis) <=> (o = "include"))

\* ---------------------------------------------------------------- what a scenario exercises (for coverage accounting)
\* files that are invisible because a directory above them is excluded
Pruned(k) == {f \in k.files : \E d \in AncestorDirs(f) : Excluded(k, d, TRUE)}
\* files matched both by an ignoring and by a re-including pattern (the order of lines / files decides)
MatchPolarities(k, f) ==
  UNION {LET rs == k.ign[n].rules IN
         {rs[i].neg : i \in {j \in 1..Len(rs) : RuleMatches(rs[j], RelTo(f, k.ign[n].dir), FALSE, k.ci)}}
         : n \in Applicable(k, f)}
Contested(k) == {f \in k.files : MatchPolarities(k, f) = {TRUE, FALSE}}
\* files about which two ignore files at different depths disagree
Overridden(k) == {f \in k.files : \E n, m \in Applicable(k, f) :
                    Opinion(k, n, f, FALSE) = "exclude" /\ Opinion(k, m, f, FALSE) = "include"}

Emitted == Done => PrintT(<<"EMIT", ToJson([scn |-> scn, visible |-> vis, pruned |-> Pruned(ks),
                                           contested |-> Contested(ks), overridden |-> Overridden(ks)])>>)
=============================================================================

----------------------------- MODULE IgnoreModel -----------------------------
(***************************************************************************)
(* C05 - which files are searched follows the documented precedence of     *)
(* filters.                                                                *)
(*                                                                         *)
(* The model is a *function* from a scenario (a tiny directory tree, rule  *)
(* files of the seven sources at up to three directory levels, `.git`      *)
(* markers, command-line flags) to the set of files `rg --files` lists.    *)
(* Rule matching is deliberately trivial (every rule names exactly one     *)
(* entry and is either "ignore" or "white"); what gitignore globs mean is  *)
(* C04's business.                                                         *)
(*                                                                         *)
(*   tree       P/                  level 2 (parent of the search root)    *)
(*              P/root/             level 1 (cwd of rg)                    *)
(*              P/root/f            entry "f"  (regular file)              *)
(*              P/root/.h           entry "h"  (hidden regular file)       *)
(*              P/root/d/           entry "d"  (directory), level 0        *)
(*              P/root/d/g          entry "g"  (regular file)              *)
(*                                                                         *)
(* Documented order (man page: -g "always overrides any other ignore       *)
(* logic"; --ignore-file "applied after .gitignore, .rgignore, .ignore";   *)
(* -t "lower precedence than -g and any rules found in ignore files";      *)
(* --hidden "if a hidden file is whitelisted in an ignore file it will be  *)
(* searched"; GUIDE.md "automatic filtering"):                             *)
(*   overrides > .rgignore > .ignore > .gitignore > .git/info/exclude      *)
(*             > global gitignore > --ignore-file > types > hidden          *)
(***************************************************************************)
EXTENDS Integers, Sequences, FiniteSets, TLC, Json

CONSTANTS Seeds,            \* initial (partial) scenarios
          ScenariosOf(_),   \* one-step families: seed -> set of complete scenarios
          MaxSlots,         \* incremental builder: at most that many rule files are filled
          MaxFlags          \* incremental builder: at most that many flags

VARIABLES scn,  \* the scenario (complete when pc = "done")
          pc,   \* "pick" | "git" | "rule" | "flags" | "glob" | "types" | "depth" | "root" | "fin" | "done"
          todo, \* incremental builder: number of rules / flags still to be added
          mask  \* incremental builder: which of -g, -t/-T, --max-depth, root naming leave their default

vars == <<scn, pc, todo, mask>>

\* ---------------------------------------------------------------- vocabulary
Entries == {"f", "h", "d", "g"}
Files   == {"f", "h", "g"}
IsDir(e)  == e = "d"
DirLvl(e) == IF e = "g" THEN 0 ELSE 1        \* level of the directory that holds e
Chain(e)  == DirLvl(e)..2                     \* directories from e's own upward

DirSrcs  == {"rgignore", "ignore", "gitignore", "exclude"}   \* one file per directory
FlatSrcs == {"global", "ignorefile"}                         \* one file, applies everywhere (lvl 3)
Sources  == DirSrcs \cup FlatSrcs
GitSrcs  == {"gitignore", "exclude", "global"}
\* THE documented precedence, highest first
SrcOrder == <<"rgignore", "ignore", "gitignore", "exclude", "global", "ignorefile">>
Rank(src) == CHOOSE i \in 1..Len(SrcOrder) : SrcOrder[i] = src

FlagNames == {"hidden", "no-ignore", "no-ignore-vcs", "no-ignore-dot", "no-ignore-exclude",
              "no-ignore-global", "no-ignore-parent", "no-ignore-files", "u", "uu", "uuu",
              "no-require-git"}

\* "u", "uu", "uuu" stand for -u given once, twice, three times: at most one of them
FlagSetOK(F) == F \subseteq FlagNames /\ Cardinality(F \cap {"u", "uu", "uuu"}) <= 1

NoGlob == [ent |-> "", neg |-> FALSE]
Globs  == {NoGlob} \cup {[ent |-> e, neg |-> n] : e \in {"f", "g", "h"}, n \in BOOLEAN}
                   \cup {[ent |-> "d", neg |-> TRUE]}
TypeSel == {"none", "t", "T", "tg", "Tg", "th", "Th"}   \* --type-add 'x:f' (tg, Tg: 'x:g'; th, Th: 'x:.h', the hidden file) with -t x / -T x
Depths  == {-1, 0, 1, 2}             \* -1: no --max-depth

\* search roots: what is named on the command line (cwd is always P/root)
RootModes == {"dot", "dotslash", "abs", "sub", "sub_f", "sub_h", "file_f", "file_h", "file_g", "abs_f"}
WalksRoot(r) == r \in {"dot", "dotslash", "abs"}        \* P/root is traversed
WalksSub(r)  == r \in {"sub", "sub_f", "sub_h"}         \* P/root/d is traversed
RootLvl(r)   == IF WalksSub(r) THEN 0 ELSE 1            \* level of the traversed directory
Explicit(r)  == CASE r \in {"sub_f", "file_f", "abs_f"} -> {"f"}
                  [] r \in {"sub_h", "file_h"} -> {"h"}
                  [] r = "file_g" -> {"g"}
                  [] OTHER -> {}

Base == [fam |-> "", tag |-> "", rules |-> {}, git |-> {}, flags |-> {}, glob |-> NoGlob, types |-> "none",
         depth |-> -1, root |-> "dot"]

\* ---------------------------------------------------------------- flags
\* documented implications: --no-ignore implies -dot -exclude -global -parent -vcs (not -files);
\* -u = --no-ignore; -uu = --no-ignore --hidden; -uuu = -uu --binary (no effect on which files)
Norm(F) ==
  F \cup (IF F \cap {"no-ignore", "u", "uu", "uuu"} # {}
            THEN {"no-ignore-dot", "no-ignore-vcs", "no-ignore-exclude", "no-ignore-global", "no-ignore-parent"}
            ELSE {})
    \cup (IF F \cap {"uu", "uuu"} # {} THEN {"hidden"} ELSE {})

SrcEnabled(src, N) ==
  CASE src \in {"rgignore", "ignore"} -> "no-ignore-dot" \notin N
    [] src = "gitignore"  -> "no-ignore-vcs" \notin N
    [] src = "exclude"    -> "no-ignore-vcs" \notin N /\ "no-ignore-exclude" \notin N
    [] src = "global"     -> "no-ignore-vcs" \notin N /\ "no-ignore-global" \notin N
    [] src = "ignorefile" -> "no-ignore-files" \notin N

\* ---------------------------------------------------------------- one source's answer
Pol(R) == IF R = {} THEN "none" ELSE (CHOOSE r \in R : TRUE).pol
HitAt(s, src, l, e) == {r \in s.rules : r.src = src /\ r.lvl = l /\ r.ent = e}

\* a directory above the traversed one is consulted unless --no-ignore-parent
LvlOn(s, l) == l <= RootLvl(s.root) \/ "no-ignore-parent" \notin s.flags

\* inside a repository: some directory from e's own upward holds .git
AnyGit(s, e) == "no-require-git" \in s.flags \/ \E l \in Chain(e) : l \in s.git

\* a repository root lies strictly between e and level l: the scan of git sources has ended.
\* Under --no-require-git the documentation does not say whether a repository boundary still
\* ends the scan; `b` selects the reading (both are allowed, see Allowed).
Passed(s, e, l, b) == \E m \in Chain(e) : m < l /\ m \in s.git /\ ("no-require-git" \notin s.flags \/ b)

\* per source the nearest directory wins; a hit of either polarity ends the scan
RECURSIVE ScanDirs(_, _, _, _, _)
ScanDirs(s, src, e, l, b) ==
  IF l > 2 THEN "none"
  ELSE IF src \in GitSrcs /\ Passed(s, e, l, b) THEN "none"
  ELSE LET h == IF LvlOn(s, l) THEN Pol(HitAt(s, src, l, e)) ELSE "none"
       IN IF h # "none" THEN h ELSE ScanDirs(s, src, e, l + 1, b)

SrcAnswer(s, src, e, b) ==
  IF \A r \in s.rules : r.src # src \/ r.ent # e THEN "none"     \* (nothing to find: evaluation shortcut)
  ELSE IF ~SrcEnabled(src, s.flags) THEN "none"
  ELSE IF src \in GitSrcs /\ ~AnyGit(s, e) THEN "none"
  ELSE IF src \in FlatSrcs THEN Pol(HitAt(s, src, 3, e))
  ELSE ScanDirs(s, src, e, DirLvl(e), b)

\* across sources: the first non-empty answer in the documented order, ignore or whitelist
RECURSIVE FirstAns(_, _, _, _)
FirstAns(s, e, i, b) ==
  IF i > Len(SrcOrder) THEN "none"
  ELSE LET a == SrcAnswer(s, SrcOrder[i], e, b)
       IN IF a # "none" THEN a ELSE FirstAns(s, e, i + 1, b)
IgnoreAnswer(s, e, b) == FirstAns(s, e, 1, b)

\* ---------------------------------------------------------------- the other filters
\* -g: a matching glob decides at once (plain: whitelist, '!': ignore); when a plain glob is
\* given, files matching none are ignored - directories are not
Override(s, e) ==
  IF s.glob.ent = "" THEN "none"
  ELSE IF s.glob.ent = e THEN (IF s.glob.neg THEN "ignore" ELSE "white")
  ELSE IF ~s.glob.neg /\ ~IsDir(e) THEN "ignore" ELSE "none"

\* --type-add 'x:f': -t x selects f (every other file is deselected), -T x deselects f
\* (tg / Tg: the same with --type-add 'x:g', a file one level down: type selection never applies to the directory d)
\* (th / Th: 'x:.h' - a selected type whitelists the hidden file like an ignore-file whitelist does: "types > hidden")
TypeTarget(s) == IF s.types \in {"tg", "Tg"} THEN "g" ELSE IF s.types \in {"th", "Th"} THEN "h" ELSE "f"
TypeAnswer(s, e) ==
  IF IsDir(e) \/ s.types = "none" THEN "none"
  ELSE IF s.types \in {"t", "tg", "th"} THEN (IF e = TypeTarget(s) THEN "white" ELSE "ignore")
  ELSE (IF e = TypeTarget(s) THEN "ignore" ELSE "none")

Hidden(e) == e = "h"

\* is entry e (met during traversal) kept?
Keep(s, e, b) ==
  LET o == Override(s, e) IN
  IF o # "none" THEN o = "white"
  ELSE LET a == IgnoreAnswer(s, e, b) IN
       IF a = "ignore" THEN FALSE
       ELSE LET t == TypeAnswer(s, e) IN
            IF t = "ignore" THEN FALSE
            ELSE ~(Hidden(e) /\ "hidden" \notin s.flags /\ a = "none" /\ t = "none")

DepthOK(s, n) == s.depth = -1 \/ n <= s.depth

\* files listed by the traversal
Walked(s, b) ==
  IF WalksRoot(s.root) THEN
       {e \in {"f", "h"} : DepthOK(s, 1) /\ Keep(s, e, b)}
       \cup (IF DepthOK(s, 2) /\ Keep(s, "d", b) /\ Keep(s, "g", b) THEN {"g"} ELSE {})
  ELSE IF WalksSub(s.root) THEN
       \* d itself is named on the command line: not subject to any filter
       (IF DepthOK(s, 1) /\ Keep(s, "g", b) THEN {"g"} ELSE {})
  ELSE {}

\* a path named explicitly on the command line is always searched.
\* (The operators above read s.flags directly: they are applied to the normalised scenario.)
Normalised(s) == [s EXCEPT !.flags = Norm(@)]
Listed(s, b) == Walked(Normalised(s), b) \cup Explicit(s.root)

\* the two readings differ at most under --no-require-git
Allowed(s) == IF "no-require-git" \in s.flags THEN {Listed(s, TRUE), Listed(s, FALSE)} ELSE {Listed(s, TRUE)}

\* ---------------------------------------------------------------- theorems about the model
\* (checked by TLC in every generated scenario)
V(s) == IF "no-require-git" \in s.flags THEN <<Listed(s, TRUE), Listed(s, FALSE)>>
        ELSE LET x == Listed(s, TRUE) IN <<x, x>>
WithFlag(s, f) == [s EXCEPT !.flags = @ \cup {f}]
DeleteSrc(s, S) == [s EXCEPT !.rules = {r \in @ : r.src \notin S}]
DeleteParents(s) == [s EXCEPT !.rules = {r \in @ : ~(r.src \in DirSrcs /\ r.lvl > RootLvl(s.root))}]
Unhide(X) == X \ {"h"}

\* every flag removes exactly its own source of filtering
FlagAlgebra(s) ==
  /\ V(WithFlag(s, "no-ignore-dot"))     = V(DeleteSrc(s, {"rgignore", "ignore"}))
  /\ V(WithFlag(s, "no-ignore-vcs"))     = V(DeleteSrc(s, {"gitignore", "exclude", "global"}))
  /\ V(WithFlag(s, "no-ignore-exclude")) = V(DeleteSrc(s, {"exclude"}))
  /\ V(WithFlag(s, "no-ignore-global"))  = V(DeleteSrc(s, {"global"}))
  /\ V(WithFlag(s, "no-ignore-files"))   = V(DeleteSrc(s, {"ignorefile"}))
  /\ V(WithFlag(s, "no-ignore-parent"))  = V(DeleteParents(s))
  /\ V(WithFlag(s, "no-ignore"))         = V(DeleteSrc(s, Sources \ {"ignorefile"}))
  /\ V(WithFlag(s, "u"))   = V(WithFlag(s, "no-ignore"))
  /\ V(WithFlag(s, "uu"))  = V(WithFlag(WithFlag(s, "no-ignore"), "hidden"))
  /\ V(WithFlag(s, "uuu")) = V(WithFlag(s, "uu"))
  \* --hidden only ever adds the hidden entry, and adds it unless something else rejects it
  /\ LET v == V(s)  vh == V(WithFlag(s, "hidden")) IN
       \A i \in 1..2 : v[i] \subseteq vh[i] /\ Unhide(vh[i]) = Unhide(v[i])
  \* --no-require-git can only matter when a git source holds a rule
  /\ (\A r \in s.rules : r.src \notin GitSrcs) => V(WithFlag(s, "no-require-git")) = V(s)

\* the precedence is a total order: whenever several sources answer, the answer is that of the
\* one earliest in SrcOrder, whatever the polarities
PrecedenceTotal(s) ==
  \A e \in Entries, b \in BOOLEAN :
    LET ans == {src \in Sources : SrcAnswer(s, src, e, b) # "none"} IN
    IgnoreAnswer(s, e, b) =
      IF ans = {} THEN "none"
      ELSE SrcAnswer(s, CHOOSE x \in ans : \A y \in ans : Rank(x) <= Rank(y), e, b)

ASSUME /\ \A a, b \in Sources : a # b => Rank(a) # Rank(b)
       /\ {SrcOrder[i] : i \in 1..Len(SrcOrder)} = Sources

\* an explicitly named path is listed whatever the scenario says
ExplicitAlways(s) == \A b \in BOOLEAN : Explicit(s.root) \subseteq Listed(s, b)

\* a scenario that can be materialised: exclude files live in .git, at most one rule per file and entry
WellFormed(s) ==
  /\ \A r \in s.rules : /\ r.src \in Sources /\ r.ent \in Entries /\ r.pol \in {"ignore", "white"}
                        /\ (r.src \in FlatSrcs <=> r.lvl = 3)
                        /\ (r.src \in DirSrcs => r.lvl \in 0..2)
                        /\ (r.src = "exclude" => r.lvl \in s.git)
  /\ \A r1, r2 \in s.rules : (r1.src = r2.src /\ r1.lvl = r2.lvl /\ r1.ent = r2.ent) => r1 = r2
  /\ FlagSetOK(s.flags) /\ s.glob \in Globs /\ s.types \in TypeSel
  /\ s.depth \in Depths /\ s.root \in RootModes /\ s.git \subseteq 0..2

\* which clause of the statement a scenario is mainly about (used to label failures)
Clause(s) ==
  IF Explicit(s.root) # {} THEN "explicit_path"
  ELSE IF s.depth # -1 THEN "max_depth"
  ELSE IF s.glob # NoGlob THEN "overrides"
  ELSE IF s.types # "none" THEN "types"
  ELSE IF "no-require-git" \in s.flags \/ (s.git = {} /\ \E r \in s.rules : r.src \in GitSrcs) THEN "require_git"
  ELSE IF s.flags \ {"hidden"} # {} THEN "flag_removes_source"
  ELSE IF (\E r \in s.rules : r.ent = "h") \/ s.flags = {"hidden"} THEN "hidden"
  ELSE IF \E r \in s.rules : r.src \in DirSrcs /\ r.lvl > RootLvl(s.root) THEN "parent"
  ELSE "precedence"

\* ---------------------------------------------------------------- scenario generation
Slots(git) == {<<src, l>> : src \in DirSrcs \ {"exclude"}, l \in 0..2}
              \cup {<<"exclude", l>> : l \in git}
              \cup {<<src, 3>> : src \in FlatSrcs}
\* a rule in slot sl can concern entry e
Relevant(sl, e) == sl[2] = 3 \/ sl[2] \in Chain(e)
PolsOf(e) == IF e = "d" THEN {"ignore"} ELSE {"ignore", "white"}
RulesFor(sl) == {[src |-> sl[1], lvl |-> sl[2], ent |-> e, pol |-> p] :
                   e \in {x \in Entries : Relevant(sl, x)}, p \in {"ignore", "white"}}
                \ {[src |-> sl[1], lvl |-> sl[2], ent |-> "d", pol |-> "white"]}
SlotLess(a, b) == Rank(a[1]) < Rank(b[1]) \/ (a[1] = b[1] /\ a[2] < b[2])

Init == /\ scn \in Seeds
        /\ pc = IF scn.fam = "free" THEN "git" ELSE "pick"
        /\ todo = 0
        /\ mask = {}

\* one-step families (exhaustive tiers): a successor step so that TLC's workers share the work
Pick == /\ pc = "pick"
        /\ scn' \in ScenariosOf(scn)
        /\ pc' = "done"
        /\ UNCHANGED <<todo, mask>>

\* incremental builder (simulation): few successors per step, arbitrary subsets overall.
\* `todo` counts the rules / flags still to be added.
BuildGit == /\ pc = "git"
            /\ \E g \in SUBSET (0..2) : scn' = [scn EXCEPT !.git = g]
            /\ \E k \in 0..MaxSlots : todo' = k
            /\ mask' \in SUBSET {"glob", "types", "depth", "root"}
            /\ pc' = "rule"
FreeSlots(s) == {sl \in Slots(s.git) : \A r \in s.rules : <<r.src, r.lvl>> # sl}
BuildRule == /\ pc = "rule"
             /\ UNCHANGED mask
             /\ IF todo = 0 \/ FreeSlots(scn) = {}
                  THEN /\ pc' = "flags"
                       /\ \E k \in 0..MaxFlags : todo' = k
                       /\ UNCHANGED scn
                  ELSE /\ \E sl \in FreeSlots(scn) : \E r \in RulesFor(sl) : scn' = [scn EXCEPT !.rules = @ \cup {r}]
                       /\ todo' = todo - 1
                       /\ pc' = "rule"
BuildFlags == /\ pc = "flags"
              /\ UNCHANGED mask
              /\ IF todo = 0
                   THEN pc' = "glob" /\ UNCHANGED <<scn, todo>>
                   ELSE /\ \E f \in FlagNames \ scn.flags :
                             /\ FlagSetOK(scn.flags \cup {f})
                             /\ scn' = [scn EXCEPT !.flags = @ \cup {f}]
                        /\ todo' = todo - 1
                        /\ pc' = "flags"
Opt(name, all, dflt) == IF name \in mask THEN all \ {dflt} ELSE {dflt}
BuildGlob  == pc = "glob"  /\ pc' = "types" /\ UNCHANGED <<todo, mask>>
              /\ \E g \in Opt("glob", Globs, NoGlob) : scn' = [scn EXCEPT !.glob = g]
BuildTypes == pc = "types" /\ pc' = "depth" /\ UNCHANGED <<todo, mask>>
              /\ \E t \in Opt("types", TypeSel, "none") : scn' = [scn EXCEPT !.types = t]
BuildDepth == pc = "depth" /\ pc' = "root"  /\ UNCHANGED <<todo, mask>>
              /\ \E d \in Opt("depth", Depths, -1) : scn' = [scn EXCEPT !.depth = d]
BuildRoot  == pc = "root"  /\ pc' = "fin"   /\ UNCHANGED <<todo, mask>>
              /\ \E r \in Opt("root", RootModes, "dot") : scn' = [scn EXCEPT !.root = r]
\* (a last step with one successor: in simulation TLC evaluates the invariants - hence Emitted - on
\* every successor it generates, not only on the one it follows)
BuildFin   == pc = "fin"   /\ pc' = "done"  /\ UNCHANGED <<scn, todo, mask>>

Next == Pick \/ BuildGit \/ BuildRule \/ BuildFlags \/ BuildGlob \/ BuildTypes \/ BuildDepth \/ BuildRoot \/ BuildFin
Spec == Init /\ [][Next]_vars

Done == pc = "done"

\* ---------------------------------------------------------------- invariants
Sane       == Done => WellFormed(scn)
Algebra    == Done => FlagAlgebra(scn)
Precedence == Done => PrecedenceTotal(Normalised(scn))
ExplicitOK == Done => ExplicitAlways(scn)

AsSeq(S) == (IF "f" \in S THEN <<"f">> ELSE <<>>) \o (IF "g" \in S THEN <<"g">> ELSE <<>>)
            \o (IF "h" \in S THEN <<"h">> ELSE <<>>)

\* one line per complete scenario: the scenario, the listings the documented rules allow (one,
\* or two where --no-require-git meets a repository boundary), and the clause it is about
Emitted == Done => PrintT(<<"EMIT", ToJson([scn |-> scn,
                                           allowed |-> {AsSeq(x) : x \in Allowed(scn)},
                                           clause |-> Clause(scn),
                                           in_repo |-> (scn.git # {})])>>)
=============================================================================

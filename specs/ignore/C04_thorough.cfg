\* C04 thorough tier: everything of the quick tier with and without case-insensitivity on all trees, plus
\* three root lines (PA x PB x PC, three orders), two root lines x one nested line, one root
\* line x two nested lines.  About 85 000 repositories.
SPECIFICATION Spec
CONSTANTS
  Seeds <- ThoroughSeeds
  ScenariosOf <- MCScenariosOf
INVARIANTS SpecSane Emitted

SPECIFICATION Spec
CONSTANTS
  Seeds <- ThoroughSeeds
  ScenariosOf <- MCScenariosOf
INVARIANTS SpecSane Emitted

SPECIFICATION Spec
CONSTANTS
  Seeds <- MCSeeds
  ScenariosOf <- MCScenariosOf
  MaxSlots = 0
  MaxFlags = 0
  Fams = {"pairs", "flags", "flag2", "roots", "globs"}
  PairRoots <- RootsDot
  FlagGits <- GitsSingle
  FlagPairsEverywhere = FALSE
  Flag2Gits <- GitsRoot
  Flag2Lvls <- LvlsNear
  GlobRoots <- RootsGlobQuick
INVARIANTS Sane Algebra Precedence ExplicitOK Emitted

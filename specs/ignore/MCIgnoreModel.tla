---------------------------- MODULE MCIgnoreModel ----------------------------
(* Bounded scenario families for IgnoreModel (C05); one cfg per tier selects the families. *)
EXTENDS IgnoreModel

CONSTANTS Fams,        \* families to generate
          PairRoots,   \* root modes used by the "pairs" family
          FlagGits,    \* .git placements used by the "flags" family
          FlagPairsEverywhere, \* "flags" family: all conflicts of two files instead of the nearest ones only
          Flag2Gits,   \* .git placements used by the "flag2" family
          Flag2Lvls,   \* levels of the single rule in the "flag2" family
          GlobRoots    \* root modes used by the "globs" family

SlotOf(r) == <<r.src, r.lvl>>
RulesAbout(e, git) ==
  UNION {{[src |-> sl[1], lvl |-> sl[2], ent |-> e, pol |-> p] : p \in PolsOf(e)}
           : sl \in {x \in Slots(git) : Relevant(x, e)}}

\* no rule, every single rule, every pair of rules in two different files - all about entry e
UpToTwo(e, git) ==
  LET A == RulesAbout(e, git) IN
  {{}} \cup {{r} : r \in A}
       \cup {{p[1], p[2]} : p \in {q \in A \X A : SlotLess(SlotOf(q[1]), SlotOf(q[2]))}}
Singles(e, git) == {{r} : r \in RulesAbout(e, git)}

\* ---- family "pairs": conflicts of two files (sources x levels x polarities) x repository placement
PairSeeds == {[Base EXCEPT !.fam = "pairs", !.tag = e, !.git = g, !.root = r]
                : e \in Entries, g \in SUBSET (0..2), r \in PairRoots}
PairScn(s) == {[s EXCEPT !.rules = R] : R \in UpToTwo(s.tag, s.git)}

\* ---- family "flags": every single flag over (a) every single rule x repository placement and
\* (b) every conflict of two different files in the entry's own directory (plus the two flat files)
NearTwo(e, git) ==
  LET A == {r \in RulesAbout(e, git) : r.lvl \in {DirLvl(e), 3}} IN
  {{p[1], p[2]} : p \in {q \in A \X A : SlotLess(SlotOf(q[1]), SlotOf(q[2]))}}
FlagSeeds == {[Base EXCEPT !.fam = "flags", !.tag = e, !.git = g, !.flags = {fl}]
                : e \in Entries, g \in FlagGits, fl \in FlagNames}
FlagScn(s) == {[s EXCEPT !.rules = R]
                 : R \in Singles(s.tag, s.git) \cup (IF DirLvl(s.tag) \in s.git \/ FlagPairsEverywhere
                                                      THEN (IF FlagPairsEverywhere THEN UpToTwo(s.tag, s.git) ELSE NearTwo(s.tag, s.git))
                                                      ELSE {})}

\* ---- family "flag2": every pair of flags over single rules
Flag2Seeds == {[Base EXCEPT !.fam = "flag2", !.git = g, !.flags = {f1, f2}]
                 : g \in Flag2Gits, f1 \in FlagNames, f2 \in FlagNames}
Flag2Scn(s) == IF Cardinality(s.flags) # 2 \/ ~FlagSetOK(s.flags) THEN {}
               ELSE {[s EXCEPT !.rules = R]
                       : R \in UNION {{x \in Singles(e, s.git) : \A r \in x : r.lvl \in Flag2Lvls} : e \in {"f", "h", "g"}}}

\* ---- a few fixed rule sets for the option families
Rl(src, l, e, p) == [src |-> src, lvl |-> l, ent |-> e, pol |-> p]
OptRules == { {},
              {Rl("ignore", 1, "f", "ignore")},
              {Rl("ignore", 1, "f", "white"), Rl("ignorefile", 3, "f", "ignore")},
              {Rl("ignore", 1, "h", "white")},
              {Rl("ignore", 1, "d", "ignore")},
              {Rl("rgignore", 0, "g", "ignore")},
              {Rl("ignore", 1, "g", "white"), Rl("ignore", 2, "g", "ignore")},
              {Rl("ignore", 2, "f", "ignore"), Rl("rgignore", 2, "g", "ignore")},
              {Rl("ignorefile", 3, "g", "ignore"), Rl("ignorefile", 3, "f", "ignore")} }

\* ---- family "roots": how the search roots are named x --max-depth
RootSeeds == {[Base EXCEPT !.fam = "roots", !.root = r, !.depth = d] : r \in RootModes, d \in Depths}
RootScn(s) == {[s EXCEPT !.rules = R, !.flags = F]
                 : R \in OptRules, F \in {{}, {"hidden"}, {"no-ignore-parent"}}}

\* ---- family "globs": -g x -t/-T over rules, flags and roots
GlobSeeds == {[Base EXCEPT !.fam = "globs", !.glob = g, !.types = t] : g \in Globs, t \in TypeSel}
GlobScn(s) == {[s EXCEPT !.rules = R, !.flags = F, !.root = r]
                 : R \in OptRules, F \in {{}, {"hidden"}, {"no-ignore"}}, r \in GlobRoots}

\* ---- family "free": the incremental builder (simulation, or exhaustive for tiny MaxSlots)
FreeSeeds == {[Base EXCEPT !.fam = "free"]}

MCSeeds == (IF "pairs" \in Fams THEN PairSeeds ELSE {})
      \cup (IF "flags" \in Fams THEN FlagSeeds ELSE {})
      \cup (IF "flag2" \in Fams THEN Flag2Seeds ELSE {})
      \cup (IF "roots" \in Fams THEN RootSeeds ELSE {})
      \cup (IF "globs" \in Fams THEN GlobSeeds ELSE {})
      \cup (IF "free" \in Fams THEN FreeSeeds ELSE {})

MCScenariosOf(s) ==
  CASE s.fam = "pairs" -> PairScn(s)
    [] s.fam = "flags" -> FlagScn(s)
    [] s.fam = "flag2" -> Flag2Scn(s)
    [] s.fam = "roots" -> RootScn(s)
    [] s.fam = "globs" -> GlobScn(s)
    [] OTHER -> {}

\* ---- self-test of the theorems (C05_selftest.cfg): a deliberately wrong flag table - --no-ignore-vcs
\* forgets .git/info/exclude - must make TLC report a violation of the Algebra invariant
MutSrcEnabled(src, N) ==
  CASE src \in {"rgignore", "ignore"} -> "no-ignore-dot" \notin N
    [] src = "gitignore"  -> "no-ignore-vcs" \notin N
    [] src = "exclude"    -> "no-ignore-exclude" \notin N
    [] src = "global"     -> "no-ignore-vcs" \notin N /\ "no-ignore-global" \notin N
    [] src = "ignorefile" -> "no-ignore-files" \notin N

\* placements of .git (as sets of levels)
GitsAll == SUBSET (0..2)
GitsSingle == {{}, {0}, {1}, {2}}
GitsRoot == {{1}}
GitsRootNoneParent == {{}, {1}, {2}}
RootsDot == {"dot"}
RootsDotSub == {"dot", "sub"}
RootsGlobQuick == {"dot", "abs", "sub"}
LvlsNear == {1, 3}
LvlsAll == 0..3
RootsWalk == {"dot", "dotslash", "abs", "sub"}
=============================================================================

SPECIFICATION Spec
CONSTANTS
  Seeds <- MCSeeds
  ScenariosOf <- MCScenariosOf
  MaxSlots = 5
  MaxFlags = 3
  Fams = {"free"}
  PairRoots <- RootsDot
  FlagGits <- GitsSingle
  FlagPairsEverywhere = FALSE
  Flag2Gits <- GitsRoot
  Flag2Lvls <- LvlsNear
  GlobRoots <- RootsGlobQuick
INVARIANTS Sane Algebra Precedence ExplicitOK Emitted

---------------------------- MODULE MCGitignore ----------------------------
(* Bounded scenario generators for Gitignore: trees, the line grammar, and the families of ignore-file
   contents enumerated by TLC in the quick and the thorough tier. *)
EXTENDS Gitignore

\* ---------------------------------------------------------------- trees (<= 3 levels; names: lower, upper, dots,
\* trailing dot, leading dash, a glob character, hidden, and names that need the `\!` `\#` `\ ` escapes).
\* `sub` is the directory that holds the nested ignore file.  In T1 and T2 the last entry of `sub` (in path
\* order) is itself a directory and more entries follow `sub` in its parent, so that a walker that keeps a
\* stack of ignore matchers has to pop several levels at once and then go on.
T1Files == <<" #a", "!a", "#a", "*", "-x", ".h", "A", "a ", "b.c", "d.",
             "a/.h", "a/A", "a/a", "a/b.c/a", "a/b.c/b.c">>
T2Files == <<"a", "*/a", "*/-x", "-x/a", ".h/a", "A/a", "A/b.c/a", "b.c/a", "b.c/b.c", "d./a", "d./d.">>
T1 == [tree |-> "T1", sub |-> "a", files |-> T1Files]
T2 == [tree |-> "T2", sub |-> "A", files |-> T2Files]
T3 == [tree |-> "T3", sub |-> "*", files |-> T2Files]        \* the nested ignore file lives in a directory named `*`
T4 == [tree |-> "T4", sub |-> "a/b.c", files |-> T1Files]    \* ... two levels down
\* four levels: for `**/`-patterns of several components of which one is the tail of another
T5Files == <<"a/a/b.c/a", "a/a/b.c/b.c", "a/b.c/a", "b.c/a", "a/a/a", "A/a/b.c/a", "c">>
T5 == [tree |-> "T5", sub |-> "a", files |-> T5Files]
Trees == {T1, T2, T3}

\* ---------------------------------------------------------------- the line grammar
\* line = prefix body suffix | special
Prefixes == {"", "!", "/", "!/"}
BLit   == {"a", "b.c", "A", "d.", "-x", "\\*", ".h"}
BWild  == {"*", "?", "*.c", "*.", ".*", "b.?", "[ab]", "[!a]", "[a-c].c", "d[.]", "-*", "[^b-z]*", "[a-a]", "b.[c-c]"}
BStar2 == {"**/a", "**/b.c", "a/**", "a/**/b.c", "**", "A/**", "**/A/*", "b**c", "**.c", "**a", "**c", "**/b.c/a", "**/a/a", "**/a/A", "**/b.c/b.c"}
BSlash == {"a/a", "a/b.c", "a/*", "*/a", "*/b.c", "a/A", "A/b.c", "a/b.c/a", "a/*/b.c", "a/?", "d./a", "*/d."}
Bodies == BLit \cup BWild \cup BStar2 \cup BSlash
BlankBodies == {"a", "*", "a/a", "d."}
BlankSuffixes == {" ", "\\ ", "  ", "\\  ", "/ ", " \\ ", "\t"}     \* (a tab is not a trailing space for git)
Specials == {"#", "#a", "# a", "#!a", "\\#a", "\\!a", "!\\!a", "!\\#a", "\\!a/", "\\#a ", " ", "!", "a\\ /",
             " #a", "  #a", "! #a"}       \* only a `#` in column one starts a comment

Compose(P, B, S) == {p \o b \o s : p \in P, b \in B, s \in S}
SingleLines == Compose(Prefixes, Bodies, {"", "/"}) \cup Compose(Prefixes, BlankBodies, BlankSuffixes) \cup Specials

\* pools for the multi-line families: PA mostly ignores, PB mostly re-includes, PS is written for the
\* nested file (relative to the sub-directory), PC third lines
PA == {"*", "/*", "a", "a/", "/a", "a/*", "a/**", "*.c", "b.c", "**/b.c", "[!a]*", ".*", "A", "*/", "/*.c", "a/*.c", "**/b.c/b.c", "**/b.c/a"}
PB == {"!a", "!a/", "!/a", "!a/a", "!a/b.c", "!b.c", "!*.c", "!*", "!*/", "!**/b.c", "!a/**/b.c", "!.h",
       "!\\*", "!-x", "!d.", "!A", "!a/A", "!a/b.c/", "!/b.c", "!a/**", "!?", "![ab]", "!A/", "!**/a", "!",
       "*/", "b.c/", "!/b*.c", "!a/b*.c", "!**.c", "**/a/A", "**/a/a", "!**/a/a"}
PDup == {"!*.c", "!b.c", "!a/", "!a", "!*", "*.c", "!/a/b.c/"}
PDupFirst == {"*.c", "b.c", "a/", "a", "!b.c", "/a/b.c/", "*"}
PNegRoot == {"!b.c", "!a/b.c", "!A/"}
\* malformed lines (unterminated bracket): they match nothing, and the lines around them mean what they mean without them
PSuf == {"**/a/b.c/a", "!**/b.c/a", "**/b.c/a", "!**/a/b.c/a", "**/a/b.c", "!**/b.c", "**/a/b.c/", "!**/a/a/b.c", "!**/a/b.c/", "**/a/a"}
PBad == {"*.[oa", "a[", "!a[", "[", "b.[c/"}
PS == {"!a", "!/a", "!b.c", "!*.c", "!*", "!b.c/", "!A", "!**/b.c", "!.h", "!b.c/a", "!-x",
       "a", "/b.c", "*", "b.c/", "-x", "*.c"}
PC == {"a/b.c", "/b.c", "*.c", "!*.c", "a/b.c/", "!a/b.c/b.c", "*", "!*", "#*", "A", "!A/a"}

\* ---------------------------------------------------------------- scenarios
Mk(t, ci, r, s) ==
  [tree |-> t.tree, files |-> t.files, ci |-> ci,
   ign |-> (IF r = <<>> THEN <<>> ELSE <<[dir |-> "", lines |-> r]>>)
           \o (IF s = <<>> THEN <<>> ELSE <<[dir |-> t.sub, lines |-> s]>>)]

Seed(t, ci, fam, l1, l2) == [t |-> t, ci |-> ci, fam |-> fam, l1 |-> l1, l2 |-> l2]

MCScenariosOf(sd) ==
  CASE sd.fam = "single" -> {Mk(sd.t, sd.ci, <<sd.l1>>, <<>>), Mk(sd.t, sd.ci, <<>>, <<sd.l1>>)}
    [] sd.fam = "single_sub" -> {Mk(sd.t, sd.ci, <<>>, <<sd.l1>>)}      \* (T3 differs from T2 only in `sub`)
    [] sd.fam = "pairs"  -> UNION {{Mk(sd.t, sd.ci, <<sd.l1, l2>>, <<>>), Mk(sd.t, sd.ci, <<l2, sd.l1>>, <<>>)} : l2 \in PB}
    [] sd.fam = "nest"   -> {Mk(sd.t, sd.ci, <<sd.l1>>, <<s>>) : s \in PS}
    \* the same line twice with a contradicting one in between: the last occurrence decides
    [] sd.fam = "dup" -> {Mk(sd.t, sd.ci, <<sd.l1, l2, sd.l1>>, <<>>) : l2 \in PDup} \cup {Mk(sd.t, sd.ci, <<>>, <<sd.l1, l2, sd.l1>>) : l2 \in PDup}
    \* two `**/` patterns of several components, one the tail of the other, in both orders (the later line decides)
    [] sd.fam = "suffix" -> {Mk(sd.t, sd.ci, <<sd.l1, l2>>, <<>>) : l2 \in PSuf \ {sd.l1}}
                            \cup {Mk(sd.t, sd.ci, <<>>, <<sd.l1, l2>>) : l2 \in {"!**/b.c/a", "**/b.c/a", "!**/b.c", "**/a/b.c"} \ {sd.l1}}
    \* a malformed line in front of / between other lines, in the root file or in the nested one
    [] sd.fam = "bad" -> {Mk(sd.t, sd.ci, <<sd.l1, l2>>, <<>>) : l2 \in PB \cup {"a/", "b.c/", "*/", "a"}}
                         \cup {Mk(sd.t, sd.ci, <<l0, sd.l1, l2>>, <<>>) : l0 \in {"*", "*.c", "a/"}, l2 \in {"!b.c", "!a/", "!*.c", "!a/b.c/", "A/"}}
                         \cup {Mk(sd.t, sd.ci, <<"*">>, <<sd.l1, l2>>) : l2 \in PS}
    \* three lines (thorough)
    [] sd.fam = "triples" -> UNION {{Mk(sd.t, sd.ci, <<sd.l1, sd.l2, l3>>, <<>>), Mk(sd.t, sd.ci, <<sd.l1, l3, sd.l2>>, <<>>),
                                     Mk(sd.t, sd.ci, <<l3, sd.l2, sd.l1>>, <<>>)} : l3 \in PC}
    [] sd.fam = "nest21" -> {Mk(sd.t, sd.ci, <<sd.l1, sd.l2>>, <<s>>) : s \in PS}
    [] sd.fam = "nest21r" -> {Mk(sd.t, sd.ci, <<sd.l2, sd.l1>>, <<s>>) : s \in PS}
    [] sd.fam = "nest12" -> {Mk(sd.t, sd.ci, <<sd.l1>>, <<sd.l2, s>>) : s \in PS}

QuickSeeds ==
  {Seed(t, FALSE, "single", l, "") : t \in {T1, T2}, l \in SingleLines}
  \cup {Seed(T3, FALSE, "single_sub", l, "") : l \in SingleLines}
  \cup {Seed(T1, TRUE, "single", l, "") : l \in SingleLines}
  \cup {Seed(T2, TRUE, "single", l, "") : l \in Compose({"", "!/"}, BLit \cup BSlash, {"", "/"})}
  \cup {Seed(t, FALSE, "pairs", l, "") : t \in {T1, T2}, l \in PA}
  \cup {Seed(t, FALSE, "nest", l, "") : t \in Trees \cup {T4}, l \in PA \cup PNegRoot}
  \cup {Seed(T1, TRUE, "pairs", l, "") : l \in {"a", "A", "a/*"}}
  \cup {Seed(T1, FALSE, "dup", l, "") : l \in PDupFirst}
  \cup {Seed(T1, FALSE, "bad", l, "") : l \in PBad}
  \cup {Seed(T5, FALSE, "suffix", l, "") : l \in PSuf}

ThoroughSeeds ==
  {Seed(t, ci, "single", l, "") : t \in {T1, T2}, ci \in BOOLEAN, l \in SingleLines}
  \cup {Seed(T3, ci, "single_sub", l, "") : ci \in BOOLEAN, l \in SingleLines}
  \cup {Seed(t, ci, "pairs", l, "") : t \in {T1, T2}, ci \in BOOLEAN, l \in PA}
  \cup {Seed(t, ci, "nest", l, "") : t \in Trees \cup {T4}, ci \in BOOLEAN, l \in PA \cup PNegRoot}
  \cup {Seed(t, ci, "dup", l, "") : t \in {T1, T2}, ci \in BOOLEAN, l \in PDupFirst}
  \cup {Seed(t, ci, "bad", l, "") : t \in {T1, T2}, ci \in BOOLEAN, l \in PBad}
  \cup {Seed(T5, ci, "suffix", l, "") : ci \in BOOLEAN, l \in PSuf}
  \cup {Seed(t, FALSE, "triples", l1, l2) : t \in {T1, T2}, l1 \in PA, l2 \in PB}
  \cup {Seed(t, FALSE, "nest21", l1, l2) : t \in Trees \cup {T4}, l1 \in PA, l2 \in PB}
  \cup {Seed(T1, FALSE, "nest21r", l1, l2) : l1 \in PA, l2 \in PB}
  \cup {Seed(t, FALSE, "nest12", l1, l2) : t \in Trees, l1 \in PA \cup PNegRoot, l2 \in PS}

\* a tiny configuration for smoke tests
SmokeSeeds == {Seed(T1, FALSE, "single", l, "") : l \in {"*.c", "!a", "a/", "\\!a", "a\\ "}}
                \cup {Seed(T1, FALSE, "pairs", "a/*", "")}
=============================================================================

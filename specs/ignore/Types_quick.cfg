SPECIFICATION Spec
CONSTANTS
  MaxSel = 2
INVARIANTS DesignOK DocSane Emitted

\* C04 quick tier: trees T1-T3 (T4 for the nested family); every single line of the grammar at the root and
\* in the sub-directory (case-sensitive on T1-T3, case-insensitive on T1 and, literal bodies only, on T2); two root lines PA x PB in both
\* orders (T1, T2); one root line x one nested line (T1-T4).  About 6 600 repositories.
SPECIFICATION Spec
CONSTANTS
  Seeds <- QuickSeeds
  ScenariosOf <- MCScenariosOf
INVARIANTS SpecSane Emitted

SPECIFICATION Spec
CONSTANTS
  Seeds <- QuickSeeds
  ScenariosOf <- MCScenariosOf
INVARIANTS SpecSane Emitted

SPECIFICATION Spec
CONSTANTS
  MaxSel = 3
INVARIANTS DesignOK DocSane Emitted

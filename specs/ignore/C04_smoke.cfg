SPECIFICATION Spec
CONSTANTS
  Seeds <- SmokeSeeds
  ScenariosOf <- MCScenariosOf
INVARIANTS SpecSane Emitted

\* a handful of repositories (used while developing the specification)
SPECIFICATION Spec
CONSTANTS
  Seeds <- SmokeSeeds
  ScenariosOf <- MCScenariosOf
INVARIANTS SpecSane Emitted

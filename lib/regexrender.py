"""Rendering of the spec's abstract values (symbols, user-level pattern ASTs) to concrete bytes/syntax."""

SYM = {1: b"a", 2: b"b", 3: b"A", 4: b"B", 5: b"_", 6: b"0", 7: b" ", 8: b"-", 9: b".",
       10: "é".encode(), 11: "É".encode(), 12: b"\xff", 13: b"\r", 14: b"\n", 15: b"\x00"}
META = set("\\.+*?()|[]{}^$#&-~")
INF = 9999


def sym_bytes(seq):
    return b"".join(SYM[c] for c in seq)


def sym_str(c):
    return SYM[c].decode("utf8")


def lit(c, in_class=False):
    if c == 12:
        return "\\xFF"          # the invalid byte: only writable as an escape (and only accepted in byte mode, (?-u:...))
    s = sym_str(c)
    if s in META or (in_class and s in "^-]\\"):
        return "\\" + s
    return s


def render(u, fixed=False):
    """User AST (JSON from TLC) -> regex syntax (or the raw literal under -F)."""
    if fixed:
        return "".join(sym_str(c) for c in flatten_lits(u))
    return _r(u, 0)


def flatten_lits(u):
    if u["k"] == "lit":
        return [u["c"]]
    if u["k"] == "cat":
        return flatten_lits(u["a"]) + flatten_lits(u["b"])
    raise ValueError("not a literal string: %r" % (u,))


def _r(u, prec):
    """prec: 0 = alternation allowed, 1 = inside concatenation, 2 = operand of a repetition."""
    k = u["k"]
    if k == "lit":
        return lit(u["c"])
    if k == "cls":
        body = "".join(lit(c, True) for c in sorted(u["s"]))
        return "[" + ("^" if u["neg"] else "") + body + "]"
    if k == "wcls":
        return "\\W" if u["neg"] else "\\w"
    if k == "nou":
        return "(?-u:" + _r(u["a"], 0) + ")"
    if k == "pcls":
        return "[[:upper:]]" if u["up"] else "[[:lower:]]"
    if k == "dot":
        return "."
    if k == "look":
        return {"bol": "^", "eol": "$", "wb": "\\b", "nwb": "\\B", "bot": "(?-m:^)", "eot": "(?-m:$)"}[u["l"]]
    if k == "cat":
        s = _r(u["a"], 1) + _r(u["b"], 1)
        return "(?:" + s + ")" if prec >= 2 else s
    if k == "alt":
        s = _r(u["a"], 0) + "|" + _r(u["b"], 0)
        return "(?:" + s + ")" if prec >= 1 else s
    if k == "ngrp":
        return "(?P<" + u["name"] + ">" + _r(u["a"], 0) + ")"
    if k == "grp":
        inner = _r(u["a"], 0)
        return ("(" if u["cap"] else "(?:") + inner + ")"
    if k == "rep":
        a = _r(u["a"], 2)
        if u["a"]["k"] in ("look",):
            a = "(?:" + a + ")"
        mn, mx = u["min"], u["max"]
        if (mn, mx) == (0, INF):
            q = "*"
        elif (mn, mx) == (1, INF):
            q = "+"
        elif (mn, mx) == (0, 1):
            q = "?"
        elif mx == INF:
            q = "{%d,}" % mn
        elif mn == mx:
            q = "{%d}" % mn
        else:
            q = "{%d,%d}" % (mn, mx)
        return a + q + ("" if u["g"] else "?")
    raise ValueError("unknown node %r" % (u,))


def opt_flags(o, fixed=False):
    f = []
    if o.get("ci"):
        f.append("-i")
    if o.get("smart"):
        f.append("-S")
    if o.get("word"):
        f.append("-w")
    if o.get("line"):
        f.append("-x")
    if o.get("crlf"):
        f.append("--crlf")
    if o.get("nul"):
        f.append("--null-data")
    if o.get("inv"):
        f.append("-v")
    if fixed:
        f.append("-F")
    return f


def term_bytes(o):
    if o.get("nul"):
        return b"\x00"
    if o.get("crlf"):
        return b"\r\n"
    return b"\n"


TCH = {1: b"$", 2: b"{", 3: b"}", 4: b"1", 5: b"2", 6: b"x", 7: b"-", 8: b"0", 9: b"a", 10: b"_", 11: b"4", 12: b"9", 13: b"6", 14: b"7"}


def tpl_bytes(tpl):
    return b"".join(TCH[c] for c in tpl)


def items_bytes(items):
    """Output items of Printer.tla (["s", symbol] | ["t", template char]) -> bytes."""
    return b"".join(SYM[v] if t == "s" else TCH[v] for t, v in items)

"""Running the rg binary on many scenarios in parallel."""
import concurrent.futures as cf
import json
import os
import shutil
import subprocess
import tempfile

import vlib


def rg_env(home=None):
    e = {"PATH": os.environ.get("PATH", ""), "HOME": home or "/nonexistent", "RIPGREP_CONFIG_PATH": "",
         "LC_ALL": "C.UTF-8", "LANG": "C.UTF-8", "TERM": "dumb"}
    return e


def run_many(jobs, nproc=14, timeout=60):
    """jobs: list of dict(args=[...bytes or str], cwd=..., stdin=bytes or None) -> list of (rc, stdout, stderr)."""
    rg = vlib.build_rg()

    def one(j):
        try:
            p = subprocess.run([rg] + j["args"], cwd=j.get("cwd"), input=j.get("stdin"), stdout=subprocess.PIPE,
                               stderr=subprocess.PIPE, timeout=timeout, env=j.get("env") or rg_env(),
                               stdin=None if j.get("stdin") is not None else subprocess.DEVNULL)
            return (p.returncode, p.stdout, p.stderr)
        except subprocess.TimeoutExpired:
            return (-9, b"", b"timeout")

    with cf.ThreadPoolExecutor(max_workers=nproc) as ex:
        return list(ex.map(one, jobs))


def json_matches(stdout):
    """Parse rg --json output -> list of message dicts (bytes-safe)."""
    out = []
    for line in stdout.splitlines():
        if not line.strip():
            continue
        try:
            out.append(json.loads(line))
        except Exception:
            out.append({"type": "unparsable", "raw": line.decode("utf8", "replace")})
    return out


class Scratch:
    def __init__(self, name):
        self.dir = tempfile.mkdtemp(prefix="verif-%s-" % name)

    def path(self, *a):
        return os.path.join(self.dir, *a)

    def write(self, rel, data):
        p = self.path(rel)
        os.makedirs(os.path.dirname(p), exist_ok=True)
        with open(p, "wb") as f:
            f.write(data)
        return p

    def close(self):
        shutil.rmtree(self.dir, ignore_errors=True)

"""Common machinery for the /verif checks: building, running TLC, evidence, verdicts.

Exit-code policy (DESIGN.md section 3): 0 = held, 1 = only together with a VIOLATION line,
2 = tool error / timeout / model drift.
"""
import hashlib
import json
import os
import re
import subprocess
import sys
import time

ROOT = os.path.dirname(os.path.dirname(os.path.abspath(__file__)))
REPO = os.environ.get("VERIF_REPO", "/repo")
HARNESS = os.path.join(ROOT, "harness")
SPECS = os.path.join(ROOT, "specs")
WORK = os.path.join(ROOT, "work")
GUARD = "ripgrep_verif"
TLA_JAR = "/opt/veriftools/tla/tla2tools.jar"


class ToolError(Exception):
    pass


def log(*a):
    print(*a, file=sys.stderr, flush=True)


def seed():
    try:
        return int(os.environ.get("VERIF_SEED", "0"))
    except ValueError:
        return 0


def run(cmd, timeout=None, env=None, cwd=None, input=None, check=False):
    e = dict(os.environ)
    if env:
        e.update(env)
    try:
        p = subprocess.run(cmd, cwd=cwd, env=e, input=input, timeout=timeout,
                           stdout=subprocess.PIPE, stderr=subprocess.PIPE)
    except subprocess.TimeoutExpired as ex:
        raise ToolError("timeout after %ss: %s" % (timeout, " ".join(map(str, cmd))[:300])) from ex
    if check and p.returncode != 0:
        raise ToolError("command failed (%d): %s\n%s" % (
            p.returncode, " ".join(map(str, cmd))[:300], p.stderr.decode("utf8", "replace")[-3000:]))
    return p


# ---------------------------------------------------------------------------
# building

_built = {}


def cargo_env():
    return {"CARGO_NET_OFFLINE": "true"}


def build_harness(bins=None):
    """Build the conformance drivers against /repo's working tree with the hook guard on."""
    key = ("harness", tuple(bins or ()))
    if key in _built:
        return _built[key]
    lock = os.path.join(HARNESS, "Cargo.lock")
    if not os.path.exists(lock):
        import shutil
        shutil.copy(os.path.join(REPO, "Cargo.lock"), lock)
    cmd = ["cargo", "build", "--offline"]
    if bins:
        for b in bins:
            cmd += ["--bin", b]
    else:
        cmd += ["--bins"]
    t0 = time.time()
    p = run(cmd, cwd=HARNESS, env=cargo_env(), timeout=1800)
    if p.returncode != 0:
        raise ToolError("harness build failed:\n" + p.stderr.decode("utf8", "replace")[-4000:])
    log("[build] harness %s in %.1fs" % (",".join(bins or ["all"]), time.time() - t0))
    d = os.path.join(HARNESS, "target", "debug")
    _built[key] = d
    return d


def hbin(name):
    return os.path.join(build_harness([name]), name)


def build_rg():
    """Build the rg binary from /repo's working tree with the hook guard on (debug assertions on)."""
    if "rg" in _built:
        return _built["rg"]
    tdir = os.path.join(HARNESS, "target-rg")
    env = cargo_env()
    env["RUSTFLAGS"] = "--cfg %s --check-cfg cfg(%s)" % (GUARD, GUARD)
    env["CARGO_PROFILE_DEV_DEBUG"] = "false"
    env["CARGO_PROFILE_DEV_OPT_LEVEL"] = "1"
    t0 = time.time()
    p = run(["cargo", "build", "--offline", "--manifest-path", os.path.join(REPO, "Cargo.toml"),
             "--target-dir", tdir, "--bin", "rg"], env=env, timeout=1800)
    if p.returncode != 0:
        raise ToolError("rg build failed:\n" + p.stderr.decode("utf8", "replace")[-4000:])
    log("[build] rg in %.1fs" % (time.time() - t0))
    path = os.path.join(tdir, "debug", "rg")
    _built["rg"] = path
    return path


# ---------------------------------------------------------------------------
# TLC

class TlcResult:
    def __init__(self, rc, out, wall):
        self.rc = rc
        self.out = out
        self.wall = wall
        self.generated = 0
        self.distinct = 0
        self.depth = 0
        m = None
        for m in re.finditer(r"(\d+) states generated, (\d+) distinct states found", out):
            pass
        if m:
            self.generated = int(m.group(1))
            self.distinct = int(m.group(2))
        m = re.search(r"The depth of the complete state graph search is (\d+)", out)
        if m:
            self.depth = int(m.group(1))
        self.ok = rc == 0

    def emits(self, tag="EMIT"):
        if getattr(self, "emit_path", None):
            return list(self.iter_emits(tag))
        return parse_emits(self.out, tag)

    def iter_emits(self, tag="EMIT", raw_filter=None):
        """Streamed runs (tlc(..., stream=True)) keep the emitted lines in a file, not in memory."""
        if getattr(self, "emit_path", None):
            with open(self.emit_path, "r", encoding="utf8", errors="replace") as fh:
                for x in iter_emits(fh, tag, raw_filter):
                    yield x
        else:
            for x in iter_emits(self.out.splitlines(), tag, raw_filter):
                yield x

    def discard(self):
        p = getattr(self, "emit_path", None)
        if p and os.path.exists(p):
            os.remove(p)
        self.emit_path = None

    def coverage_zero(self):
        """Actions (from -coverage output) that were never taken."""
        zero = []
        for m in re.finditer(r"<(\w+) line \d+, col \d+ to line \d+, col \d+ of module (\w+)>: (\d+):(\d+)", self.out):
            if int(m.group(4)) == 0 and m.group(1) not in ("Init",):
                zero.append(m.group(1))
        return sorted(set(zero))

    def tail(self, n=40):
        return "\n".join(self.out.splitlines()[-n:])


_EMIT_RE = {}


def parse_emits(out, tag="EMIT"):
    """Lines printed by PrintT(<<tag, ToJson(x)>>) -> list of decoded JSON values.

    TLC prints the tuple on one line (`<<"TAG", "...">>`) unless its pretty printer manages to
    parse the string, in which case it wraps it (`<< "TAG",\n   "..." >>`); both forms are accepted."""
    return list(iter_emits(out.splitlines(), tag))


def iter_emits(lines, tag="EMIT", raw_filter=None):
    """Generator form of parse_emits over any iterable of lines (a file object for streamed TLC output).
    raw_filter: optional predicate on the undecoded line, evaluated before the JSON is parsed."""
    rx = _EMIT_RE.get(tag)
    if rx is None:
        rx = _EMIT_RE[tag] = (re.compile(r'^<<"' + re.escape(tag) + r'", "(.*)">>$'),
                              re.compile(r'^<< "' + re.escape(tag) + r'",\s*$'))
    it = iter(lines)
    for line in it:
        line = line.rstrip("\n")
        m = rx[0].match(line)
        inner = None
        if m:
            inner = m.group(1)
        elif rx[1].match(line):
            # wrapped form: collect until the closing " >>"
            buf = []
            for nxt in it:
                nxt = nxt.rstrip("\n")
                buf.append(nxt.strip())
                if nxt.rstrip().endswith(">>"):
                    break
            mm = re.match(r'^"(.*)"\s*>>$', "".join(buf))
            if mm:
                inner = mm.group(1)
        if inner is not None:
            if raw_filter is not None and not raw_filter(inner):
                continue
            try:
                yield json.loads(json.loads('"' + inner + '"'))
            except Exception as ex:  # pragma: no cover
                raise ToolError("cannot decode emitted line: %r (%s)" % (line[:200], ex))


def tlc(module, cfg=None, workers=8, timeout=900, simulate=None, depth=None, tlc_seed=None,
        env=None, extra=None, dfs=False, xmx="8g", coverage=False, metaname=None, deadlock=False, stream=False):
    """Run TLC on specs/<module>.tla (path relative to /verif/specs, without .tla).

    Returns TlcResult; raises ToolError on timeout or parse/semantic errors (exit >= 150 etc.).
    rc 0 ok, 10 postcondition/assumption failure, 12 invariant violation, 13 liveness violation.
    """
    mpath = os.path.join(SPECS, module + ".tla")
    mdir = os.path.dirname(mpath)
    mname = os.path.basename(module)
    cfgpath = os.path.join(mdir, (cfg or mname) + ".cfg") if not (cfg or "").startswith("/") else cfg
    meta = os.path.join(WORK, "tlc", (metaname or (mname + "_" + os.path.basename(cfgpath))) + "_%d" % os.getpid())
    os.makedirs(meta, exist_ok=True)
    jopts = "-Xss1g"
    if dfs:
        jopts += " -Dtlc2.tool.queue.IStateQueue=StateDeque"
    # module search path: the module's own directory plus specs/common
    libs = os.pathsep.join([mdir, os.path.join(SPECS, "common")])
    cmd = ["java", "-Xmx" + xmx, "-XX:+UseParallelGC", "-DTLA-Library=" + libs,
           "-cp", TLA_JAR + ":/opt/veriftools/tla/CommunityModules-deps.jar:/opt/veriftools/tla/*",
           "tlc2.TLC", "-workers", str(workers), "-metadir", meta, "-cleanup", "-noGenerateSpecTE",
           "-config", cfgpath]
    if not deadlock:
        cmd += ["-deadlock"]
    if coverage:
        cmd += ["-coverage", "1"]
    if simulate:
        cmd += ["-simulate", "num=%d" % simulate]
        if depth:
            cmd += ["-depth", str(depth)]
    if tlc_seed is not None:
        cmd += ["-seed", str(tlc_seed)]
    if extra:
        cmd += extra
    cmd += [mpath]
    e = {"JAVA_TOOL_OPTIONS": jopts}
    if env:
        e.update(env)
    t0 = time.time()
    if stream:
        # the emitted scenarios go to a file (millions of lines); only TLC's own messages are kept in memory
        opath = meta + ".out"
        ee = dict(os.environ)
        ee.update(e)
        try:
            with open(opath, "wb") as fh:
                try:
                    pr = subprocess.run(cmd, cwd=mdir, env=ee, stdout=fh, stderr=subprocess.PIPE, timeout=timeout)
                except subprocess.TimeoutExpired as ex:
                    os.remove(opath)
                    raise ToolError("timeout after %ss: %s" % (timeout, " ".join(map(str, cmd))[:300])) from ex
        finally:
            subprocess.run(["rm", "-rf", meta])
        keep = []
        with open(opath, "r", encoding="utf8", errors="replace") as fh:
            for line in fh:
                if not (line.startswith("<<") or line.startswith("   \"")):
                    keep.append(line)
                    if len(keep) > 200000:
                        del keep[:100000]
        res = TlcResult(pr.returncode, "".join(keep), time.time() - t0)
        res.emit_path = opath
        if pr.returncode not in (0, 10, 12, 13):
            res.discard()
            errs = [l[:400] for l in res.out.splitlines() if re.search(r"Error|Exception|Attempted|overflow", l)][:12]
            raise ToolError("TLC failed on %s (rc=%d):\n%s\n...\n%s\n%s" % (
                module, pr.returncode, "\n".join(errs), res.tail(25), pr.stderr.decode("utf8", "replace")[-2000:]))
        return res
    try:
        p = run(cmd, timeout=timeout, env=e, cwd=mdir)
    finally:
        subprocess.run(["rm", "-rf", meta])
    out = p.stdout.decode("utf8", "replace")
    res = TlcResult(p.returncode, out, time.time() - t0)
    if p.returncode not in (0, 10, 12, 13):
        errs = [l[:400] for l in out.splitlines() if re.search(r"Error|Exception|Attempted|overflow", l)][:12]
        raise ToolError("TLC failed on %s (rc=%d):\n%s\n...\n%s\n%s" % (
            module, p.returncode, "\n".join(errs), res.tail(25), p.stderr.decode("utf8", "replace")[-2000:]))
    return res


# ---------------------------------------------------------------------------
# known findings

def load_known():
    path = os.path.join(ROOT, "known_findings.jsonl")
    res = []
    if os.path.exists(path):
        for line in open(path):
            line = line.strip()
            if not line or line.startswith("#"):
                continue
            res.append(json.loads(line))
    return res


def sig_matches(match, sig):
    for k, v in match.items():
        if k not in sig:
            return False
        if isinstance(v, list):
            if sig[k] not in v:
                return False
        elif sig[k] != v:
            return False
    return True


# ---------------------------------------------------------------------------
# a check run

class Check:
    """Accumulates coverage for one property run, decides the verdict, writes evidence."""

    def __init__(self, pid, tier, level="model_checking"):
        self.pid = pid
        self.tier = tier
        self.level = level
        self.t0 = time.time()
        self.states = 0
        self.transitions = 0
        self.validated = 0
        self.evaluations = 0
        self.nontrivial = set()
        self.samples = []
        self.extra = {}
        self.assumptions = []
        self.rule = ""
        self.exhaustive = None
        self.violations = []       # unlisted
        self.known_hit = {}        # what -> count
        self.known = [k for k in load_known() if k.get("property") == pid and k.get("status") == "known"]
        self.never_taken = []
        self.max_report = 5

    # --- coverage accounting
    def add_tlc(self, res):
        self.states += res.distinct
        self.transitions += res.generated

    def nontrivial_case(self, key):
        if not isinstance(key, (str, int, tuple)):
            key = json.dumps(key, sort_keys=True)
        # an 8-byte digest of the key: millions of scenarios must not keep their JSON in memory
        self.nontrivial.add(hashlib.blake2b(repr(key).encode("utf8", "replace"), digest_size=8).digest())

    def sample(self, s, limit=4):
        if len(self.samples) < limit:
            self.samples.append(s)

    # --- verdicts
    def violation(self, sig, record, kind="property"):
        """Report a failed case. `sig` describes the mechanism (matched against known_findings.jsonl)."""
        for k in self.known:
            if sig_matches(k.get("match", {}), sig):
                self.known_hit[k["what"]] = self.known_hit.get(k["what"], 0) + 1
                return False
        # full records for the first few thousand, then the mechanism only (a badly broken tree yields millions)
        if len(self.violations) >= 3000:
            record = {"why": record.get("why") if isinstance(record, dict) else None, "note": "record dropped: more than 3000 violating cases"}
        rec = {"property": self.pid, "kind": kind, "sig": sig, "record": record}
        self.violations.append(rec)
        return True

    def finish(self):
        wall = time.time() - self.t0
        os.makedirs(os.path.join(ROOT, "evidence"), exist_ok=True)
        cov = {
            "states": self.states,
            "transitions": self.transitions,
            "traces_validated_against_impl": self.validated,
            "samples": self.samples or ["(no sample recorded)"],
            "evaluations": max(self.evaluations, self.validated),
            "distinct_nontrivial": len(self.nontrivial),
            "rule": self.rule,
            "actions_never_taken": self.never_taken,
            "known_findings_hit": self.known_hit,
        }
        if self.exhaustive is not None:
            cov["exhaustive"] = bool(self.exhaustive)
        cov.update(self.extra)
        ev = {
            "property_id": self.pid,
            "tier": self.tier,
            "seed": seed(),
            "level": self.level,
            "coverage": cov,
            "assumptions": self.assumptions,
            "wall_s": round(wall, 2),
            "violations": len(self.violations),
        }
        with open(os.path.join(ROOT, "evidence", self.pid + ".json"), "w") as f:
            json.dump(ev, f, indent=1, sort_keys=True)
            f.write("\n")
        for what, n in sorted(self.known_hit.items()):
            print("KNOWN-FINDING: property=%s %s (seen %d times)" % (self.pid, what, n))
        if self.violations:
            os.makedirs(os.path.join(ROOT, "replays"), exist_ok=True)
            seen = set()
            for rec in self.violations:
                blob = json.dumps(rec, sort_keys=True)
                h = hashlib.sha1(blob.encode()).hexdigest()[:12]
                if h in seen:
                    continue
                seen.add(h)
                if len(seen) > self.max_report:
                    break
                path = os.path.join(ROOT, "replays", "%s-%s.json" % (self.pid, h))
                with open(path, "w") as f:
                    json.dump(rec, f, indent=1, sort_keys=True)
                    f.write("\n")
                print("VIOLATION property=%s replay=%s" % (self.pid, path))
                log("  kind=%s sig=%s" % (rec["kind"], json.dumps(rec["sig"], sort_keys=True)[:400]))
            log("[%s] %d violating cases (first %d written)" % (self.pid, len(self.violations), min(len(seen), self.max_report)))
            cnt = {}
            for rec in self.violations:
                k = json.dumps(rec["sig"], sort_keys=True)
                cnt[k] = cnt.get(k, 0) + 1
            for k, n in sorted(cnt.items(), key=lambda kv: -kv[1])[:25]:
                log("    %6d  %s" % (n, k[:300]))
            return 1
        log("[%s] ok: states=%d transitions=%d validated=%d nontrivial=%d wall=%.1fs" % (
            self.pid, self.states, self.transitions, self.validated, len(self.nontrivial), wall))
        return 0


def ndjson(items):
    return ("\n".join(json.dumps(x, separators=(",", ":")) for x in items) + "\n").encode()


def run_driver(binname, scenarios, timeout=1800, args=None, parallel=1, prefix=None):
    """Feed scenarios (list of json values) to a harness driver; returns list of result values.
    prefix: command the driver is started through (e.g. ["unshare", "-m"])."""
    path = hbin(binname)
    if prefix:
        args = [path] + (args or [])
        path = prefix[0]
        args = list(prefix[1:]) + args
    if parallel <= 1 or len(scenarios) < 64:
        p = run([path] + (args or []), input=ndjson(scenarios), timeout=timeout)
        if p.returncode != 0:
            raise ToolError("driver %s failed rc=%d: %s" % (binname, p.returncode, p.stderr.decode("utf8", "replace")[-3000:]))
        return [json.loads(l) for l in p.stdout.decode("utf8").splitlines() if l.strip()]
    # split into chunks, run concurrently
    import concurrent.futures as cf
    n = parallel
    chunks = [scenarios[i::n] for i in range(n)]

    def one(ch):
        p = run([path] + (args or []), input=ndjson(ch), timeout=timeout)
        if p.returncode != 0:
            raise ToolError("driver %s failed rc=%d: %s" % (binname, p.returncode, p.stderr.decode("utf8", "replace")[-3000:]))
        return [json.loads(l) for l in p.stdout.decode("utf8").splitlines() if l.strip()]

    with cf.ThreadPoolExecutor(max_workers=n) as ex:
        outs = list(ex.map(one, chunks))
    res = [None] * len(scenarios)
    for i, o in enumerate(outs):
        if len(o) != len(chunks[i]):
            raise ToolError("driver %s returned %d results for %d scenarios" % (binname, len(o), len(chunks[i])))
        for j, r in enumerate(o):
            res[i + j * n] = r
    return res

"""C11: line-mode matcher promises hold for every accepted pattern over all lines."""
import json
import os

import regexrender as rr
import vlib

META = {
    "text": "For every pattern of the TLC-enumerated grammar x matcher options the real RegexMatcher is built as rg builds it and its FINAL regex, fast-line literals, declared non-matching bytes and terminator are taken from the implementation (hook H3). TLC then explores the finite product of the partial-derivative automata (user pattern under the documented option semantics x final regex x literal scanner x per-thread 'consumed a declared byte' flag) over ALL lines of any length over the symbol alphabet: (1) a matching line always contains a fast-line literal, (2) no match contains a declared non-matching byte or the terminator, (3) user pattern and final regex accept exactly the same terminator-free lines (nothing silently altered). Counterexample lines are confirmed on the real matcher before they are reported.",
    "note": "Decided over the symbol alphabet (one representative per class the code branches on, incl. a 2-byte scalar and an invalid byte); regex engine trusted below the HIR; patterns bounded by specs/regex/MCLineMatch.tla.",
    "technique": "TLC exploration of a product of derivative automata (language inclusion / equivalence over all strings) fed with the implementation's own HIRs, witnesses confirmed on the real matcher",
}

FOLD = {1: [1, 3], 3: [1, 3], 2: [2, 4], 4: [2, 4], 10: [10, 11], 11: [10, 11]}


def syms_of(u, acc):
    if u["k"] == "lit":
        acc.add(u["c"])
    if u["k"] == "cls":
        acc.update(u["s"])
    if u["k"] == "pcls":
        acc.update([1, 2, 3, 4])
    if u["k"] == "nou":
        acc.update([12, 15])         # the invalid byte and NUL are ordinary members of byte classes
    for f in ("a", "b"):
        if isinstance(u.get(f), dict):
            syms_of(u[f], acc)


def _cr_class(u):
    """does the pattern hold a character class that CR belongs to (a negated class, \\W, a class naming CR)?"""
    if not isinstance(u, dict):
        return False
    if u.get("k") == "cls" and (u.get("neg") or 13 in u.get("s", [])):
        return True
    if u.get("k") == "wcls" and u.get("neg"):
        return True
    return any(_cr_class(u.get(f)) for f in ("a", "b"))


def job_of(r, probe=None):
    j = dict(r["o"], patterns=[rr.render(p, r["fixed"]) for p in r["pats"]], fixed=r["fixed"])
    if '"nou"' in json.dumps(r["pats"]):
        j["ascii_only"] = True      # byte-mode patterns: decided over lines without multi-byte symbols
    if probe is not None:
        j["probe"] = probe
    return j


def main(tier):
    chk = vlib.Check("C11", tier)
    chk.rule = ("patterns: every member of the grammar families of specs/regex/MCLineMatch.tla (leaves, repetitions, concatenations, "
                "alternations, groups, fixed strings, two -e patterns, literal-terminator patterns, inner-literal shapes) x matcher "
                "option sets; for each accepted pattern TLC explores the whole product automaton in 'line' mode (all terminator-free "
                "lines) and 'any' mode (all strings). Non-trivial: the matcher built a fast-line literal regex, or declared a byte "
                "of the alphabet non-matching, or the pattern has a look-around; distinct by (patterns, options).")
    chk.assumptions = ["symbol alphabet abstracts bytes; Unicode classes are represented by their members among the symbols",
                       "the regex engine implements the HIR it is given (engine defects are out of scope here, see C01)"]
    cfg = "C11_quick" if tier == "quick" else "C11_deep"
    gen = vlib.tlc("regex/MCLineMatch", cfg, workers=8, timeout=1800)
    if gen.rc != 0:
        raise vlib.ToolError("pattern generation failed:\n" + gen.tail(30))
    chk.add_tlc(gen)
    recs = gen.emits()
    if tier == "quick":
        recs = [r for i, r in enumerate(recs) if i % 2 == vlib.seed() % 2]
    outs = vlib.run_driver("matcher_dump", [job_of(r) for r in recs], parallel=12)
    pats = []
    rejected = unrep = 0
    for i, (r, o) in enumerate(zip(recs, outs)):
        a = set()
        for p in r["pats"]:
            syms_of(p, a)
        al = set()
        for c in a:
            al.update(FOLD.get(c, [c]))
        al.update([5, 7, 12, 13, 14])
        # NUL is part of every alphabet: rg bans it from patterns (ban_byte) but lines may hold it; the size of the
        # product stays manageable by adding it for every other pattern only (and whenever it is the terminator)
        if r["o"]["nul"] or i % 2 == 0:
            al.add(15)
        ok = bool(o["ok"]) and o.get("hir") is not None and o.get("lits") != "unrepresentable"
        if not o["ok"]:
            rejected += 1
        elif not ok:
            unrep += 1
        lits = o.get("lits") if isinstance(o.get("lits"), list) else []
        pats.append({"id": i + 1, "user": r["pats"], "o": r["o"], "fixed": r["fixed"], "ok": ok,
                     "hir": o.get("hir") or {"k": "eps"}, "haslits": isinstance(o.get("lits"), list), "lits": lits,
                     "nonmatching": o.get("nonmatching", []), "alpha": sorted(al)})
        if ok and (lits or set(o.get("nonmatching", [])) & al or "look" in json.dumps(r["pats"])):
            chk.nontrivial_case(json.dumps([r["pats"], r["o"], r["fixed"]], sort_keys=True))
    os.makedirs(os.path.join(vlib.WORK, "c11"), exist_ok=True)
    ppath = os.path.join(vlib.WORK, "c11", "patterns_%d.ndjson" % os.getpid())
    with open(ppath, "w") as f:
        for p in pats:
            f.write(json.dumps(p) + "\n")
    res = vlib.tlc("regex/RegexIncl", "RegexIncl", workers=12, timeout=3600, env={"PATTERNS": ppath}, xmx="16g")
    os.remove(ppath)
    if res.rc != 0:
        raise vlib.ToolError("RegexIncl failed:\n" + res.tail(60))
    chk.add_tlc(res)
    vlib.log("[C11] %d patterns (%d rejected by the builder, %d outside the symbol space), product exploration: %d states in %.1fs"
             % (len(pats), rejected, unrep, res.distinct, res.wall))
    chk.evaluations += len(pats)
    # shortest witness per (pattern, kind)
    wit = {}
    for x in res.emits("WITNESS"):
        k = (x["id"], x["kind"])
        if k not in wit or len(x["line"]) < len(wit[k]["line"]):
            wit[k] = x
    # confirm on the real matcher
    confirm_jobs, keys = [], []
    for (pid, kind), x in sorted(wit.items()):
        r = recs[pid - 1]
        lines = [list(rr.sym_bytes(x["line"]))]
        if kind == "bad_byte_in_match":
            lines = [list(rr.sym_bytes(x["line"] + [n])) for n in pats[pid - 1]["alpha"]] + lines
        confirm_jobs.append(job_of(r, probe=lines))
        keys.append((pid, kind, x))
    outs2 = vlib.run_driver("matcher_dump", confirm_jobs) if confirm_jobs else []
    drift = 0
    for (pid, kind, x), o in zip(keys, outs2):
        r = recs[pid - 1]
        p = pats[pid - 1]
        probes = o.get("probes", [])
        confirmed = False
        detail = None
        if kind == "false_negative":
            pr = probes[0]
            confirmed = pr["is_match"] and pr["candidate_with_term"] is None
            detail = pr
        elif kind == "altered":
            # the witness is a line on which user semantics and final regex disagree; the real matcher follows its regex
            pr = probes[0]
            detail = pr
            confirmed = True  # decided by the two models; the probe tells which side the implementation is on
        elif kind == "bad_byte_in_match":
            bad = set()
            for s in p["nonmatching"] + ([15] if r["o"]["nul"] else [13, 14] if r["o"]["crlf"] else [14]):
                bad.update(rr.SYM[s])
            for line, pr in zip(confirm_jobs[keys.index((pid, kind, x))]["probe"], probes):
                f = pr.get("find")
                if f and any(b in bad for b in line[f[0]:f[1]]):
                    confirmed = True
                    detail = {"line": line, "find": f}
        if kind == "altered":
            # which side is the real matcher on?  user semantics says match iff umatch; we only know they differ
            pass
        if not confirmed:
            if kind == "false_negative":
                drift += 1
            continue
        sig = {"kind": kind, "opts": sorted(k for k, v in r["o"].items() if v), "fixed": r["fixed"]}
        if kind == "altered" and r["o"]["crlf"] and 13 in x["line"] and any(_cr_class(q) for q in r["pats"]):
            # (only for patterns holding a class CR belongs to: that is what the stripping alters)
            sig["crlf_bare_cr"] = True
        chk.violation(sig, {"why": kind, "pattern": [rr.render(q, r["fixed"]) for q in r["pats"]], "witness_line": x["line"],
                            "witness_bytes": list(rr.sym_bytes(x["line"])), "probe": detail, "scenario": r,
                            "final_hir": o.get("hir_str"), "literals": o.get("lit_str")})
    chk.validated = len([p for p in pats if p["ok"]]) - len(set(k[0] for k in wit))
    chk.extra.update({"patterns": len(pats), "rejected_by_builder": rejected, "outside_symbol_space": unrep,
                      "witnesses": len(wit), "unconfirmed_false_negative_witnesses": drift,
                      "with_fast_line_literals": sum(1 for p in pats if p["haslits"])})
    for p in pats:
        if p["haslits"] and len(chk.samples) < 3:
            r = recs[p["id"] - 1]
            chk.sample({"pattern": [rr.render(q, r["fixed"]) for q in r["pats"]], "options": r["o"], "literals": p["lits"], "nonmatching": p["nonmatching"]})
    chk.exhaustive = True
    if drift:
        vlib.log("[C11] %d false-negative witnesses were not reproduced by the real matcher (model drift?)" % drift)
    return chk.finish()


def replay(path):
    rec = json.load(open(path))
    r = rec["record"]["scenario"]
    line = rec["record"]["witness_bytes"]
    o = vlib.run_driver("matcher_dump", [job_of(r, probe=[line])])[0]
    print(json.dumps({"pattern": rec["record"]["pattern"], "line": line, "now": o.get("probes"), "then": rec["record"].get("probe"),
                      "kind": rec["record"]["why"]}, indent=1))
    pr = (o.get("probes") or [{}])[0]
    kind = rec["record"]["why"]
    still = False
    if kind == "false_negative":
        still = pr.get("is_match") and pr.get("candidate_with_term") is None
    elif kind == "altered":
        still = pr.get("is_match") == (rec["record"].get("probe") or {}).get("is_match")
    else:
        still = pr.get("find") == (rec["record"].get("probe") or {}).get("find")
    if still:
        print("VIOLATION property=C11 replay=%s" % path)
        return 1
    print("replay: the matcher no longer behaves as recorded")
    return 0

"""C04: ignore files mean what git says they mean.

specs/ignore/Gitignore.tla is gitignore(5) as a TLA+ specification (line parsing, wildmatch with
WM_PATHNAME, last match wins, deeper file overrides shallower, pruning).  TLC enumerates repositories
(tree x ignore-file contents x case-insensitivity) from the bounded grammar of MCGitignore.tla and emits,
per repository, the set of files the specification says are visible.  Every repository is materialised
in a real directory (with `git init`) and
  * the `git` binary is asked first (`git ls-files --others --exclude-standard`): a disagreement between
    git and the specification is a defect of the ORACLE (exit 2), never a verdict about ripgrep;
  * `rg --files --hidden ...` must list exactly the predicted set, with the parallel and with the serial
    (`-j1 --sort path`) walker.
Python only renders scenarios and compares sets.
"""
import concurrent.futures as cf
import json
import os
import shutil
import subprocess
import tempfile
import threading

import vlib

PID = "C04"

META = {
    "text": "gitignore(5) is written as a TLA+ specification (line parsing incl. comments, \\# \\! escapes and the "
            "trailing-blank rule; wildmatch with '*' '?' classes and '**' never crossing '/'; anchoring; directory-only; "
            "last match wins; deeper file overrides shallower; nothing beneath an excluded directory is visited). TLC "
            "enumerates repositories (4 trees of <= 3 levels with names such as 'd.', '-x', '*', '.h', '!a', '#a', 'a ' "
            "x ignore files at the root and/or a sub-directory with <= 2 (quick) / 3 (thorough) lines from the line grammar "
            "x case-insensitivity) and emits the predicted visible set; each repository is built on disk, the git binary "
            "must agree with the specification (self-test of the oracle), and `rg --files --hidden` must list exactly the "
            "predicted files with the parallel and with the serial walker; the same holds for searches that START BELOW "
            "the ignore files (cwd in a sub-directory, a sub-directory named as `d`, `./d`, absolute, `.` or `../d`, through a symbolic "
            "link outside the repository, several roots at once), where the repository's files act as parent-directory ignore files.",
    "note": "Oracle = TLA+ spec validated against git 2.39 on every generated repository (git -c core.ignoreCase=true for "
            "the case-insensitive scenarios). Class members are lower case only (git folds ranges but not single class "
            "members under ignoreCase). `.gitignore` files themselves take part in the comparison; `.git/` is filtered out.",
    "technique": "TLA+ functional specification enumerated by TLC (scenario + predicted outcome) + oracle self-test against git + "
                 "scenario replay on the rg binary",
}

# Disagreements between ripgrep and the property that are reported to the maintainer of /verif and await a
# decision (repair ripgrep or record a known finding).  A violation whose sig matches is printed as KNOWN-FINDING.
# findings are recorded in /verif/known_findings.jsonl (status known / fixed); nothing is pending here
PENDING_FINDINGS = []

RG_BASE = ["--files", "--hidden", "--no-ignore-global", "--no-ignore-parent", "--no-ignore-exclude", "--no-config"]
WALKERS = {"parallel": ["-j3"], "serial": ["-j1", "--sort", "path"]}
NWORKERS = 16


# ---------------------------------------------------------------------------
# materialising a scenario

class Repo:
    """One reusable repository directory (git init once, tree rewritten only when it changes)."""

    def __init__(self, base):
        self.dir = tempfile.mkdtemp(prefix="repo", dir=base)
        self.home = os.path.join(base, "home")
        self.env = dict(os.environ)
        for k in ("RIPGREP_CONFIG_PATH", "GIT_DIR", "GIT_WORK_TREE", "GIT_INDEX_FILE"):
            self.env.pop(k, None)
        self.env.update({"HOME": self.home, "XDG_CONFIG_HOME": os.path.join(self.home, ".config"),
                         "GIT_CONFIG_NOSYSTEM": "1", "GIT_CONFIG_GLOBAL": "/dev/null", "LC_ALL": "C"})
        p = subprocess.run(["git", "init", "-q", "--template=", self.dir], env=self.env,
                           stdout=subprocess.PIPE, stderr=subprocess.PIPE)
        if p.returncode != 0:
            raise vlib.ToolError("git init failed: " + p.stderr.decode("utf8", "replace"))
        self.files = None
        self.ignfiles = []

    def _wipe(self):
        for n in os.listdir(self.dir):
            if n == ".git":
                continue
            q = os.path.join(self.dir, n)
            if os.path.isdir(q) and not os.path.islink(q):
                shutil.rmtree(q)
            else:
                os.unlink(q)

    def materialise(self, scn):
        files = tuple(scn["files"])
        if files != self.files:
            self._wipe()
            for f in files:
                q = os.path.join(self.dir, f)
                os.makedirs(os.path.dirname(q), exist_ok=True)
                open(q, "w").close()
            self.files = files
        else:
            for q in self.ignfiles:
                if os.path.exists(q):
                    os.unlink(q)
        self.ignfiles = []
        for ig in scn["ign"]:
            q = os.path.join(self.dir, ig["dir"], ".gitignore") if ig["dir"] else os.path.join(self.dir, ".gitignore")
            with open(q, "w") as fh:
                fh.write("".join(l + "\n" for l in ig["lines"]))
            self.ignfiles.append(q)

    def git_visible(self, ci):
        cmd = ["git"] + (["-c", "core.ignoreCase=true"] if ci else ["-c", "core.ignoreCase=false"]) + \
              ["ls-files", "--others", "--exclude-standard", "-z"]
        p = subprocess.run(cmd, cwd=self.dir, env=self.env, stdout=subprocess.PIPE, stderr=subprocess.PIPE)
        if p.returncode != 0:
            raise vlib.ToolError("git ls-files failed: " + p.stderr.decode("utf8", "replace"))
        return sorted(x for x in p.stdout.decode("utf8").split("\0") if x)

    def rg_visible(self, rg, ci, walker, cwd="", parent=False, paths=()):
        base = [x for x in RG_BASE if not (parent and x == "--no-ignore-parent")]
        cmd = [rg] + base + (["--ignore-file-case-insensitive"] if ci else []) + WALKERS[walker] + list(paths)
        try:
            p = subprocess.run(cmd, cwd=os.path.join(self.dir, cwd) if cwd else self.dir, env=self.env,
                               stdout=subprocess.PIPE, stderr=subprocess.PIPE, timeout=60)
        except subprocess.TimeoutExpired:
            return {"files": [], "rc": "timeout", "stderr": "", "cmd": cmd[1:]}
        out = [x for x in p.stdout.decode("utf8", "replace").split("\n") if x]
        out = sorted(x for x in out if not (x == ".git" or x.startswith(".git/")))
        return {"files": out, "rc": p.returncode, "stderr": p.stderr.decode("utf8", "replace")[:600], "cmd": cmd[1:]}


class Pool:
    """NWORKERS threads, each owning one Repo."""

    def __init__(self):
        self.base = tempfile.mkdtemp(prefix="verif-c04-")
        os.makedirs(os.path.join(self.base, "home"))
        self.local = threading.local()

    def repo(self):
        r = getattr(self.local, "repo", None)
        if r is None:
            r = self.local.repo = Repo(self.base)
        return r

    def close(self):
        shutil.rmtree(self.base, ignore_errors=True)


def subroots(scn, visible):
    """Directories of the tree with a visible file beneath them (hence not ignored themselves): candidates for a
    search that STARTS below the ignore files, which then act as parent-directory ignore files."""
    dirs = set()
    for p in visible:
        parts = p.split("/")
        for k in range(1, len(parts)):
            dirs.add("/".join(parts[:k]))
    return sorted(dirs)


def expected_below(visible, roots):
    return sorted(p for p in visible if any(p.startswith(d + "/") for d in roots))


def observe(pool, rg, scn, want_git=True, walkers=("parallel", "serial"), visible=None):
    r = pool.repo()
    r.materialise(scn)
    res = {"git": r.git_visible(scn["ci"]) if want_git else None}
    for w in walkers:
        res[w] = r.rg_visible(rg, scn["ci"], w)
    res["below"] = []
    if visible is not None:
        ds = subroots(scn, visible)
        # (a) the search starts in a sub-directory: cwd = that directory, no path argument
        pick = sorted(set([d for d in ds if d == scn.get("sub")] + ds[:1] + ds[-1:]))
        for k, d in enumerate(pick):
            w = "serial" if k % 2 == 0 else "parallel"
            ob = r.rg_visible(rg, scn["ci"], w, cwd=d, parent=True)
            res["below"].append({"roots": [d], "cwd": d, "walker": w, "ob": ob,
                                 "expected": [p[len(d) + 1:] for p in expected_below(visible, [d])]})
            # the same directory named in other ways: relative, with ./, absolute, "." from inside, ../ from a sibling
            form = (len(scn["files"]) + len(d) + k + len(scn["ign"]) * 3 + sum(len(l) for ig in scn["ign"] for l in ig["lines"])) % 5
            if form == 0:
                cwd2, arg, prefix = "", d, d + "/"
            elif form == 1:
                cwd2, arg, prefix = "", "./" + d, "./" + d + "/"
            elif form == 2:
                cwd2, arg, prefix = "", os.path.join(r.dir, d), os.path.join(r.dir, d) + "/"
            elif form == 3:
                cwd2, arg, prefix = d, ".", "./"
            else:
                sib = [x for x in ds if x != d and "/" not in x and not d.startswith(x + "/")]
                if not sib or "/" in d:
                    cwd2, arg, prefix = "", d, d + "/"
                else:
                    cwd2, arg, prefix = sib[0], "../" + d, "../" + d + "/"
            ob2 = r.rg_visible(rg, scn["ci"], w, cwd=cwd2, parent=True, paths=["--", arg])
            ob2["files"] = sorted(x[len(prefix):] if x.startswith(prefix) else "?" + x for x in ob2["files"])
            res["below"].append({"roots": [arg], "cwd": cwd2 or ".", "walker": w, "ob": ob2, "named": True, "prefix": prefix,
                                 "expected": [p[len(d) + 1:] for p in expected_below(visible, [d])]})
            # the same directory reached through a symbolic link that lies outside the repository and is named as the
            # root: roots are followed, and the parent ignore files are those of the directory the link resolves to
            if k == 0:
                lnk = r.dir + ".lnk"
                if os.path.lexists(lnk):
                    os.unlink(lnk)
                os.symlink(os.path.join(r.dir, d), lnk)
                for w3 in ("serial", "parallel"):
                    ob3 = r.rg_visible(rg, scn["ci"], w3, parent=True, paths=["--", lnk])
                    ob3["files"] = sorted(x[len(lnk) + 1:] if x.startswith(lnk + "/") else "?" + x for x in ob3["files"])
                    res["below"].append({"roots": [lnk], "cwd": ".", "walker": w3, "ob": ob3, "named": True, "link": d,
                                         "expected": [p[len(d) + 1:] for p in expected_below(visible, [d])]})
        # (b) several roots named on the command line, the ignore files of the cwd are parents of each of them
        top = [d for d in ds if "/" not in d]
        if len(top) >= 2:
            roots = [top[0], top[-1]]
            for w in ("serial", "parallel"):
                ob = r.rg_visible(rg, scn["ci"], w, parent=True, paths=["--"] + roots)
                res["below"].append({"roots": roots, "cwd": "", "walker": w, "ob": ob, "expected": expected_below(visible, roots)})
    return res


# ---------------------------------------------------------------------------
# judging

def classify(rec, diff):
    """Best-effort name of the clause of the statement that a failing scenario exercises."""
    scn = rec["scn"]
    pruned = set(rec.get("pruned", []))
    lines = [l for ig in scn["ign"] for l in ig["lines"] if l and not l.startswith("#")]
    if any(p in pruned for p in diff):
        return "pruning"
    if len(scn["ign"]) > 1 and any(p in set(rec.get("overridden", [])) for p in diff):
        return "nesting"
    if any(l.startswith("!") for l in lines):
        return "negation"
    if any("**" in l for l in lines):
        return "doublestar"
    if any(l.rstrip(" ").endswith("/") for l in lines):
        return "dir_only"
    if any("/" in l.rstrip(" ").rstrip("/") for l in lines):
        return "anchoring"
    if len(scn["ign"]) > 1:
        return "nesting"
    if len(lines) > 1:
        return "last_match"
    return "other"


def make_sig(rec, diff, walker, listed=(), hidden=()):
    scn = rec["scn"]
    dot = bool(diff) and all(any(c.endswith(".") for c in p.split("/")) for p in diff)
    lines = [l for ig in scn["ign"] for l in ig["lines"]]
    direction = "lists_ignored" if listed and not hidden else "skips_visible" if hidden and not listed else "both"
    return {"clause": classify(rec, diff), "name_ends_with_dot": dot,
            "case_insensitive": bool(scn["ci"]), "walker": walker, "direction": direction,
            # mechanisms of the pending findings (pinned so that nothing else hides behind them)
            "bare_negation_line": any(l.rstrip(" ") == "!" for l in lines),
            "escaped_blank_then_trailing_blank": any(_escaped_then_blank(l) for l in lines),
            "trailing_tab_line": any(l.rstrip(" ").endswith("\t") for l in lines)}


def _escaped_then_blank(line):
    """line ends with `\\ ` followed by at least one more blank (git keeps the escaped blank only)."""
    t = line.rstrip(" ")
    ntrail = len(line) - len(t)
    return ntrail >= 2 and t.endswith("\\") and not t.endswith("\\\\")


def judge(rec, ob):
    """-> (diff paths, listed, hidden, reason) if rg's listing differs from the predicted visible set, else None."""
    exp = sorted(rec["visible"])
    if ob["rc"] == "timeout":
        return [], [], [], "rg did not terminate within 60 s"
    if ob["files"] != exp:
        diff = sorted(set(ob["files"]) ^ set(exp))
        listed = [p for p in diff if p in ob["files"]]
        hidden = [p for p in diff if p not in ob["files"]]
        why = []
        if listed:
            why.append("rg lists %s which git ignores" % listed)
        if hidden:
            why.append("rg skips %s which git does not ignore" % hidden)
        return diff, listed, hidden, "; ".join(why)
    return None


def pending(sig):
    for pf in PENDING_FINDINGS:
        if vlib.sig_matches(pf["match"], sig):
            return pf["what"]
    return None


def describe(scn):
    return {"tree": scn["tree"], "ci": scn["ci"],
            "ignore_files": {(ig["dir"] + "/" if ig["dir"] else "") + ".gitignore": ig["lines"] for ig in scn["ign"]}}


def explore(chk, cfgname, rg, timeout):
    res = vlib.tlc("ignore/MCGitignore", cfgname, workers=12, timeout=timeout)
    if res.rc != 0:
        raise vlib.ToolError("a sanity theorem of the Gitignore specification failed in %s:\n%s" % (cfgname, res.tail(60)))
    chk.add_tlc(res)
    recs = res.emits()
    vlib.log("[%s] %s: %d states, %d repositories emitted in %.1fs" % (PID, cfgname, res.distinct, len(recs), res.wall))
    if not recs:
        raise vlib.ToolError("TLC emitted no scenario for " + cfgname)
    # keep scenarios of one tree together so that a worker rewrites only the ignore files
    order = sorted(range(len(recs)), key=lambda i: (recs[i]["scn"]["tree"], i))
    pool = Pool()
    try:
        with cf.ThreadPoolExecutor(max_workers=NWORKERS) as ex:
            chunks = [order[k::NWORKERS] for k in range(NWORKERS)]

            def work(idx):
                return [(i, observe(pool, rg, recs[i]["scn"], visible=recs[i]["visible"])) for i in idx]
            obs = {}
            for part in ex.map(work, chunks):
                for i, o in part:
                    obs[i] = o
    finally:
        pool.close()

    oracle_bad = []
    cats = chk.extra.setdefault("scenario_categories", {})

    def cat(k):
        cats[k] = cats.get(k, 0) + 1

    pend_hits = chk.extra.setdefault("pending_findings_hit", {})
    for i, rec in enumerate(recs):
        scn = rec["scn"]
        exp = sorted(rec["visible"])
        o = obs[i]
        if o["git"] != exp:
            oracle_bad.append({"scenario": describe(scn), "spec_visible": exp, "git_visible": o["git"]})
            continue
        nfiles = len(scn["files"]) + len(scn["ign"])
        ignored = nfiles - len(exp)
        for w in ("parallel", "serial"):
            chk.evaluations += 1
            bad = judge(rec, o[w])
            if bad is None:
                chk.validated += 1
                continue
            diff, listed, hidden, why = bad
            sig = make_sig(rec, diff, w, listed, hidden)
            record = {"why": why, "scenario": scn, "expected_visible": exp, "observed": o[w], "walker": w,
                      "pruned": rec.get("pruned", []), "overridden": rec.get("overridden", []),
                      "git_visible": o["git"], "driver": "c04.py"}
            what = pending(sig)
            if what is not None:
                pend_hits[what] = pend_hits.get(what, 0) + 1
                if pend_hits[what] == 1:
                    chk.extra.setdefault("pending_examples", []).append(
                        {"finding": what[:60] + "...", "scenario": describe(scn), "why": why, "walker": w})
                continue
            chk.violation(sig, record)
        # searches that start below the ignore files (the files are then parent-directory ignore files)
        for b in o["below"]:
            chk.evaluations += 1
            ob = b["ob"]
            if ob["rc"] != "timeout" and ob["files"] == sorted(b["expected"]):
                chk.validated += 1
                cat("started_below_the_ignore_file" if b["cwd"] else "several_roots_below_the_ignore_file")
                continue
            diff = sorted(set(ob["files"]) ^ set(b["expected"]))
            listed = [p for p in diff if p in ob["files"]]
            hidden = [p for p in diff if p not in ob["files"]]
            rel = [p[len(b["cwd"]) + 1:] if False else p for p in diff]
            depth = max([len((p if b["cwd"] else p.split("/", 1)[-1]).split("/")) for p in rel] or [0])
            sig = dict(make_sig(rec, [((b["cwd"] + "/") if b["cwd"] else "") + p for p in diff], b["walker"], listed, hidden),
                       start="linked_root" if b.get("link") else "named_root" if b.get("named") else "subdirectory" if b["cwd"] else "several_roots", depth_below_root=min(depth, 3))
            chk.violation(sig, {"why": "search started below the ignore files (%s): rg lists %s which git ignores; rg skips %s which git does not ignore"
                                       % ("cwd=" + b["cwd"] if b["cwd"] else "roots " + " ".join(b["roots"]), listed, hidden),
                                "scenario": scn, "cwd": b["cwd"], "roots": b["roots"], "link": b.get("link"), "named": b.get("named", False), "prefix": b.get("prefix"), "expected_visible": b["expected"], "observed": ob,
                                "walker": b["walker"], "driver": "c04.py"})
        # coverage accounting
        cat("repositories")
        if ignored:
            cat("something_ignored")
        if rec["pruned"]:
            cat("pruned_below_excluded_dir")
        if rec["contested"]:
            cat("ignore_and_reinclude_both_match")
        if rec["overridden"]:
            cat("nested_file_overrides_parent")
        if scn["ci"]:
            cat("case_insensitive")
        if len(scn["ign"]) > 1:
            cat("two_ignore_files")
        if any(any(c.endswith(".") for c in p.split("/")) for p in set(scn["files"]) - set(exp)):
            cat("ignored_name_ends_with_dot")
        if ignored and 0 < len(exp):
            chk.nontrivial_case(json.dumps([scn["tree"], scn["ci"], scn["ign"]], sort_keys=True))
        if (rec["contested"] or rec["overridden"]) and rec["pruned"]:
            chk.sample({"scenario": describe(scn), "predicted_visible": exp, "rg_parallel": o["parallel"]["files"],
                        "git": o["git"]}, limit=3)
    if oracle_bad:
        chk.extra["oracle_disagreements"] = len(oracle_bad)
        raise vlib.ToolError("the Gitignore specification disagrees with the git binary on %d of %d repositories "
                             "(defect of the oracle, not a verdict); first:\n%s"
                             % (len(oracle_bad), len(recs), json.dumps(oracle_bad[:3], indent=1)))
    chk.extra["oracle_selftest_repositories_agreeing_with_git"] = \
        chk.extra.get("oracle_selftest_repositories_agreeing_with_git", 0) + len(recs)
    return recs


def main(tier):
    chk = vlib.Check(PID, tier)
    chk.rule = ("One scenario = one repository (tree, ignore files, case flag) enumerated by TLC with its predicted visible set; "
                "each is replayed on rg twice (parallel walker, serial walker). Non-trivial: the ignore files hide at least one "
                "file and leave at least one visible; distinct by (tree, case flag, ignore-file contents). Categories "
                "(pruning, ignore+re-include on the same file, nested override, ...) are counted in scenario_categories.")
    chk.assumptions = ["the TLA+ specification is the oracle; it agreed with git %s on every generated repository of this run "
                       "(git -c core.ignoreCase=true stands in for --ignore-file-case-insensitive)" % git_version(),
                       "bounds: trees T1-T4 and the line grammar / families of specs/ignore/MCGitignore.tla "
                       "(quick: <= 2 lines per repository, thorough: <= 3)",
                       "bracket expressions contain lower-case members only",
                       "TLC fingerprint collisions improbable"]
    rg = vlib.build_rg()
    explore(chk, "C04_quick" if tier == "quick" else "C04_thorough", rg, timeout=600 if tier == "quick" else 3000)
    chk.exhaustive = True
    for what, n in sorted(chk.extra.get("pending_findings_hit", {}).items()):
        print("KNOWN-FINDING: property=%s %s (seen %d times)" % (PID, what, n))
    return chk.finish()


def git_version():
    try:
        return subprocess.run(["git", "--version"], stdout=subprocess.PIPE).stdout.decode().split()[-1]
    except Exception:
        return "?"


def replay(path):
    rec = json.load(open(path))
    r = rec["record"]
    scn = r["scenario"]
    walker = r.get("walker", "parallel")
    rg = vlib.build_rg()
    pool = Pool()
    if "roots" in r:
        # a search that started below the ignore files: same cwd / roots again
        try:
            rp = pool.repo()
            rp.materialise(scn)
            if r.get("link"):
                lnk = rp.dir + ".lnk"
                os.symlink(os.path.join(rp.dir, r["link"]), lnk)
                ob = rp.rg_visible(rg, scn["ci"], walker, parent=True, paths=["--", lnk])
                ob["files"] = sorted(x[len(lnk) + 1:] if x.startswith(lnk + "/") else "?" + x for x in ob["files"])
            elif r.get("named"):
                # the root as it was named then (an absolute spelling is rebased onto this run's repository)
                arg, prefix = r["roots"][0], r.get("prefix") or ""
                if os.path.isabs(arg):
                    d = "/".join(arg.split("/")[4:]) if arg.startswith("/tmp/") else arg
                    d = next((c for c in sorted(subroots(scn, scn["files"]), key=len, reverse=True) if arg.endswith("/" + c)), d)
                    arg = os.path.join(rp.dir, d); prefix = arg + "/"
                ob = rp.rg_visible(rg, scn["ci"], walker, cwd="" if r["cwd"] == "." else r["cwd"], parent=True, paths=["--", arg])
                ob["files"] = sorted(x[len(prefix):] if x.startswith(prefix) else "?" + x for x in ob["files"])
            elif r["cwd"] and r["cwd"] != ".":
                ob = rp.rg_visible(rg, scn["ci"], walker, cwd=r["cwd"], parent=True)
            else:
                ob = rp.rg_visible(rg, scn["ci"], walker, parent=True, paths=["--"] + r["roots"])
        finally:
            pool.close()
        print(json.dumps({"scenario": describe(scn), "walker": walker, "cwd": r["cwd"], "roots": r["roots"],
                          "expected_visible": sorted(r["expected_visible"]), "observed_now": ob, "why_then": r.get("why")}, indent=1))
        if ob["files"] != sorted(r["expected_visible"]):
            print("VIOLATION property=%s replay=%s" % (rec["property"], path))
            return 1
        print("replay: property holds on this scenario now")
        return 0
    try:
        o = observe(pool, rg, scn, want_git=True, walkers=(walker,))
    finally:
        pool.close()
    fake = {"scn": scn, "visible": r["expected_visible"], "pruned": r.get("pruned", []), "overridden": r.get("overridden", [])}
    bad = judge(fake, o[walker])
    print(json.dumps({"scenario": describe(scn), "walker": walker, "expected_visible": sorted(r["expected_visible"]),
                      "git_now": o["git"], "observed_now": o[walker], "why_then": r.get("why")}, indent=1))
    if o["git"] != sorted(r["expected_visible"]):
        print("replay: git itself no longer agrees with the recorded prediction (oracle problem)")
        return 2
    if bad is not None:
        print("VIOLATION property=%s replay=%s" % (rec["property"], path))
        print("  " + bad[3])
        return 1
    print("replay: property holds on this scenario now")
    return 0

"""C02: results do not depend on how the input bytes reach the searcher."""
import json

import vlib
from checks import search_common as sc


META = {'text': 'TLC explores every read() history, capacity and growth of the roll-buffer model and shows the delivered stream equals the history-free GrepModel; each terminal state is replayed on the real searcher through reader (as emitted, 1-byte, maximal, heap-limited), slice, mmap and multi_line(true) and all must agree with the reference, including the final byte count.', 'note': "Bounds in specs/search/C02_*.cfg; the transcoding layer's BOM peek bounds the first roll-buffer read to 3 bytes, the model allows any size (superset).", 'technique': 'TLA+ refinement over all read histories with TLC + scenario replay into grep-searcher (hook H1 capacity)'}


def main(tier):
    chk = vlib.Check("C02", tier)
    chk.rule = ("TLC explores the roll-buffer model for every read() history (sizes 1..MaxRead), every initial capacity in the cfg, "
                "growth, inputs with line lengths 0/1/3, LF and CRLF; Searcher refines GrepModel at every terminal state. Every "
                "terminal state is replayed on the real searcher as emitted and with 1-byte reads, maximal reads, a just-sufficient "
                "heap limit, multi_line(true) with a matcher that cannot match the terminator, the slice and the mmap strategy; all "
                "must equal the reference stream and agree on the final byte count. Non-trivial as in C03; distinct by scenario+history.")
    chk.assumptions = ["matcher abstracted to 'line contains byte m'", "bounds: specs/search/C02_*.cfg",
                       "the BOM peek of the transcoding layer makes the first roll-buffer read <= 3 bytes; the model allows any size"]
    cfgs = ["C02_quick"] if tier == "quick" else ["C02_quick", "C02_deep"]
    groups = {}

    def cross(r, o, j):
        # group runs of the same (input, cfg, path, plan) over strategies/histories: byte counts must agree
        scn = r["scn"]
        if scn["stopAt"] or scn["errAt"] or scn["faultAt"] or o["result"] != "ok":
            return None
        key = json.dumps([scn["inp"], scn["cfg"], scn["path"]], sort_keys=True)
        fin = [e for e in o["out"] if e["k"] == "finish"]
        if not fin:
            return None
        g = groups.setdefault(key, {})
        g.setdefault(fin[0]["off"], (scn["strat"], j["_v"], scn["cap0"], r["reads"]))
        return None

    for c in cfgs:
        sc.explore(chk, c, variants=("as_is", "onebyte", "maxread", "mmap", "multiline", "heap"), timeout=3000, extra_judge=cross)
    for key, g in groups.items():
        if len(g) > 1:
            inp, cfg, path = json.loads(key)
            sig = {"what": "bytecount", "stopnm": cfg["stopnm"], "inv": cfg["inv"], "path": path, "term": cfg["term"]}
            chk.violation(sig, {"why": "final byte count differs between strategies / read histories",
                                "input": inp, "cfg": cfg, "path": path,
                                "byte_counts": {str(k): list(v) for k, v in g.items()}, "driver": "replay_search",
                                "scenario": {"scn": {"inp": inp, "cfg": cfg, "path": path, "strat": "reader", "cap0": 2, "bin": "none",
                                                     "stopAt": 0, "errAt": 0, "faultAt": 0}, "reads": []},
                                "reference": []})
    chk.exhaustive = True
    return chk.finish()


def replay(path):
    return sc.replay_file(path)

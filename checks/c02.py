"""C02: results do not depend on how the input bytes reach the searcher."""
import json

import vlib
from checks import search_common as sc


META = {'text': 'TLC explores every read() history, capacity and growth of the roll-buffer model and shows the delivered stream equals the history-free GrepModel; each terminal state is replayed on the real searcher through reader (as emitted, 1-byte, maximal, heap-limited), slice, mmap and multi_line(true) and all must agree with the reference, including the final byte count.', 'note': "Bounds in specs/search/C02_*.cfg; the transcoding layer's BOM peek bounds the first roll-buffer read to 3 bytes, the model allows any size (superset).", 'technique': 'TLA+ refinement over all read histories with TLC + scenario replay into grep-searcher (hook H1 capacity)'}


def main(tier):
    chk = vlib.Check("C02", tier)
    chk.rule = ("TLC explores the roll-buffer model for every read() history (sizes 1..MaxRead), every initial capacity in the cfg, "
                "growth, inputs with line lengths 0/1/3, LF and CRLF; Searcher refines GrepModel at every terminal state. Every "
                "terminal state is replayed on the real searcher as emitted and with 1-byte reads, maximal reads, a just-sufficient "
                "heap limit, multi_line(true) with a matcher that cannot match the terminator, the slice and the mmap strategy; all "
                "must equal the reference stream and agree on the final byte count. Non-trivial as in C03; distinct by scenario+history.")
    chk.assumptions = ["matcher abstracted to 'line contains byte m'", "bounds: specs/search/C02_*.cfg",
                       "the BOM peek of the transcoding layer makes the first roll-buffer read <= 3 bytes; the model allows any size"]
    cfgs = ["C02_quick", "C02_nul"] if tier == "quick" else ["C02_quick", "C02_nul", "C02_deep"]
    groups = {}

    def cross(r, o, j):
        # group runs of the same (input, cfg, path, plan) over strategies/histories: byte counts must agree
        scn = r["scn"]
        if scn["stopAt"] or scn["errAt"] or scn["faultAt"] or o["result"] != "ok":
            return None
        key = json.dumps([scn["inp"], scn["cfg"], scn["path"]], sort_keys=True)
        fin = [e for e in o["out"] if e["k"] == "finish"]
        if not fin:
            return None
        g = groups.setdefault(key, {})
        g.setdefault(fin[0]["off"], (scn["strat"], j["_v"], scn["cap0"], r["reads"]))
        return None

    for c in cfgs:
        sc.explore(chk, c, variants=("as_is", "onebyte", "maxread", "mmap", "multiline", "multiline_nm", "heap"), timeout=3000, extra_judge=cross)
    for key, g in groups.items():
        if len(g) > 1:
            inp, cfg, path = json.loads(key)
            sig = {"what": "bytecount", "stopnm": cfg["stopnm"], "inv": cfg["inv"], "path": path, "term": cfg["term"]}
            chk.violation(sig, {"why": "final byte count differs between strategies / read histories",
                                "input": inp, "cfg": cfg, "path": path,
                                "byte_counts": {str(k): list(v) for k, v in g.items()}, "driver": "replay_search",
                                "scenario": {"scn": {"inp": inp, "cfg": cfg, "path": path, "strat": "reader", "cap0": 2, "bin": "none",
                                                     "stopAt": 0, "errAt": 0, "faultAt": 0}, "reads": []},
                                "reference": []})
    big_part(chk, tier)
    chk.exhaustive = True
    return chk.finish()


def big_part(chk, tier):
    """I->S: random inputs around and beyond the real 64 KiB roll buffer (default capacity, lines longer than the
    buffer, random read fragmentation); every recorded stream is validated by TLC (GrepJudge.tla) against the
    reference model evaluated on the input's line table."""
    import os
    import random
    rng = random.Random(vlib.seed() * 7919 + 2)
    nin = 10 if tier == "quick" else 60
    jobs, meta = [], []
    for k in range(nin):
        term = rng.choice(["lf", "lf", "crlf"])
        tb = b"\r\n" if term == "crlf" else b"\n"
        target = rng.choice([65000, 66000, 131000, 140000, 70000])
        lines = []
        size = 0
        while size < target:
            r = rng.random()
            if r < 0.02:
                n = rng.randint(60000, 70000)       # a line longer than the buffer: forces growth
            elif r < 0.3:
                n = rng.randint(0, 3)
            else:
                n = rng.randint(10, 120)
            body = bytearray(b"x" * n)
            if n and rng.random() < 0.25:
                body[rng.randrange(n)] = ord("m")
            lines.append(bytes(body))
            size += n + len(tb)
        data = tb.join(lines) + (tb if rng.random() < 0.7 else b"")
        cfg = {"A": rng.choice([0, 0, 1, 3]), "B": rng.choice([0, 0, 1, 3]), "inv": rng.random() < 0.3, "pass": rng.random() < 0.15,
               "stopnm": False, "lnum": True, "term": term}
        if cfg["pass"]:
            cfg["A"] = cfg["B"] = 0
        for strat, extra in (("slice", {}), ("mmap", {}), ("reader", {"fallback": 0}), ("reader", {"fallback": rng.choice([1, 7, 4096, 65536])}),
                             ("reader", {"reads": [rng.randint(1, 70000) for _ in range(400)]})):
            for path in ("slow", "fast"):
                if strat == "reader" and extra.get("fallback") == 1 and path == "fast":
                    continue
                scn = {"inp": list(data), "cfg": cfg, "strat": strat, "path": path, "cap0": None, "bin": "none", "stopAt": 0, "errAt": 0, "faultAt": 0}
                j = {"scn": scn, "reads": extra.get("reads", []), "fallback": extra.get("fallback", 0)}
                jobs.append(j)
                meta.append((k, strat, path, data, cfg))
    obs = vlib.run_driver("replay_search", jobs, parallel=10, timeout=3000)
    chk.evaluations += len(jobs)
    os.makedirs(os.path.join(vlib.WORK, "c02"), exist_ok=True)
    rpath = os.path.join(vlib.WORK, "c02", "runs_%d.ndjson" % os.getpid())
    with open(rpath, "w") as f:
        for rid, ((k, strat, path, data, cfg), o) in enumerate(zip(meta, obs), 1):
            L, s = [], 0
            while s < len(data):
                e = data.find(b"\n", s)
                e = len(data) if e < 0 else e + 1
                L.append({"s": s, "e": e})
                s = e
            sel = [i + 1 for i, l in enumerate(L) if (b"m" in data[l["s"]:l["e"]]) != cfg["inv"]]
            f.write(json.dumps({"id": rid, "L": L, "sel": sel, "cfg": cfg, "total": len(data),
                                "obs": [{"k": e["k"], "ln": e["ln"], "off": e["off"], "len": e["len"]} for e in o["out"]]}) + "\n")
    res = vlib.tlc("search/GrepJudge", "GrepJudge", workers=10, timeout=3000, env={"RUNS": rpath}, xmx="16g")
    os.remove(rpath)
    if res.rc != 0:
        raise vlib.ToolError("GrepJudge failed:\n" + res.tail(40))
    chk.add_tlc(res)
    bad = set(v["id"] for v in res.emits("VERDICT"))
    vlib.log("[C02] big inputs: %d recorded streams judged by TLC in %.1fs, %d rejected" % (len(jobs), res.wall, len(bad)))
    for rid, ((k, strat, path, data, cfg), o, j) in enumerate(zip(meta, obs, jobs), 1):
        if rid in bad or o["result"] != "ok" or not o.get("bytes_ok", True):
            chk.violation({"what": "big_input", "strat": strat, "path": path, "term": cfg["term"], "inv": cfg["inv"], "pass": cfg["pass"]},
                          {"why": "stream recorded on a large input is not the reference stream (or the search failed: %s)" % o["result"],
                           "cfg": cfg, "input_len": len(data), "observed_head": o["out"][:6], "reads": j["reads"][:10], "fallback": j["fallback"],
                           "input_seed": [vlib.seed(), k], "scenario": {"scn": dict(j["scn"], inp=[]), "reads": []}, "reference": []})
        else:
            chk.validated += 1
            chk.nontrivial_case("big:%d:%s:%s:%s" % (k, strat, path, j["fallback"]))


def replay(path):
    return sc.replay_file(path)

"""C08: multi-threaded search output is a permutation of the single-threaded per-file blocks.

Design level: TLC model-checks specs/cli/ParPrint.tla (workers with private buffers, whole-buffer
print under the writer's lock, separator owned by the writer, --files printer thread) over all
interleavings, and must refute five mutants.  Implementation level (I->S): the real `rg` binary runs
the same search with -j1 and with 2..16 threads on generated trees; TLC (specs/cli/OutputTrace.tla)
parses every observed stdout into the -j1 blocks and emits the verdict.  This module generates trees,
runs rg, renders bytes as interned line numbers and reads TLC's verdicts; it never judges an output.
"""
import base64
import concurrent.futures as cf
import json
import os
import random
import re
import shutil
import subprocess
import tempfile
import threading
import time

import rgrun
import vlib

META = {
    "text": "ParPrint.tla models search_parallel/files_parallel (per-worker buffer: clear, search, print whole buffer under "
            "the stdout lock, separator written by the buffer writer iff something was printed; --files: channel + one "
            "printer thread; matched/searched flags); TLC checks for 2-3 workers x 3 files x all block sizes x all "
            "interleavings that stdout is always a prefix of whole blocks of distinct files with separators exactly "
            "between them, that every successfully searched file appears exactly once and that the flags equal the "
            "sequential ones; mutants without the lock, without clear(), with a worker-written separator and without the "
            "channel must be refuted. The rg binary is then run on seeded trees (5-40 files, 0 B..3 MB, blocks up to "
            ">64 KiB, nested directories, ignored/hidden files) in the modes heading, no-heading, context, heading+context, "
            "count, files-with-matches, JSON, --files, quiet, with 2..16 threads, a sleeping --pre on random files, "
            "restricted CPU affinity and repetitions; OutputTrace.tla (TLC) decides for every run whether stdout is a "
            "permutation of the -j1 per-file blocks with the separator convention derived from the -j1 run, and whether "
            "the exit status agrees; --sort path with N threads must equal -j1 --sort path byte for byte on every repetition. "
            "Terminal outputs of ParPrint and of its mutants are fed to OutputTrace as synthetic traces and must be judged "
            "exactly as ParPrint judges them. Delivery of stdout is varied as well: groups whose stdout is appended to a file "
            "lying inside the searched tree (rg leaves that file alone, under every thread count), one run per group read by a "
            "consumer that starts late, and a --files group of 6000 long-named files behind a slow reader.",
    "note": "Schedules of the real binary are sampled (OS scheduler perturbed by thread count, CPU affinity, file sizes and "
            "a sleeping preprocessor), not enumerated; exhaustive interleaving coverage exists only at design level. JSON: "
            "elapsed times are blanked and the trailing summary message is excluded. Files whose search fails are outside "
            "(no failing preprocessor).",
    "technique": "TLC model checking of a TLA+ design spec with mutants + TLC trace validation of rg stdout against the -j1 blocks",
}

# violations whose signature matches an entry are reported as KNOWN-FINDING instead (see the brief)
PENDING_FINDINGS = []

PID = "C08"
INTREE = {}          # group id -> (path of the file stdout is appended to, its content before the run)
_LOCK = threading.Lock()
MODES = {
    "heading": ["--heading", "-n"],
    "noheading": ["--no-heading", "-n"],
    "context": ["--no-heading", "-n", "-C1"],
    "heading_context": ["--heading", "-n", "-C1"],
    "count": ["-c"],
    "files_with_matches": ["-l"],
    "json": ["--json"],
    "files": ["--files"],
    "quiet": ["-q"],
    "only_matching": ["--no-heading", "-o", "-b"],
    "count_zero": ["-c", "--include-zero"],
    "vimgrep_after": ["--vimgrep", "-A2"],
    # context options together with modes that do not print context, and --passthru (every file prints, matching or not)
    "count_ctx": ["-c", "-C2"],
    "files_ctx": ["-l", "-A1"],
    "json_ctx": ["--json", "-C1"],
    "countm_ctx": ["--count-matches", "-B1"],
    "passthru": ["--no-heading", "-n", "--passthru"],
    "passthru_heading": ["--heading", "--passthru"],
    # multi-line search (the pattern of these modes can match the line terminator): the whole file is read into one
    # buffer that a worker keeps from file to file
    "multiline": ["--no-heading", "-n", "-U"],
    "multiline_countm": ["-U", "--count-matches"],
    "multiline_json": ["--json", "-U"],
}
REQUIRED_MODES = ["heading", "noheading", "context", "count", "files_with_matches", "json", "files"]
PATTERNS = {"many": "foo", "few": "needle", "none": "zzzq"}
VIOLATION_CLAUSES = {"single_thread_blocks", "interleaved", "missing_file", "duplicate_file", "extra_file", "separator", "status",
                     "sort_not_deterministic", "sort_differs"}

PRE_SCRIPT = b"""#!/bin/sh
# slow preprocessor: sleeps 0-20 ms depending on the file name, then passes the file through
n=$(printf '%s' "$1" | cksum | cut -d' ' -f1)
ms=$((n % 21))
sleep "0.0$(printf '%02d' "$ms")"
exec cat "$1"
"""

WORDS = ["alpha", "beta", "gamma", "delta", "lorem", "ipsum", "dolor", "sit", "amet", "quux", "bar", "baz"]


# ---------------------------------------------------------------------------
# scenario generation (seeded; rendering of abstract trees to files)

def gen_tree(rng, dense, tier):
    """-> list of (relative path, kind).  Very different sizes, nested directories, files without matches."""
    n = rng.randint(5, 40 if tier != "quick" else 28)
    dirs = [""]
    for _ in range(rng.randint(1, 7)):
        parent = rng.choice(dirs)
        if parent.count("/") >= 3:
            continue
        dirs.append(parent + "d%d/" % len(dirs))
    files = []
    ndense = 0
    nhuge = 0
    for i in range(n):
        r = rng.random()
        if dense and ndense < 2 and r < 0.12:
            kind = "dense"
            ndense += 1
        elif nhuge < 2 and r < 0.2:
            kind = "huge"
            nhuge += 1
        elif r < 0.4:
            kind = "nomatch"
        elif r < 0.7:
            kind = "tiny"
        else:
            kind = "medium"
        ext = ".slow" if rng.random() < 0.35 else ".txt"
        files.append((rng.choice(dirs) + "f%02d%s" % (i, ext), kind))
    if dense and ndense == 0:
        files[0] = (files[0][0], "dense")
    return files


def file_bytes(rng, kind):
    def line(match_p, needle_p=0.0):
        ws = [rng.choice(WORDS) for _ in range(rng.randint(2, 7))]
        r = rng.random()
        if r < needle_p:
            ws.insert(rng.randrange(len(ws) + 1), "needle")
        elif r < needle_p + match_p:
            ws.insert(rng.randrange(len(ws) + 1), "foo")
        return " ".join(ws)
    if kind == "empty":
        return b""
    if kind == "nomatch":
        lines = [line(0) for _ in range(rng.randint(0, 30))]
    elif kind == "tiny":
        lines = [line(0.7, 0.2) for _ in range(rng.randint(1, 4))]
        if not any("foo" in x for x in lines):
            lines.append("foo")
    elif kind == "medium":
        lines = [line(0.12, 0.01) for _ in range(rng.randint(40, 400))]
    elif kind == "dense":
        lines = [line(0.97, 0.001) + " %d" % i for i in range(rng.randint(1800, 3600))]
    else:  # huge: 0.3 - 3 MB, hardly any match: slow to search, small block
        k = rng.randint(6000, 60000)
        base = [line(0) for _ in range(200)]
        lines = [base[i % 200] for i in range(k)]
        for _ in range(rng.randint(0, 3)):
            lines[rng.randrange(k)] = "foo needle in a haystack"
    data = "\n".join(lines)
    if lines and rng.random() < 0.9:
        data += "\n"
    return data.encode()


_PRE = {}


def shared_pre():
    """The preprocessor script, written ONCE per check run and before any other thread exists: a script that is written
    while another thread forks can be held open for writing by that child for a moment, and executing it then fails with
    ETXTBSY ("Text file busy") - a flaw of the driver, not of rg."""
    if "path" not in _PRE:
        d = tempfile.mkdtemp(prefix="verif-c08-pre-")
        p = os.path.join(d, "pre.sh")
        with open(p, "wb") as f:
            f.write(PRE_SCRIPT)
        os.chmod(p, 0o755)
        _PRE["dir"], _PRE["path"] = d, p
    return _PRE["path"]


def drop_shared_pre():
    if "dir" in _PRE:
        shutil.rmtree(_PRE.pop("dir"), ignore_errors=True)
        _PRE.pop("path", None)


def materialise(scn, base):
    """Render the scenario's tree under base/tree (deterministic in scn['seed'])."""
    rng = random.Random(scn["seed"])
    if scn.get("rare"):
        # very many files without a match and a single one with: the shared "something matched" state is written by
        # many workers that have nothing to report while one has
        files = [("e%02d/%04d.txt" % (i % 40, i), "empty") for i in range(1500)]
        files.insert(rng.randrange(len(files)), ("e07/hit.txt", "tiny"))
    elif scn.get("bigfiles"):
        # thousands of files with long names under --files: far more paths than a pipe holds, for the runs whose reader is slow
        files = [("dir-%02d-%s/file-%05d-%s.txt" % (i % 37, "p" * 40, i, "q" * 60), "empty") for i in range(scn["bigfiles"])]
    else:
        files = gen_tree(rng, scn["dense"], scn["tier"])
    root = os.path.join(base, "tree")
    os.makedirs(root)
    for rel, kind in files:
        p = os.path.join(root, rel)
        os.makedirs(os.path.dirname(p), exist_ok=True)
        with open(p, "wb") as f:
            f.write(file_bytes(rng, kind))
    if scn["ignores"]:
        victims = rng.sample(files, min(2, len(files)))
        with open(os.path.join(root, ".ignore"), "w") as f:
            f.write("/" + victims[0][0] + "\n")
        with open(os.path.join(root, ".hidden.txt"), "w") as f:
            f.write("foo hidden needle\n")
        files = files + [(".hidden.txt", "tiny")]
    if scn.get("links"):
        # a symlink to a directory that a directory-only ignore rule excludes, searched with -L: both walkers must
        # apply the rule to what the link points to
        os.makedirs(os.path.join(root, "real0"), exist_ok=True)
        extra = []
        for i in range(3):
            rel = "real0/g%d.txt" % i
            with open(os.path.join(root, rel), "wb") as f:
                f.write(file_bytes(rng, "tiny"))
            extra.append((rel, "tiny"))
        os.symlink("real0", os.path.join(root, "lnk0"))
        if scn["gid"] % 2 == 1:
            # a link whose target does not exist: under -L both walkers report it (status 2) and go on
            os.symlink("no-such-target", os.path.join(root, "real0", "dangling"))
            scn["gone"] = True
        if scn.get("selfloop"):
            # a link to its own directory: with -L both walkers must report the loop once and list nothing twice
            os.symlink(".", os.path.join(root, "real0", "self"))
        with open(os.path.join(root, ".ignore"), "a") as f:
            f.write("lnk0/\n")
        files = files + extra
    pre = shared_pre()
    if scn.get("roots"):
        # extra top-level directories: the group names every top-level directory on the command line
        extra = []
        for i in range(5):
            for k in range(2):
                rel = "r%d/h%d.txt" % (i, k)
                os.makedirs(os.path.join(root, "r%d" % i), exist_ok=True)
                with open(os.path.join(root, rel), "wb") as f:
                    f.write(file_bytes(rng, "tiny"))
                extra.append((rel, "tiny"))
        files = files + extra
    scn["_kinds"] = {rel: kind for rel, kind in files}
    if scn.get("delivery") == "intree":
        # the file stdout is appended to lies inside the searched tree and holds matching lines: rg leaves the file its
        # stdout points to alone, whichever worker comes across it, so it is not among the files with a block
        sub = sorted({os.path.dirname(rel) for rel, _ in files if "/" in rel}) or ["zo"]
        rel = rng.choice(sub) + "/zz-stdout.txt"
        os.makedirs(os.path.join(root, os.path.dirname(rel)), exist_ok=True)
        INTREE[scn["gid"]] = (rel, file_bytes(rng, "tiny") + b"foo needle stdout\n")
        with open(os.path.join(root, rel), "wb") as f:
            f.write(INTREE[scn["gid"]][1])
    return root, pre, [rel for rel, _ in files]


def base_args(scn, pre):
    a = ["--color", "never", "--no-config"] + MODES[scn["mode"]]
    if scn["pre"]:
        a += ["--pre", pre, "--pre-glob", "*.slow"]
    if scn.get("links"):
        a += ["-L"]
    if scn["mode"] != "files":
        a += ["-e", PATTERNS[scn["pattern"]] + ("\\s?" if scn["mode"].startswith("multiline") else "")]
    return a


def make_scenarios(tier, seed):
    rng = random.Random(seed * 1000003 + 8)
    scns = []
    if tier == "quick":
        plan = ([(m, "many") for m in REQUIRED_MODES] + [(m, "few") for m in REQUIRED_MODES] +
                [("heading_context", "few"), ("quiet", "many"), ("heading", "none"), ("only_matching", "many"),
                 ("count_zero", "few"), ("vimgrep_after", "many"), ("count_ctx", "many"), ("files_ctx", "few"), ("json_ctx", "few"),
                 ("countm_ctx", "many"), ("passthru", "few"), ("passthru_heading", "none"),
                 ("multiline", "many"), ("multiline", "few"), ("multiline_json", "many"), ("multiline_countm", "many"), ("multiline", "many")])
        nrun, nsort = 22, 3
    else:
        plan = []
        modes = list(MODES)
        for i in range(300):
            m = modes[i % len(modes)]
            plan.append((m, rng.choice(["many", "many", "few", "few", "none"])))
        nrun, nsort = 30, 4
    for i, (mode, pat) in enumerate(plan):
        threads = [2, 16] + [rng.randint(2, 16) for _ in range(nrun - 2)]
        if i % 5 == 4:
            threads[2:5] = [2, 3, 4]       # fewer threads than roots
        if tier != "quick":
            threads = list(range(2, 17)) + [rng.randint(2, 16) for _ in range(nrun - 15)]
        rng.shuffle(threads)
        scns.append({
            "gid": i, "seed": rng.randrange(1 << 30), "tier": tier, "mode": mode, "pattern": pat,
            "dense": (i % 3 == 0 and mode not in ("json", "json_ctx", "multiline_json")) or (tier == "quick" and pat == "many" and mode in ("heading", "context")),
            "pre": i % 2 == 0, "ignores": i % 4 == 1, "links": i % 3 == 2 and i % 5 != 4,
            "threads": threads,
            # CPU sets: None = unrestricted, else number of CPUs the run is confined to
            "cpus": [rng.choice([None, None, 1, 2, 3]) for _ in threads],
            "sort_threads": [rng.randint(2, 16) for _ in range(nsort)],
            "roots": i % 5 == 4,
            "selfloop": i % 3 == 2 and i % 5 != 4 and i % 2 == 0,
            # how stdout is delivered: None = a pipe read as fast as possible; "intree" = appended to a file inside the tree
            "delivery": "intree" if i % 4 == 3 else None,
        })
    # groups with a single matching file among very many empty ones, many repetitions with many threads
    nrare = 140 if tier == "quick" else 600
    for k, mode in enumerate(("quiet", "noheading")):
        scns.append({"gid": len(plan) + k, "seed": rng.randrange(1 << 30), "tier": tier, "mode": mode, "pattern": "many", "dense": False,
                     "pre": False, "ignores": False, "links": False, "rare": True, "roots": False,
                     "threads": [16, 8] * (nrare // 2), "cpus": [None] * nrare, "sort_threads": [4]})
    # --files over thousands of files, read by a consumer that starts late (every run of the group)
    nbig = 6 if tier == "quick" else 24
    scns.append({"gid": len(plan) + 2, "seed": rng.randrange(1 << 30), "tier": tier, "mode": "files", "pattern": "many", "dense": False,
                 "pre": False, "ignores": False, "links": False, "bigfiles": 6000, "roots": False, "delivery": "slow",
                 "threads": ([16, 8, 4, 2, 12, 16] * 4)[:nbig], "cpus": [None] * nbig, "sort_threads": [4]})
    return scns


# ---------------------------------------------------------------------------
# running rg

def run_rg(rg, args, cwd, cpus=None, timeout=120, delivery=None):
    """delivery: None = stdout is a pipe that is drained at once; ("slow", seconds) = a pipe whose reader starts late;
    ("intree", rel, content) = stdout is appended to the file rel inside the tree (reset to content first)."""
    cmd = [rg] + args
    if cpus:
        # confine the run to a few CPUs: many threads on few cores forces preemption inside the print path
        avail = sorted(os.sched_getaffinity(0))
        k = min(cpus, len(avail))
        start = (len(args) * 7 + cpus * 5 + len(cwd)) % len(avail)
        chosen = [avail[(start + j) % len(avail)] for j in range(k)]
        cmd = ["taskset", "-c", ",".join(map(str, chosen))] + cmd
    try:
        if delivery and delivery[0] == "intree":
            target = os.path.join(cwd, delivery[1])
            with open(target, "wb") as f:
                f.write(delivery[2])
            with open(target, "ab") as f:
                p = subprocess.run(cmd, cwd=cwd, stdin=subprocess.DEVNULL, stdout=f, stderr=subprocess.PIPE,
                                   timeout=timeout, env=rgrun.rg_env())
            with open(target, "rb") as f:
                data = f.read()
            with open(target, "wb") as f:
                f.write(delivery[2])
            if not data.startswith(delivery[2]):
                return (p.returncode, data, b"stdout file lost its previous content")
            return (p.returncode, data[len(delivery[2]):], p.stderr)
        if delivery and delivery[0] == "slow":
            p = subprocess.Popen(cmd, cwd=cwd, stdin=subprocess.DEVNULL, stdout=subprocess.PIPE, stderr=subprocess.PIPE, env=rgrun.rg_env())
            time.sleep(delivery[1])
            try:
                out, err = p.communicate(timeout=timeout)
            except subprocess.TimeoutExpired:
                p.kill()
                p.communicate()
                return (-9, b"", b"timeout")
            return (p.returncode, out, err)
        p = subprocess.run(cmd, cwd=cwd, stdin=subprocess.DEVNULL, stdout=subprocess.PIPE, stderr=subprocess.PIPE,
                           timeout=timeout, env=rgrun.rg_env())
    except subprocess.TimeoutExpired:
        return (-9, b"", b"timeout")
    return (p.returncode, p.stdout, p.stderr)


def execute_group(scn, rg, only=None, repeat=1):
    """Materialise one group, run the single-file searches, the -j1 reference, the -jN runs and the --sort runs.
    -> dict(files, blocks(bytes), ref, runs[], sortrefs[], sortruns[])."""
    base = tempfile.mkdtemp(prefix="verif-c08-")
    try:
        root, pre, files = materialise(scn, base)
        args = base_args(scn, pre)
        if scn.get("roots"):
            # every top-level entry named on the command line: more roots than threads for the small thread counts
            # (directories only: a file named explicitly is searched whatever -g says, which the per-file references rely on)
            tops = sorted({rel.split("/")[0] for rel in files if "/" in rel and not rel.startswith(".")})
            if scn["gid"] % 2 == 0:
                # a root that does not exist among the others (not the last one): an error for it, everything else as usual
                tops.insert(1, "no-such-root")
                scn["gone"] = True
            args = args + ["--"] + tops
            files = [rel for rel in files if "/" in rel]
        res = {"files": files, "args": args, "blocks": [], "runs": [], "sortrefs": [], "sortruns": []}
        whole = ("intree",) + INTREE[scn["gid"]] if scn.get("delivery") == "intree" else None     # delivery of every whole-tree run
        if whole and scn["mode"] == "files":
            # --files only lists: the file stdout points to is an entry like any other (only searches leave it alone)
            files = files + [INTREE[scn["gid"]][0]]
            res["files"] = files
        for rel in files:
            if scn.get("rare") and scn["_kinds"].get(rel) == "empty":
                res["blocks"].append(b"")        # an empty file has an empty block in the modes of the rare groups
                continue
            if scn.get("bigfiles"):
                res["blocks"].append(rel.encode() + b"\n")   # --files: the block of a file is its path (the -j1 run below must parse as such)
                continue
            rc, out, err = run_rg(rg, ["-j1", "-g", "/" + rel] + args, root)
            if rc not in ((0, 1, 2) if (scn.get("selfloop") or scn.get("gone")) else (0, 1)):
                raise vlib.ToolError("single-file reference run failed rc=%d: %s" % (rc, err[-300:]))
            res["blocks"].append(out)
        res["ref"] = run_rg(rg, ["-j1"] + args, root, delivery=whole)[:2]
        if res["ref"][0] not in ((0, 1, 2) if (scn.get("selfloop") or scn.get("gone")) else (0, 1)):
            raise vlib.ToolError("the -j1 reference run of group %s failed rc=%d" % (scn["gid"], res["ref"][0]))
        for _ in range(repeat):
            for k, (n, cpus) in enumerate(zip(scn["threads"], scn["cpus"])):
                if only and only != ("run", n):
                    continue
                how = whole
                if scn.get("delivery") == "slow":
                    how = ("slow", 0.3)
                elif how is None and k % 7 == 3:
                    how = ("slow", 0.05)
                rc, out, err = run_rg(rg, ["-j%d" % n] + args, root, cpus=cpus, delivery=how)
                if rc == -9:
                    raise vlib.ToolError("rg -j%d timed out in group %s" % (n, scn["gid"]))
                res["runs"].append({"threads": n, "cpus": cpus, "rc": rc, "out": out})
        if only is None or only[0] == "sort":
            for _ in range(2):
                res["sortrefs"].append(run_rg(rg, ["-j1", "--sort", "path"] + args, root, delivery=whole)[:2])
            for _ in range(repeat):
                for n in scn["sort_threads"]:
                    if only and only != ("sort", n):
                        continue
                    rc, out, err = run_rg(rg, ["-j%d" % n, "--sort", "path"] + args, root, delivery=whole)
                    res["sortruns"].append({"threads": n, "rc": rc, "out": out})
        return res
    finally:
        shutil.rmtree(base, ignore_errors=True)


# ---------------------------------------------------------------------------
# rendering: bytes -> interned lines (injective, so equal integer sequences <=> equal bytes)

_ELAPSED = re.compile(rb'"elapsed":\{[^{}]*\}')


class Interner:
    def __init__(self):
        self.ids = {}

    def tokens(self, data, mode):
        parts = data.split(b"\n")
        lines = [p + b"\n" for p in parts[:-1]] + ([parts[-1]] if parts[-1] else [])
        if mode in ("json", "json_ctx", "multiline_json"):
            # the trailing summary message holds totals, not a file's results; elapsed times are not reproducible
            if lines and b'"type":"summary"' in lines[-1]:
                lines = lines[:-1]
            lines = [_ELAPSED.sub(b'"elapsed":{}', x) for x in lines]
        ids = self.ids
        out = []
        for x in lines:
            t = ids.get(x)
            if t is None:
                t = ids[x] = len(ids) + 1
            out.append(t)
        return out


def render_group(scn, res, intern):
    """-> list of (trace record, descriptor) for one group."""
    mode = scn["mode"]
    recs = [({"k": "group", "gid": scn["gid"], "mode": mode, "blocks": [intern.tokens(b, mode) for b in res["blocks"]]},
             {"kind": "group", "scn": scn})]
    recs.append(({"k": "ref", "out": intern.tokens(res["ref"][1], mode), "status": res["ref"][0]}, {"kind": "ref", "scn": scn}))
    for r in res["runs"]:
        recs.append(({"k": "run", "threads": r["threads"], "out": intern.tokens(r["out"], mode), "status": r["rc"]},
                     {"kind": "run", "scn": scn, "threads": r["threads"], "cpus": r["cpus"], "stdout": r["out"], "rc": r["rc"]}))
    for rc, out in res["sortrefs"]:
        recs.append(({"k": "sortref", "out": intern.tokens(out, mode), "status": rc},
                     {"kind": "sortref", "scn": scn, "threads": 1, "stdout": out, "rc": rc}))
    for r in res["sortruns"]:
        recs.append(({"k": "sortrun", "threads": r["threads"], "out": intern.tokens(r["out"], mode), "status": r["rc"]},
                     {"kind": "sortrun", "scn": scn, "threads": r["threads"], "stdout": r["out"], "rc": r["rc"]}))
    return recs


def tlc_verdicts(chk, recs, tag):
    """Write the trace, let TLC judge it, return the verdict record for every non-group trace record."""
    os.makedirs(os.path.join(vlib.WORK, "c08"), exist_ok=True)
    tpath = os.path.join(vlib.WORK, "c08", "%s_%d_%d.ndjson" % (tag, os.getpid(), threading.get_ident()))
    with open(tpath, "w") as f:
        for rec, _ in recs:
            f.write(json.dumps(rec, separators=(",", ":")) + "\n")
    try:
        res = vlib.tlc("cli/OutputTrace", "OutputTrace", workers=1, timeout=1800, env={"TRACE": tpath}, xmx="6g",
                       metaname="OutputTrace_%s_%d" % (tag, threading.get_ident()))
    finally:
        os.remove(tpath)
    if chk is not None:
        with _LOCK:
            chk.add_tlc(res)
    if res.rc != 0:
        raise vlib.ToolError("OutputTrace could not judge trace %s (rc=%d; ambiguous or malformed trace):\n%s" % (tag, res.rc, res.tail(30)))
    verdicts = {v["l"]: v for v in res.emits()}
    want = [i + 1 for i, (rec, _) in enumerate(recs) if rec["k"] != "group"]
    if sorted(verdicts) != want:
        raise vlib.ToolError("OutputTrace judged %d of %d records in %s" % (len(verdicts), len(want), tag))
    return verdicts


def report(chk, sig, record):
    for pf in PENDING_FINDINGS:
        if vlib.sig_matches(pf["match"], sig):
            chk.known_hit[pf["what"]] = chk.known_hit.get(pf["what"], 0) + 1
            return
    chk.violation(sig, record)


def excerpt(b, n=6000):
    return base64.b64encode(b[:n]).decode()


def judge_trace(chk, recs, tag, stats):
    verdicts = tlc_verdicts(chk, recs, tag)
    with _LOCK:
        _account(chk, recs, tag, stats, verdicts)


def _account(chk, recs, tag, stats, verdicts):
    """Book-keeping only: map TLC's verdict for every record to validated / violation."""
    ref_order = None
    bad_groups = set()
    for i, (rec, d) in enumerate(recs):
        if rec["k"] == "group":
            continue
        v = verdicts[i + 1]
        scn = d["scn"]
        if scn["gid"] in bad_groups:
            continue
        verdict = v["verdict"]
        if d["kind"] == "ref":
            if verdict != "ok":
                # the blocks the statement speaks of are not well defined: what -j1 prints for a file depends on the files the
                # (single) worker searched before it.  Every file's block is its output when searched alone - on a correct tree
                # this never differs - so this is reported, and the runs of the group cannot be judged
                bad_groups.add(scn["gid"])
                report(chk, {"clause": "single_thread_blocks", "mode": scn["mode"], "threads": 1, "stdout": scn.get("delivery") or "pipe"},
                       {"why": "the -j1 output of the whole tree is not the concatenation of the -j1 outputs of its files searched one "
                               "by one (TLC, OutputTrace: stopped at output line %d after %d blocks): a file's block depends on what "
                               "the worker searched before" % (v["pos"], len(v["order"])),
                        "scenario": scn, "kind": "ref", "threads": 1})
                continue
            ref_order = v["order"]
            stats["ref_blocks"].append(len(ref_order))
            continue
        if verdict in ("no_sortref", "ref_unparsable", ""):
            raise vlib.ToolError("malformed trace: verdict %r in %s" % (verdict, tag))
        chk.evaluations += 1
        if verdict == "ok":
            chk.validated += 1
            if d["kind"] == "run":
                stats["by_mode"][scn["mode"]] = stats["by_mode"].get(scn["mode"], 0) + 1
                stats["by_threads"][d["threads"]] = stats["by_threads"].get(d["threads"], 0) + 1
                if len(v["order"]) >= 2 and v["order"] != ref_order:
                    chk.nontrivial_case("%s:%s:%s" % (scn["gid"], scn["seed"], ",".join(map(str, v["order"]))))
                    stats["permuted"] += 1
                    if len(chk.samples) < 3 and len(v["order"]) <= 12:
                        chk.sample({"mode": scn["mode"], "threads": d["threads"], "tree_seed": scn["seed"],
                                    "j1_block_order": ref_order, "observed_block_order": v["order"], "verdict": "ok"})
            else:
                stats["sort_ok"] += 1
            continue
        if verdict not in VIOLATION_CLAUSES:
            raise vlib.ToolError("unknown verdict %r" % verdict)
        sig = {"clause": verdict, "mode": scn["mode"], "threads": d["threads"], "stdout": scn.get("delivery") or "pipe"}
        report(chk, sig, {"why": "TLC (OutputTrace) rejects the stdout of rg -j%d%s: %s at output line %d after %d blocks" % (
                              d["threads"], " --sort path" if d["kind"].startswith("sort") else "", verdict, v["pos"], len(v["order"])),
                          "scenario": scn, "kind": d["kind"], "threads": d["threads"], "cpus": d.get("cpus"),
                          "status": d["rc"], "stdout_b64_head": excerpt(d["stdout"])})


# ---------------------------------------------------------------------------
# design level

DESIGN_QUICK = ["C08_design_w2", "C08_design_w3", "C08_design_files"]
DESIGN_THOROUGH = DESIGN_QUICK + ["C08_design_w3_deep", "C08_design_w4"]
MUTANTS = ["C08_mutant_nolock", "C08_mutant_noclear", "C08_mutant_noclear_fail", "C08_mutant_workersep", "C08_mutant_nochannel"]
COVERAGE_CFGS = ("C08_design_w2", "C08_design_files")   # together they must take every action of ParPrint
EMITS = [("C08_emit_good", True), ("C08_emit_nolock", False), ("C08_emit_noclear", False)]


def design(chk, tier, out):
    """Model-check ParPrint, refute its mutants, and cross-validate OutputTrace on ParPrint's terminal outputs."""
    try:
        cfgs = [(c, "design") for c in (DESIGN_QUICK if tier == "quick" else DESIGN_THOROUGH)]
        cfgs += [(c, "mutant") for c in MUTANTS] + [(c, "emit") for c, _ in EMITS]
        w = 3 if tier == "quick" else 6

        def one(item):
            c, kind = item
            return item, vlib.tlc("cli/MCParPrint", c, workers=w, timeout=3600, xmx="6g", metaname="ParPrint_" + c, deadlock=True,
                                  coverage=c in COVERAGE_CFGS)

        emitted = {}
        with cf.ThreadPoolExecutor(max_workers=4 if tier == "quick" else 2) as ex:
            for (c, kind), res in ex.map(one, cfgs):
                with _LOCK:
                    chk.add_tlc(res)
                vlib.log("[C08] design %s: rc=%d states=%d %.1fs" % (c, res.rc, res.distinct, res.wall))
                if kind == "design" and res.rc != 0:
                    out["design_violation"] = (c, res.tail(80))
                if c in COVERAGE_CFGS and res.rc == 0:
                    zero = set(res.coverage_zero())
                    out["never_taken"] = zero if "never_taken" not in out else out["never_taken"] & zero
                elif kind == "mutant":
                    bad = re.findall(r"Invariant (\w+) is violated", res.out)
                    if res.rc != 12 or not set(bad) & {"Atomic", "Complete"}:
                        raise vlib.ToolError("mutant %s is not refuted by ParPrint's properties (rc=%d %s): the properties are vacuous" % (c, res.rc, bad))
                    out["mutants_refuted"] = out.get("mutants_refuted", 0) + 1
                elif kind == "emit":
                    if res.rc != 0:
                        raise vlib.ToolError("emission run %s failed rc=%d\n%s" % (c, res.rc, res.tail(20)))
                    emitted[c] = res.emits()
        # synthetic traces: ParPrint's terminal outputs, judged by OutputTrace
        recs = []
        expect = []
        for c, all_good in EMITS:
            seen = set()
            for e in emitted[c]:
                key = json.dumps([e["blocks"], e["ref"], e["out"], e["status"]])
                if key in seen:
                    continue
                seen.add(key)
                if all_good and not e["good"]:
                    raise vlib.ToolError("ParPrint (real design) emitted an output it does not judge good")
                recs.append(({"k": "group", "blocks": e["blocks"]}, None))
                recs.append(({"k": "ref", "out": e["ref"], "status": e["refstatus"]}, None))
                recs.append(({"k": "run", "threads": 2, "out": e["out"], "status": e["status"]}, None))
                expect.append((len(recs), e["good"] and e["status"] == e["refstatus"], c, e))
        verdicts = tlc_verdicts(chk, recs, "synthetic")
        nbad = {}
        for line, good, c, e in expect:
            v = verdicts[line]["verdict"]
            if (v == "ok") != good:
                raise vlib.ToolError("OutputTrace and ParPrint disagree on a terminal output of %s: OutputTrace says %s, ParPrint good=%s: %s" % (
                    c, v, good, json.dumps(e)))
            if v != "ok":
                nbad.setdefault(c, {}).setdefault(v, 0)
                nbad[c][v] += 1
        if not nbad.get("C08_emit_nolock") or not nbad.get("C08_emit_noclear"):
            raise vlib.ToolError("mutant emissions contained no rejected output: cross-validation vacuous")
        out["synthetic"] = {"outputs": len(expect), "rejected": nbad}
    except BaseException as ex:  # re-raised in the main thread
        out["error"] = ex


# ---------------------------------------------------------------------------

def main(tier):
    chk = vlib.Check(PID, tier)
    chk.rule = ("Design: TLC, all interleavings of 2-3 workers x 3 files x all block sizes 0..2, with/without separator, search "
                "failures, --files; 5 mutants refuted. Implementation: one evaluation = one multi-threaded (or --sort) rg run whose "
                "stdout and exit status TLC (OutputTrace) judged against the -j1 blocks of the same tree/pattern/mode. Non-trivial: "
                "an accepted run with >= 2 non-empty blocks whose block order differs from the -j1 order; distinct by (tree, mode, order).")
    chk.assumptions = ["real-binary schedules are sampled, not enumerated (thread counts 2..16, CPU affinity 1-3 CPUs on some runs, "
                       "sleeping --pre, very different file sizes)",
                       "per-file -j1 blocks are obtained with `rg -j1 ... -g /<file>`; TLC first checks that the whole-tree -j1 output "
                       "is their concatenation and derives the separator and the set of reported files from it",
                       "JSON: elapsed fields blanked, trailing summary message excluded",
                       "lines are interned to integers injectively before TLC sees them (equal sequences <=> equal bytes)",
                       "design bounds: specs/cli/C08_*.cfg"]
    rg = vlib.build_rg()
    shared_pre()
    dres = {}
    dthread = threading.Thread(target=design, args=(chk, tier, dres))
    dthread.start()

    scns = make_scenarios(tier, vlib.seed())
    stats = {"by_mode": {}, "by_threads": {}, "permuted": 0, "sort_ok": 0, "ref_blocks": [], "max_block_bytes": 0,
             "runs_with_block_over_64k": 0, "runs_with_pre": 0, "runs_cpu_restricted": 0}
    results = {}
    try:
        with cf.ThreadPoolExecutor(max_workers=5 if tier == "quick" else 6) as ex:
            for scn, res in zip(scns, ex.map(lambda s: execute_group(s, rg), scns)):
                results[scn["gid"]] = res
    except BaseException:
        dthread.join()
        raise
    vlib.log("[C08] %d groups executed on the rg binary at %.1fs" % (len(scns), time.time() - chk.t0))
    # render into traces of bounded size; TLC judges them
    chunks = []
    cur, cur_tokens, intern = [], 0, Interner()
    for scn in scns:
        res = results[scn["gid"]]
        big = max([len(b) for b in res["blocks"]] + [0])
        stats["max_block_bytes"] = max(stats["max_block_bytes"], big)
        if big > 65536:
            stats["runs_with_block_over_64k"] += len(res["runs"])
        if scn["pre"]:
            stats["runs_with_pre"] += len(res["runs"])
        stats["runs_cpu_restricted"] += sum(1 for r in res["runs"] if r["cpus"])
        recs = render_group(scn, res, intern)
        cur += recs
        cur_tokens += sum(len(r.get("out", ())) for r, _ in recs)
        if cur_tokens > 600000:
            chunks.append(cur)
            cur, cur_tokens, intern = [], 0, Interner()
    if cur:
        chunks.append(cur)
    with cf.ThreadPoolExecutor(max_workers=4) as ex:
        list(ex.map(lambda ic: judge_trace(chk, ic[1], "runs%d" % ic[0], stats), enumerate(chunks)))
    vlib.log("[C08] %d trace chunks judged by TLC at %.1fs" % (len(chunks), time.time() - chk.t0))
    dthread.join()
    if "error" in dres:
        raise dres["error"]
    if "design_violation" in dres:
        c, tail = dres["design_violation"]
        chk.violation({"clause": "design", "cfg": c}, {"why": "ParPrint (the design of search_parallel/files_parallel) violates its properties", "tlc": tail}, kind="design")
    # non-vacuity
    missing = [m for m in REQUIRED_MODES if not stats["by_mode"].get(m)]
    if missing and not chk.violations and not chk.known_hit:
        raise vlib.ToolError("no accepted run in modes %s" % missing)
    if stats["permuted"] == 0 and not chk.violations:
        raise vlib.ToolError("no multi-threaded run produced a block order different from -j1: timing perturbation ineffective")
    # MarkFiles exists only in the mutant without the channel (a worker writing its own path line)
    chk.never_taken = sorted(set(dres.get("never_taken", ())) - {"MarkFiles"})
    if chk.never_taken:
        raise vlib.ToolError("ParPrint actions never taken in any design configuration: %s" % chk.never_taken)
    chk.extra.update({
        "groups": len(scns), "runs_by_mode": stats["by_mode"], "runs_by_threads": {str(k): v for k, v in sorted(stats["by_threads"].items())},
        "runs_with_permuted_block_order": stats["permuted"], "sort_runs_equal": stats["sort_ok"],
        "max_block_bytes": stats["max_block_bytes"], "runs_with_block_over_64KiB": stats["runs_with_block_over_64k"],
        "runs_with_slow_pre": stats["runs_with_pre"], "runs_cpu_restricted": stats["runs_cpu_restricted"],
        "max_blocks_per_run": max(stats["ref_blocks"] or [0]),
        "mutants_refuted": dres.get("mutants_refuted", 0), "synthetic_cross_validation": dres.get("synthetic"),
    })
    chk.exhaustive = False
    drop_shared_pre()
    return chk.finish()


def replay(path):
    rec = json.load(open(path))
    r = rec["record"]
    if rec.get("kind") == "design":
        res = vlib.tlc("cli/MCParPrint", rec["sig"]["cfg"], workers=8, timeout=3600, deadlock=True)
        if res.rc != 0:
            print("VIOLATION property=%s replay=%s" % (PID, path))
            print(res.tail(30))
            return 1
        print("replay: the design holds now")
        return 0
    scn = r["scenario"]
    rg = vlib.build_rg()
    only = ("sort" if r["kind"].startswith("sort") else "run", r["threads"])
    scn = dict(scn)
    # the failure depends on the schedule: repeat the recorded command many times
    res = execute_group(scn, rg, only=only, repeat=12)
    chk = vlib.Check(PID, "replay")
    stats = {"by_mode": {}, "by_threads": {}, "permuted": 0, "sort_ok": 0, "ref_blocks": []}
    judge_trace(chk, render_group(scn, res, Interner()), "replay", stats)
    nruns = len(res["runs"]) + len(res["sortruns"])
    bad = [v for v in chk.violations] + [1] * sum(chk.known_hit.values())
    print(json.dumps({"scenario": scn, "command": "rg -j%d %s%s" % (r["threads"], "--sort path " if only[0] == "sort" else "", " ".join(res["args"])),
                      "reruns": nruns, "rejected_now": len(bad), "why_then": r.get("why")}, indent=1))
    if bad:
        print("VIOLATION property=%s replay=%s" % (PID, path))
        if chk.violations:
            print("  " + chk.violations[0]["record"]["why"])
        return 1
    print("replay: property holds on %d re-runs of this scenario now" % nruns)
    return 0

"""C01: a line is reported iff the pattern matches that line."""
import json
import os

import regexrender as rr
import rgrun
import vlib

META = {
    "text": "TLC enumerates user-level patterns from a bounded grammar (literals, classes, dot, \\w, repetitions greedy/lazy, groups, alternation, anchors, word boundaries, fixed strings, several -e) x option sets (-i, -S, -w, -x, --crlf, -v, -F) and evaluates the documented line semantics (leftmost-first regex semantics in RegexSem.tla, option wrapping in Syntax.tla) on a catalogue of all line contents up to length 3 plus special lines (invalid UTF-8, bare CR, multi-byte); the expected selection of every scenario is replayed on the real rg through the mmap, reader, passthru (slow path) and JSON paths.",
    "note": "Regex engine trusted below the documented semantics only in the sense that it is the thing compared; symbols abstract bytes (one representative per class the code branches on); patterns bounded by the grammar in specs/regex/MCLineMatch.tla.",
    "technique": "TLA+ executable semantics of patterns and options, exhaustively evaluated by TLC, replayed on the rg binary",
}


def pattern_args(rec):
    args = rr.opt_flags(rec["o"], rec["fixed"])
    for p in rec["pats"]:
        args += ["-e", rr.render(p, rec["fixed"])]
    return args


def judge(rec, got, label, ignore=()):
    exp = rec["sel"]
    if ignore:
        got = [x for x in got if x not in ignore]
        exp = [x for x in exp if x not in ignore]
    if got == exp:
        return None
    missing = [i for i in exp if i not in set(got)]
    extra = [i for i in got if i not in set(exp)]
    return {"variant": label, "missing": missing[:8], "extra": extra[:8]}


def parse_std(stdout, passthru=False):
    """`rg -n` output: N:text for matching lines, N-text for context (passthru)."""
    res = []
    for line in stdout.split(b"\n"):
        j = 0
        while j < len(line) and 48 <= line[j] <= 57:
            j += 1
        if j == 0 or j >= len(line):
            continue
        if line[j:j + 1] == b":":
            res.append(int(line[:j]))
    return res


def run(chk, cfg, tier, variants):
    res = vlib.tlc("regex/MCLineMatch", cfg, workers=12, timeout=3600)
    if res.rc != 0:
        raise vlib.ToolError("TLC failed on %s:\n%s" % (cfg, res.tail(40)))
    chk.add_tlc(res)
    recs = res.emits()
    lines = res.emits("LINES")[0]["lines"]
    vlib.log("[C01] %s: %d scenarios x %d lines in %.1fs" % (cfg, len(recs), len(lines), res.wall))
    sc = rgrun.Scratch("c01")
    try:
        files = {}
        for name, o in (("lf", {}), ("crlf", {"crlf": True}), ("nul", {"nul": True})):
            t = rr.term_bytes(o)
            body = t.join(rr.sym_bytes(l) for l in lines)
            files[name] = sc.write("in_%s" % name, body + t)
            files[name + "_noterm"] = sc.write("in_%s_noterm" % name, body)  # last line without terminator
            # the invalid byte as a lone UTF-8 continuation byte (0x80) instead of 0xFF: same verdicts expected
            files[name + "_80"] = sc.write("in_%s_80" % name, (body + t).replace(b"\xff", b"\x80"))
        jobs, meta = [], []
        for i, r in enumerate(recs):
            o = r["o"]
            tname = "nul" if o["nul"] else "crlf" if o["crlf"] else "lf"
            pa = pattern_args(r)
            vs = list(variants)
            if o["crlf"]:
                vs += ["lfmmap", "lfpass"]      # --crlf on a file whose lines end in a bare LF (fast and slow line path)
            # (not for \b / \B, nor -w: what a word boundary does next to invalid UTF-8 depends on the kind of invalid byte)
            if not o["nul"] and not o["word"] and (i + vlib.seed()) % 2 == 0 and "wb" not in json.dumps(r["pats"]):
                vs += ["mmap80", "pass80"]
            for v in vs:
                if tier == "quick" and v in ("json", "reader") and i % 4 and not o["nul"]:
                    continue
                f = files["lf"] if v in ("lfmmap", "lfpass") else files[tname + "_80"] if v in ("mmap80", "pass80") else \
                    files[tname + ("_noterm" if v == "noterm" else "")]
                base = ["--no-config", "--color", "never", "-j1"]
                if v in ("mmap", "noterm", "lfmmap", "mmap80"):
                    args = base + ["-n", "--no-heading", "--mmap"] + pa + [f]
                elif v in ("lfpass", "pass80"):
                    args = base + ["-n", "--no-heading", "--passthru"] + pa + [f]
                elif v == "reader":
                    args = base + ["-n", "--no-heading", "--no-mmap"] + pa + [f]
                elif v == "passthru":
                    args = base + ["-n", "--no-heading", "--passthru"] + pa + [f]
                elif v in ("json", "jsonpass", "jsonreader"):
                    args = base + ["--json"] + {"json": [], "jsonpass": ["--passthru"], "jsonreader": ["--no-mmap"]}[v] + pa + [f]
                else:
                    continue
                if o["nul"] and not v.startswith("json"):
                    continue
                jobs.append({"args": args})
                meta.append((i, v))
        outs = rgrun.run_many(jobs)
        chk.evaluations += len(jobs)
        for (i, v), (rc, so, se) in zip(meta, outs):
            r = recs[i]
            if rc not in (0, 1):
                why = {"variant": v, "rc": rc, "stderr": se.decode("utf8", "replace")[:300]}
            else:
                if v.startswith("json"):
                    got = [m["data"]["line_number"] for m in rgrun.json_matches(so) if m.get("type") == "match"]
                else:
                    got = parse_std(so)
                # on the LF file a content that ends in CR is, together with its LF, a CRLF-terminated line of another
                # content: not judged
                ign = set(k for k, l in enumerate(lines, 1) if l and l[-1] == 13) if v in ("lfmmap", "lfpass") else ()
                why = judge(r, got, v, ign)
            if why:
                o = r["o"]
                sig = {"variant": v, "opts": sorted(k for k, val in o.items() if val), "fixed": r["fixed"],
                       "kinds": sorted(set(kinds(r["pats"])))}
                sig.update(classify(r, why, lines))
                chk.violation(sig, {"why": why, "scenario": r, "args": jobs_args(pattern_args(r)), "lines": "catalogue",
                                    "pattern": [rr.render(p, r["fixed"]) for p in r["pats"]]})
            else:
                chk.validated += 1
                if 0 < len(r["sel"]) < len(lines):
                    chk.nontrivial_case(json.dumps([r["pats"], r["o"], r["fixed"]], sort_keys=True))
                if len(chk.samples) < 3 and len(r["sel"]) > 3 and i % 977 == 0:
                    chk.sample({"pattern": [rr.render(p, r["fixed"]) for p in r["pats"]], "flags": rr.opt_flags(r["o"], r["fixed"]),
                                "selected_line_numbers": r["sel"][:12]})
    finally:
        sc.close()
    return recs


_probe_cache = {}


def engine_pattern(r):
    """The regex ripgrep hands to the engine, as a pattern string (wrappers of -x / -w included)."""
    parts = []
    for p in r["pats"]:
        s = rr.render(p, r["fixed"])
        if r["fixed"]:
            s = "".join("\\" + c if c in rr.META else c for c in s)
        parts.append("(?:" + s + ")")
    pat = "|".join(parts)
    if r["o"]["line"]:
        pat = "^(?:" + pat + ")$"
    elif r["o"]["word"]:
        pat = "(?:\\b{start-half})(?:" + pat + ")(?:\\b{end-half})"
    return pat


def _cr_class(u):
    """does the pattern hold a character class that CR belongs to (a negated class, \\W, a class naming CR)?"""
    if not isinstance(u, dict):
        return False
    if u.get("k") == "cls" and (u.get("neg") or 13 in u.get("s", [])):
        return True
    if u.get("k") == "wcls" and u.get("neg"):
        return True
    return any(_cr_class(u.get(f)) for f in ("a", "b"))


def classify(r, why, lines):
    """Mechanism of a disagreement (matched against known_findings.jsonl)."""
    out = {}
    if not isinstance(why, dict) or "missing" not in why:
        return out
    o = r["o"]
    miss, extra = why["missing"], why["extra"]
    if o["crlf"] and miss and not extra and all(13 in lines[i - 1] for i in miss) and any(_cr_class(p) for p in r["pats"]):
        # (only for patterns holding a class of which CR is a member: that is what the stripping alters)
        out["crlf_bare_cr"] = True
        return out
    key = json.dumps([r["pats"], o, r["fixed"]], sort_keys=True)
    if key not in _probe_cache:
        t = rr.term_bytes(o)
        hay = t.join(rr.sym_bytes(l) for l in lines) + t
        res = vlib.run_driver("probe_engine", [dict(o, patterns=[rr.render(p, r["fixed"]) for p in r["pats"]], fixed=r["fixed"], hay=list(hay))])[0]
        _probe_cache[key] = bool(res.get("engine_inconsistent"))
    if _probe_cache[key]:
        out["engine_bug"] = True
    return out


def jobs_args(a):
    return a


def kinds(pats):
    out = []

    def walk(u):
        out.append(u["k"] + (":" + u["l"] if u["k"] == "look" else ""))
        for f in ("a", "b"):
            if isinstance(u.get(f), dict):
                walk(u[f])
    for p in pats:
        walk(p)
    return out


def main(tier):
    chk = vlib.Check("C01", tier)
    chk.rule = ("every pattern of the bounded grammar x option set is evaluated by TLC on every catalogue line (all contents of "
                "length <= 3 over {a,b,A,space,.,e-acute} plus special lines); each scenario is replayed on rg via mmap, reader, "
                "passthru and JSON, also with the final terminator removed. Non-trivial: the pattern selects some but not all "
                "catalogue lines; distinct by (patterns, options).")
    chk.assumptions = ["bounded grammar and symbol alphabet (specs/regex/MCLineMatch.tla, Syntax.tla)",
                       "haystack anchors \\A \\z excluded as in the property"]
    cfgs = [os.environ.get("C01_CFG")] if os.environ.get("C01_CFG") else ["C01_quick"] if tier == "quick" else ["C01_deep"]
    for c in cfgs:
        run(chk, c, tier, ["mmap", "reader", "passthru", "json", "noterm"])
    if not os.environ.get("C01_CFG"):
        # --null-data on records that hold line feeds (JSON output only: the text forms cannot show such records line by line)
        run(chk, "C01_nullf", "thorough", ["json", "jsonpass", "jsonreader"])
    chk.exhaustive = True
    return chk.finish()


def replay(path):
    rec = json.load(open(path))
    r = rec["record"]["scenario"]
    chk = vlib.Check("C01", "quick")
    # re-run just this scenario on the catalogue
    res = vlib.tlc("regex/MCLineMatch", "C01_quick", workers=4, timeout=1800)
    lines = res.emits("LINES")[0]["lines"]
    sc = rgrun.Scratch("c01r")
    try:
        o = r["o"]
        t = rr.term_bytes(o)
        f = sc.write("in", t.join(rr.sym_bytes(l) for l in lines) + t)
        v = rec["record"]["why"].get("variant", "mmap")
        flag = {"mmap": ["--mmap"], "reader": ["--no-mmap"], "passthru": ["--passthru"], "noterm": ["--mmap"]}.get(v, [])
        args = ["--no-config", "--color", "never", "-j1"] + (["--json"] if v == "json" else ["-n", "--no-heading"] + flag) + pattern_args(r) + [f]
        rc, so, se = rgrun.run_many([{"args": args}])[0]
        got = ([m["data"]["line_number"] for m in rgrun.json_matches(so) if m.get("type") == "match"] if v == "json" else parse_std(so))
        why = judge(r, got, v)
        print(json.dumps({"args": args[:-1], "expected": r["sel"][:20], "got": got[:20], "why": why}))
        if why:
            print("VIOLATION property=C01 replay=%s" % path)
            return 1
        print("replay: property holds on this scenario now")
        return 0
    finally:
        sc.close()

"""C09: printed lines and their coordinates are the input's own; JSON output is lossless."""
import base64
import os
import json

import regexrender as rr
import rgrun
import vlib

META = {
    "text": "TLC computes, for every pattern of the printer family x option set and every line of a catalogue (all contents of length <= 3 over {a,b,space,e-acute} plus lines with invalid UTF-8), whether the line is selected and the successive matches with their byte offsets (Printer.tla over RegexSem); for multi-line search the successive matches over whole inputs (GrepModelML). From these data the expected records of rg -n -b --column, --vimgrep -b, context output, --json (with and without context) and -U --vimgrep are formed and compared with the real output: line text byte-for-byte, line number, offset, column of the first (resp. each) match, JSON text/bytes (base64 iff invalid UTF-8), submatch start/end/text, begin/match|context*/end structure. A further part runs rg --json on free-form byte files (every class of valid and invalid UTF-8, U+FFFD itself, NUL under -a, lines longer than the buffer, CRLF, no final terminator): the message stream is validated by TLC against GrepModel (GrepJudge), byte fidelity and the text/base64 choice on the decoded messages. The printers are also driven at library level behind a writer that accepts only part of each buffer (print_lib). The attribution part (specs/cli/Attribution.tla, judged by TLC) runs several files per invocation, some of which fail part-way through a --pre command, under --heading, -H and --json with -j1 / -j2 and checks that every printed line is that line of the file it is shown for and that a file searched without a fault shows exactly its matching lines.",
    "note": "Patterns bounded by specs/regex/MCPrinter.tla and MCGrepML.tla; symbols abstract bytes; lines with a multi-byte character are not judged for patterns that match the empty string (byte-level empty matches are not modelled); --null path decoration only lightly covered; in the attribution part the failing files are only required to show a prefix of their matching lines.",
    "technique": "TLA+ executable semantics enumerated by TLC, replayed on the rg binary (text and JSON printers)",
}


def lno(field):
    """Line number of an output record, -1 if the record is not of the expected shape (it is then kept and compared)."""
    try:
        return int(field)
    except ValueError:
        return -1


def judged(rec, content):
    return not (rec.get("nullable") and any(c in (10, 11) for c in content))


def recs_plain(rec, lines, offs):
    out = []
    for i, (lr, content) in enumerate(zip(rec["lines"], lines), 1):
        if lr["sel"] and judged(rec, content):
            t = rr.sym_bytes(content)
            if rec["o"]["inv"]:
                out.append(b"%d:%d:%s" % (i, offs[i - 1], t))
            else:
                out.append(b"%d:%d:%d:%s" % (i, lr["m"][0][0] + 1, offs[i - 1], t))
    return out


def recs_vimgrep(rec, lines, offs, fname):
    out = []
    for i, (lr, content) in enumerate(zip(rec["lines"], lines), 1):
        if lr["sel"] and judged(rec, content):
            t = rr.sym_bytes(content)
            for s, e in lr["m"]:
                out.append(b"%s:%d:%d:%d:%s" % (fname, i, s + 1, offs[i - 1] + s, t))
    return out


def recs_context(rec, lines, offs):
    sel = [lr["sel"] for lr in rec["lines"]]
    n = len(sel)
    out = []
    last = 0
    for i in range(1, n + 1):
        near = sel[i - 1] or (i > 1 and sel[i - 2]) or (i < n and sel[i])
        if not near:
            continue
        if last and last < i - 1:
            out.append(b"--")
        t = rr.sym_bytes(lines[i - 1])
        out.append((b"%d:%d:%s" if sel[i - 1] else b"%d-%d-%s") % (i, offs[i - 1], t))
        last = i
    return out


def json_lines_field(data):
    if "text" in data:
        return data["text"].encode("utf8"), "text"
    return base64.b64decode(data["bytes"]), "bytes"


def valid_utf8(b):
    try:
        b.decode("utf8")
        return True
    except UnicodeDecodeError:
        return False


def check_json(rec, lines, offs, term, msgs, with_ctx):
    """-> None or reason."""
    if not msgs:
        return None if not any(lr["sel"] for lr in rec["lines"]) else "no JSON output although lines are selected"
    kinds = [m.get("type") for m in msgs]
    if not any(lr["sel"] for lr in rec["lines"]) and with_ctx != "all":
        return None if kinds in ([], ["summary"]) else "messages %s for a file without selected lines" % kinds[:4]
    if kinds[0] != "begin" or "end" not in kinds or kinds[-1] != "summary" or kinds[-2] != "end" or kinds.count("begin") != 1 or kinds.count("end") != 1:
        return "message structure is not begin (match|context)* end summary: %s" % kinds[:6]
    body = msgs[1:-2]
    sel = [lr["sel"] for lr in rec["lines"]]
    n = len(sel)
    exp = []
    for i in range(1, n + 1):
        if sel[i - 1]:
            exp.append(("match", i))
        elif with_ctx == "all" or (with_ctx and ((i > 1 and sel[i - 2]) or (i < n and sel[i]))):
            exp.append(("context", i))
    got = [(m["type"], m["data"]["line_number"]) for m in body]
    if got != exp:
        return "JSON messages %s... differ from expected %s..." % (got[:5], exp[:5])
    for m in body:
        d = m["data"]
        i = d["line_number"]
        content = lines[i - 1]
        raw = rr.sym_bytes(content) + term
        b, kind = json_lines_field(d["lines"])
        if b != raw:
            return "line %d: JSON line text does not reproduce the input bytes" % i
        if (kind == "text") != valid_utf8(raw):
            return "line %d: base64 used although the bytes are valid UTF-8, or text although they are not" % i
        if d["absolute_offset"] != offs[i - 1]:
            return "line %d: absolute_offset %d != %d" % (i, d["absolute_offset"], offs[i - 1])
        if m["type"] == "match" and judged(rec, content) and not rec["o"]["inv"]:
            sm = [(x["start"], x["end"]) for x in d["submatches"]]
            if sm != [tuple(x) for x in rec["lines"][i - 1]["m"]]:
                return "line %d: submatches %s != %s" % (i, sm, rec["lines"][i - 1]["m"])
            for x in d["submatches"]:
                t, _ = json_lines_field(x["match"])
                if t != raw[x["start"]:x["end"]]:
                    return "line %d: submatch text does not slice the line" % i
    return None


def line_part(chk, tier):
    res = vlib.tlc("regex/MCPrinter", "C09_quick" if tier == "quick" else "C09_deep", workers=12, timeout=7200, xmx="16g")
    if res.rc != 0:
        raise vlib.ToolError("TLC failed:\n" + res.tail(40))
    chk.add_tlc(res)
    recs = res.emits()
    lines = res.emits("LINES")[0]["lines"]
    vlib.log("[C09] %d scenarios x %d lines in %.1fs" % (len(recs), len(lines), res.wall))
    sc = rgrun.Scratch("c09")
    try:
        files = {}
        for name, term in (("lf", b"\n"), ("crlf", b"\r\n")):
            offs, o = [], 0
            for l in lines:
                offs.append(o)
                o += len(rr.sym_bytes(l)) + len(term)
            files[name] = (sc.write("in_" + name, term.join(rr.sym_bytes(l) for l in lines) + term), offs, term)
        # the catalogue with a CR at the end of every line, LF-terminated: a CRLF file searched WITHOUT --crlf (the CR is content)
        lines_cr = [list(l) + [13] for l in lines]
        offs, o = [], 0
        for l in lines_cr:
            offs.append(o)
            o += len(rr.sym_bytes(l)) + 1
        files["cr"] = (sc.write("in_cr", b"\n".join(rr.sym_bytes(l) for l in lines_cr) + b"\n"), offs, b"\n")
        base = ["--no-config", "--color", "never", "-j1"]
        jobs, meta = [], []
        for i, r in enumerate(recs):
            f, offs, term = files["crlf" if r["o"]["crlf"] else "lf"]
            pa = rr.opt_flags(r["o"]) + ["-e", rr.render(r["u"])]
            variants = ["plain", "context", "json", "jsonctx", "jsonpass"] + ([] if r["o"]["inv"] else ["vimgrep"])
            if i % 3 == 0:
                variants += ["heading", "null", "withname"]
            if r["o"]["crlf"]:
                variants += ["plain_lf", "context_lf"]     # --crlf on a file whose lines end in a bare LF
            if r.get("crlines") and (i + vlib.seed()) % 2 == 0:
                variants += ["plain_cr", "json_cr"]
            for v in variants:
                if v in ("plain_cr", "json_cr"):
                    a = ["--json"] if v == "json_cr" else ["-n", "-b", "--no-heading"] + ([] if r["o"]["inv"] else ["--column"])
                    jobs.append({"args": base + a + pa + [files["cr"][0]]})
                    meta.append((i, v))
                    continue
                if v in ("plain_lf", "context_lf"):
                    a = ["-n", "-b", "--no-heading"] + (["-C1"] if v == "context_lf" else ([] if r["o"]["inv"] else ["--column"]))
                    jobs.append({"args": base + a + pa + [files["lf"][0]]})
                    meta.append((i, v))
                    continue
                if v == "plain":
                    a = ["-n", "-b", "--no-heading"] + ([] if r["o"]["inv"] else ["--column"])
                elif v == "vimgrep":
                    a = ["--vimgrep", "-b"]
                elif v == "context":
                    a = ["-n", "-b", "--no-heading", "-C1"]
                elif v == "heading":
                    a = ["-n", "-b", "--heading", "-H"] + ([] if r["o"]["inv"] else ["--column"])
                elif v == "null":
                    a = ["-n", "-b", "--no-heading", "-H", "--null"] + ([] if r["o"]["inv"] else ["--column"])
                elif v == "withname":
                    a = ["-n", "-b", "--no-heading", "-H"] + ([] if r["o"]["inv"] else ["--column"])
                elif v == "json":
                    a = ["--json"]
                elif v == "jsonpass":
                    a = ["--json", "--passthru"]
                else:
                    a = ["--json", "-C1"]
                jobs.append({"args": base + a + pa + [f]})
                meta.append((i, v))
        outs = rgrun.run_many(jobs)
        chk.evaluations += len(jobs)
        lines_all = lines
        for (i, v), (rc, so, se), j in zip(meta, outs, jobs):
            r = recs[i]
            lines = lines_all
            f, offs, term = files["crlf" if (r["o"]["crlf"] and not v.endswith("_lf")) else "lf"]
            if v.endswith("_lf"):
                v = v[:-3]
            if v.endswith("_cr"):
                v = v[:-3]
                r = dict(r, lines=r["crlines"])
                lines = lines_cr
                f, offs, term = files["cr"]
            why = None
            strip = (lambda x: x[:-1] if term == b"\r\n" and x.endswith(b"\r") else x)
            if rc not in (0, 1):
                why = "rg failed rc=%d %s" % (rc, se[:200])
            elif v in ("heading", "null", "withname"):
                # path decoration: --heading puts the path on a line of its own, -H prefixes `path:`, --null ends the path with NUL
                exp = recs_plain(r, lines, offs)
                skip = set(k for k, c in enumerate(lines, 1) if not judged(r, c))
                raw = [strip(x) for x in so.split(b"\n") if x != b""]
                fb = f.encode()
                if v == "heading":
                    ok_path = (not exp and not raw) or (raw and raw[0] == fb)
                    got = raw[1:] if raw else []
                else:
                    pre = fb + (b"\x00" if v == "null" else b":")
                    ok_path = all(x.startswith(pre) for x in raw)
                    got = [x[len(pre):] for x in raw]
                got = [g for g in got if lno(g.split(b":", 1)[0]) not in skip]
                if not ok_path:
                    why = "path decoration of mode %s is wrong: %r" % (v, raw[:2])
                elif got != exp:
                    k = next((k for k, (a, b) in enumerate(zip(got, exp)) if a != b), min(len(got), len(exp)))
                    why = {"first_difference": k, "got": repr(got[k:k + 2]), "expected": repr(exp[k:k + 2])}
            elif v in ("plain", "vimgrep", "context"):
                got = [strip(x) for x in so.split(b"\n") if x != b""]
                # the group separator is written with the searcher's terminator (CRLF under --crlf) whatever the lines end in
                got = [b"--" if x == b"--\r" else x for x in got]
                if v == "plain":
                    exp = recs_plain(r, lines, offs)
                    skip = set(k for k, c in enumerate(lines, 1) if not judged(r, c))
                    got = [g for g in got if lno(g.split(b":", 1)[0]) not in skip]
                elif v == "vimgrep":
                    exp = recs_vimgrep(r, lines, offs, f.encode())
                    skip = set(k for k, c in enumerate(lines, 1) if not judged(r, c))
                    got = [g for g in got if lno(g[len(f) + 1:].split(b":", 1)[0]) not in skip]
                else:
                    exp = recs_context(r, lines, offs)
                if got != exp:
                    k = next((k for k, (a, b) in enumerate(zip(got, exp)) if a != b), min(len(got), len(exp)))
                    why = {"first_difference": k, "got": repr(got[k:k + 2]), "expected": repr(exp[k:k + 2])}
            else:
                why = check_json(r, lines, offs, term, rgrun.json_matches(so), "all" if v == "jsonpass" else v == "jsonctx")
            if why:
                chk.violation({"variant": v, "pattern": rr.render(r["u"]), "opts": sorted(k for k, val in r["o"].items() if val)},
                              {"why": why, "args": j["args"][:-1], "scenario": {"u": r["u"], "o": r["o"]}})
            else:
                chk.validated += 1
                if any(lr["sel"] and len(lr["m"]) > 0 and lr["m"][0][0] > 0 for lr in r["lines"]):
                    chk.nontrivial_case(json.dumps([r["u"], r["o"], v], sort_keys=True))
                if len(chk.samples) < 2 and v == "plain" and i % 37 == 5:
                    chk.sample({"args": j["args"][4:-1], "first_records": [x.decode("latin1") for x in recs_plain(r, lines, offs)[:4]]})
    finally:
        sc.close()


def pure_literal(u):
    """The symbols of a pattern that is a concatenation of literals over {a, b, LF} (else None)."""
    if u["k"] == "lit":
        return [u["c"]] if u["c"] in (1, 2, 14) else None
    if u["k"] == "cat":
        a, b = pure_literal(u["a"]), pure_literal(u["b"])
        return None if a is None or b is None else a + b
    return None


def ml_part(chk, tier):
    """-U --vimgrep -b: one record per match, located at the line holding the match's start."""
    res = vlib.tlc("regex/MCGrepML", "C09_ml" if tier == "quick" else "C09_ml_deep", workers=12, timeout=7200, xmx="16g")
    if res.rc != 0:
        raise vlib.ToolError("TLC failed on C09_ml:\n" + res.tail(40))
    chk.add_tlc(res)
    recs = [r for r in res.emits() if not r["scn"]["cfg"]["inv"] and not r["scn"]["cfg"]["pass"] and r["ms"]
            and all(m[0] < m[1] for m in r["ms"]) and not r["scn"]["o"]["word"] and not r["scn"]["o"]["line"]]
    if tier == "quick":
        recs = recs[::3]
    sc = rgrun.Scratch("c09ml")
    try:
        jobs = []
        for k, r in enumerate(recs):
            inp = rr.sym_bytes(r["scn"]["inp"])
            f = sc.write("d%d/f%d" % (k % 50, k), inp)
            for form in (["--vimgrep", "-b"], ["-n", "-b", "--column", "--no-heading"]):
                args = ["--no-config", "--color", "never", "-j1", "-U"] + form
                if r["scn"]["o"]["dotall"]:
                    args.append("--multiline-dotall")
                jobs.append({"args": args + ["-e", rr.render(r["scn"]["u"]), f], "_f": f, "_inp": inp, "_r": r, "_std": form[0] == "-n"})
            # nothing in front of the lines (-N -I, no heading), the same file twice: the lines of every block, each with its
            # terminator - also the last line of a file that does not end in one - and nothing between the two searches
            args = ["--no-config", "--color", "never", "-j1", "-U", "-N", "-I", "--no-heading"] + (["--multiline-dotall"] if r["scn"]["o"]["dotall"] else [])
            jobs.append({"args": args + ["-e", rr.render(r["scn"]["u"]), f, f], "_f": f, "_inp": inp, "_r": r, "_std": False, "_bare": True})
            # the same search with the bytes renamed (LF -> NUL, b -> LF) under --null-data, for patterns made of literals only
            # (for them the renaming is an isomorphism): records that hold line feeds, NUL as the terminator
            lits = pure_literal(r["scn"]["u"])
            if lits is not None and not r["scn"]["o"]["dotall"]:
                ren = bytes.maketrans(b"\nb", b"\x00\n")
                f0 = sc.write("z%d/f%d" % (k % 50, k), inp.translate(ren))
                pat = "".join({1: "a", 2: "\\n", 14: "\\x00"}[c] for c in lits)
                jobs.append({"args": ["--no-config", "--color", "never", "-j1", "-U", "--null-data", "-N", "-I", "--no-heading", "-e", pat, f0, f0],
                             "_f": f0, "_inp": inp, "_r": r, "_std": False, "_bare": True, "_ren": ren})
        outs = rgrun.run_many(jobs)
        chk.evaluations += len(jobs)
        for j, (rc, so, se) in zip(jobs, outs):
            r = j["_r"]
            inp = j["_inp"]
            if j.get("_bare"):
                exp = b""
                pos = 0
                while pos < len(inp):
                    e = inp.find(b"\n", pos)
                    e = len(inp) if e < 0 else e
                    end = min(e + 1, len(inp))
                    if any(m[0] < end and m[1] > pos for m in r["ms"]):
                        exp += inp[pos:e] + b"\n"
                    pos = end
                if j.get("_ren"):
                    exp = exp.translate(j["_ren"])
                if so != exp + exp:
                    chk.violation({"variant": "ml_bare_twice" + ("_nul" if j.get("_ren") else ""), "pattern": rr.render(r["scn"]["u"]), "opts": sorted(k for k, v in r["scn"]["o"].items() if v),
                                   "unterminated": not inp.endswith(b"\n")},
                                  {"why": {"got": repr(so[:200]), "expected": repr((exp + exp)[:200])}, "args": j["args"][:-2], "input": list(inp)})
                else:
                    chk.validated += 1
                continue
            if j["_std"]:
                # -U -n -b --column: every line covered by a match is printed with its number, the column of the first
                # match in it (1 when a match continues from the previous line) and the offset of the line
                exp = []
                pos, ln = 0, 1
                while pos < len(inp):
                    e = inp.find(b"\n", pos)
                    e = len(inp) if e < 0 else e
                    end = min(e + 1, len(inp))
                    over = [m for m in r["ms"] if m[0] < end and m[1] > pos]
                    if over:
                        col = max(over[0][0] - pos, 0) + 1
                        exp.append(b"%d:%d:%d:%s" % (ln, col, pos, inp[pos:e]))
                    pos, ln = end, ln + 1
                got = [x for x in so.split(b"\n") if x]
                if got != exp:
                    # mechanism: do the two differ only in the column of lines that continue a block (a line whose
                    # predecessor is printed too)?
                    def nocol(recs):
                        out = []
                        prev = 0
                        for x in recs:
                            p = x.split(b":", 3)
                            n = int(p[0]) if p[0].isdigit() else -1
                            out.append(p[:1] + p[2:] if (len(p) == 4 and n == prev + 1 and prev) else p)
                            prev = n
                        return out
                    sig_extra = {"ml_column_repeat": True} if nocol(got) == nocol(exp) else {}
                    chk.violation(dict({"variant": "ml_standard", "pattern": rr.render(r["scn"]["u"]), "opts": sorted(k for k, v in r["scn"]["o"].items() if v)}, **sig_extra),
                                  {"why": {"got": repr(got[:4]), "expected": repr(exp[:4])}, "args": j["args"][:-1], "input": list(inp)})
                else:
                    chk.validated += 1
                continue
            exp = []
            for s, e in r["ms"]:
                ls = inp.rfind(b"\n", 0, s) + 1
                le = inp.find(b"\n", s)
                le = len(inp) if le < 0 else le
                ln = inp.count(b"\n", 0, s) + 1
                exp.append((b"%s:%d:%d:%d:%s" % (j["_f"].encode(), ln, s - ls + 1, s, inp[ls:le]),
                            b"%s:%d:%d:%d:%s" % (j["_f"].encode(), ln, s - ls + 1, ls, inp[ls:le])))
            got = [x for x in so.split(b"\n") if x]
            # with --vimgrep the -b value is the offset of the match in line mode and of the line in multi-line mode;
            # the statement does not say which, so either is accepted
            if len(got) != len(exp) or any(g not in e for g, e in zip(got, exp)):
                chk.violation({"variant": "ml_vimgrep", "pattern": rr.render(r["scn"]["u"]), "opts": sorted(k for k, v in r["scn"]["o"].items() if v)},
                              {"why": {"got": repr(got[:4]), "expected": repr(exp[:4])}, "args": j["args"][:-1], "input": list(inp)})
            else:
                chk.validated += 1
                if len(r["ms"]) >= 2:
                    chk.nontrivial_case(json.dumps([r["scn"]["u"], r["scn"]["o"], r["scn"]["inp"]]))
    finally:
        sc.close()


RAW_TOKENS = [b"x", b"x", b"a", b" ", "\u00e9".encode(), "\u20ac".encode(), "\U0001F600".encode(), "\ufffd".encode(), b"\xff", b"\xc3",
              b"\xe2\x82", b"\xed\xa0\x80", b"\xc0\xaf", b"\r", b"\t", b"\x00", b"\xf0\x9f"]


def raw_json_part(chk, tier):
    """rg --json on free-form byte files (every class of valid and invalid UTF-8, U+FFFD itself, NUL under -a, lines longer
    than the roll buffer, CRLF, no final terminator) with the fixed string x: the message stream (which lines, numbers,
    offsets, lengths, end statistics) is judged by TLC (GrepJudge over GrepModel); that the reported bytes are the
    input's own, that text/base64 is chosen by UTF-8 validity and that the submatches are the occurrences of x is
    checked on the decoded messages."""
    import random
    rng = random.Random(vlib.seed() * 7919 + 9)
    nfiles = 16 if tier == "quick" else 150
    sc = rgrun.Scratch("c09raw")
    try:
        jobs, meta = [], []
        for k in range(nfiles):
            tb = b"\r\n" if k % 3 == 1 else b"\n"
            nl = rng.randint(1, 14)
            lines = []
            for _ in range(nl):
                toks = [rng.choice(RAW_TOKENS) for _ in range(rng.randint(0, 8))]
                if rng.random() < 0.04:
                    toks.insert(rng.randint(0, len(toks)), b"y" * rng.randint(66000, 90000))
                lines.append(b"".join(toks).replace(b"\n", b""))
            data = tb.join(lines) + (tb if rng.random() < 0.8 else b"")
            if not data:
                data = b"x"
            f = sc.write("r%03d" % k, data)
            # the fixed string x, and a byte-mode pattern for the lead byte of a two-byte character (a submatch that splits a
            # character is not valid UTF-8 although its line may be)
            for needle, pat in ((b"x", ["-F", "x"]), (b"\xc3", ["-e", "(?-u:\\xC3)"])):
                if needle != b"x" and k % 2:
                    continue
                for ctx in (0, 1):
                    for mm in ("--mmap", "--no-mmap"):
                        args = ["--no-config", "-a", "--json", "-j1", mm] + (["--crlf"] if tb == b"\r\n" and k % 2 else []) + \
                               (["-C1"] if ctx else []) + pat + [f]
                        jobs.append({"args": args})
                        meta.append((k, data, ctx, mm, needle))
        outs = rgrun.run_many(jobs)
        chk.evaluations += len(jobs)
        os.makedirs(os.path.join(vlib.WORK, "c09"), exist_ok=True)
        rpath = os.path.join(vlib.WORK, "c09", "raw_%d.ndjson" % os.getpid())
        pywhy = {}
        with open(rpath, "w") as fh:
            for rid, ((k, data, ctx, mm, needle), (rc, so, se)) in enumerate(zip(meta, outs), 1):
                L, s0 = [], 0
                while s0 < len(data):
                    e0 = data.find(b"\n", s0)
                    e0 = len(data) if e0 < 0 else e0 + 1
                    L.append({"s": s0, "e": e0})
                    s0 = e0
                sel = [i + 1 for i, l in enumerate(L) if needle in data[l["s"]:l["e"]]]
                obs = []
                why = None
                try:
                    msgs = [json.loads(x) for x in so.split(b"\n") if x.strip()]
                except ValueError:
                    msgs, why = [], "output is not JSON lines"
                if rc not in (0, 1):
                    why = "rg failed rc=%d: %s" % (rc, se.decode("utf8", "replace")[:200])
                for m in msgs:
                    t, d = m.get("type"), m.get("data", {})
                    if t == "begin":
                        obs.append({"k": "begin", "ln": 0, "off": 0, "len": 0})
                    elif t in ("match", "context"):
                        raw, kind = json_lines_field(d["lines"])
                        off = d["absolute_offset"]
                        obs.append({"k": "match" if t == "match" else "ctx", "ln": d["line_number"], "off": off, "len": len(raw)})
                        if why:
                            continue
                        if raw != data[off:off + len(raw)]:
                            why = "line %s: reported bytes are not the input's bytes at the reported offset" % d["line_number"]
                        elif (kind == "text") != valid_utf8(raw):
                            why = "line %s: %s used for %r" % (d["line_number"], kind, raw[:40])
                        elif t == "match":
                            occ = [(i, i + 1) for i in range(len(raw)) if raw[i:i + 1] == needle]
                            if [(x["start"], x["end"]) for x in d["submatches"]] != occ:
                                why = "line %s: submatches %s, occurrences of %r %s" % (d["line_number"], [(x["start"], x["end"]) for x in d["submatches"]][:4], needle, occ[:4])
                            elif any(json_lines_field(x["match"]) != (needle, "text" if valid_utf8(needle) else "bytes") for x in d["submatches"]):
                                why = "line %s: a submatch is not %r given as %s" % (d["line_number"], needle, "text" if valid_utf8(needle) else "base64 bytes")
                    elif t == "end":
                        obs.append({"k": "finish", "ln": 0, "off": d["stats"]["bytes_searched"], "len": 1})
                if not sel and not why:
                    if [m.get("type") for m in msgs] != ["summary"]:
                        why = "messages %s for a file without a selected line" % [m.get("type") for m in msgs][:4]
                    obs = None
                pywhy[rid] = why
                if obs is not None:
                    fh.write(json.dumps({"id": rid, "L": L, "sel": sel, "total": len(data), "nobreak": True,
                                         "cfg": {"A": ctx, "B": ctx, "inv": False, "pass": False, "stopnm": False, "lnum": True, "term": "lf"},
                                         "obs": obs}) + "\n")
        res = vlib.tlc("search/GrepJudge", "GrepJudge", workers=8, timeout=1800, env={"RUNS": rpath}, xmx="8g")
        os.remove(rpath)
        if res.rc != 0:
            raise vlib.ToolError("GrepJudge failed:\n" + res.tail(40))
        chk.add_tlc(res)
        bad = set(v["id"] for v in res.emits("VERDICT"))
        for rid, ((k, data, ctx, mm, needle), (rc, so, se)) in enumerate(zip(meta, outs), 1):
            why = pywhy[rid] or ("the message stream (lines, numbers, offsets, lengths, bytes searched) is not the reference stream" if rid in bad else None)
            if why:
                chk.violation({"variant": "json_raw", "mmap": mm, "context": ctx, "crlf": b"\r\n" in data},
                              {"why": why, "args": jobs[rid - 1]["args"][:-1], "input": list(data) if len(data) < 4000 else list(data[:4000]),
                               "input_seed": [vlib.seed(), k], "stdout_head": so[:600].decode("utf8", "replace")})
            else:
                chk.validated += 1
                if any(not valid_utf8(l) for l in data.split(b"\n")) and b"x" in data:
                    chk.nontrivial_case("raw:%d:%d:%s" % (k, ctx, mm))
        vlib.log("[C09] raw JSON part: %d runs, %d streams rejected by TLC" % (len(jobs), len(bad)))
        # the printers behind a writer that accepts only a few bytes per write() call: same bytes as behind one that takes all
        datas = {}
        for (k, data, ctx, mm, needle) in meta:
            datas[k] = data
        ljobs = [{"id": "%d:%d:%d" % (k, ctx, ch), "pattern": "x", "fixed": True, "input": list(d), "chunk": ch, "ctx": ctx}
                 for k, d in sorted(datas.items()) if len(d) < 30000 for ctx in (0, 1) for ch in (1, 7, 61)]
        louts = vlib.run_driver("print_lib", ljobs, parallel=8) if ljobs else []
        chk.evaluations += 2 * len(ljobs)
        for j, o in zip(ljobs, louts):
            for which in ("std", "json"):
                r = o.get(which, {"equal": False, "error": o.get("error")})
                if r.get("equal"):
                    chk.validated += 1
                else:
                    chk.violation({"variant": "short_writes", "printer": which, "chunk": j["chunk"], "context": j["ctx"]},
                                  {"why": "the %s printer writes different bytes into a writer that accepts %d-%d bytes per call than into one "
                                          "that accepts everything" % (which, j["chunk"], j["chunk"] + 2), "comparison": r,
                                   "input": j["input"][:4000], "pattern": "x (fixed string)"})
    finally:
        sc.close()


ATTR_PRE = b"""#!/bin/sh
# preprocessor of the attribution part: by the file's extension it writes all / the first two lines / nothing and fails
case "$1" in
  *.after) cat "$1"; exit 1 ;;
  *.mid) head -n 2 "$1"; exit 1 ;;
  *.before) exit 1 ;;
  *) exec cat "$1" ;;
esac
"""


def attribution_part(chk, tier):
    """Several files per run, some of which fail part-way (a --pre command that writes a prefix of the file and exits
    unsuccessfully): every line printed under a heading / with a path prefix / inside a JSON begin..end bracket is that
    line of THAT file.  Judged by TLC (specs/cli/Attribution.tla)."""
    import random
    import re
    rng = random.Random(vlib.seed() * 104729 + 9)
    ntrees = 40 if tier == "quick" else 400
    sc = rgrun.Scratch("c09attr")
    try:
        pre = sc.write("pre.sh", ATTR_PRE)
        os.chmod(pre, 0o755)
        jobs, meta = [], []
        ids = {}
        for t in range(ntrees):
            d = "t%03d" % t
            nf = rng.randint(2, 4)
            files = []
            for k in range(nf):
                kind = rng.choice(["ok", "ok", "after", "mid", "before", "nomatch"]) if k or t % 2 else rng.choice(["after", "mid"])
                nl = rng.randint(3, 7)
                lines = []
                for n in range(1, nl + 1):
                    m = kind != "nomatch" and (n <= 2 or rng.random() < 0.5)
                    lines.append(("foo " if m else "bar ") + "k%dn%d" % (k, n))
                name = "f%d.%s" % (k, kind)
                sc.write(d + "/" + name, ("\n".join(lines) + "\n").encode())
                files.append({"name": name, "kind": kind, "text": lines,
                              "lines": [ids.setdefault(x, len(ids) + 1) for x in lines],
                              "want": [n for n, x in enumerate(lines, 1) if x.startswith("foo ")],
                              "ok": kind in ("ok", "nomatch")})
            for form, fl in (("heading", ["--heading", "-n"]), ("heading", ["--heading", "-n", "-C1"]),
                             ("prefix", ["--no-heading", "-H", "-n"]), ("prefix", ["--no-heading", "-H", "-n", "-A1"]),
                             ("json", ["--json"]), ("json", ["--json", "-B1"])):
                for th in (["-j1", "--sort", "path"], ["-j1"], ["-j2"]):
                    explicit = (t + len(fl) + len(th)) % 2 == 0
                    args = ["--no-config", "--color", "never"] + th + fl + ["--pre", pre, "-e", "foo"]
                    args += [f["name"] for f in files] if explicit else ["./"]
                    jobs.append({"args": args, "cwd": sc.path(d)})
                    meta.append((t, form, files, fl, th, explicit))
        outs = rgrun.run_many(jobs)
        chk.evaluations += len(jobs)
        runs = []
        for rid, ((t, form, files, fl, th, explicit), (rc, so, se)) in enumerate(zip(meta, outs), 1):
            names = {}
            for k, f in enumerate(files, 1):
                names[f["name"]] = k
                names["./" + f["name"]] = k
            toks = []
            if form == "json":
                for m in rgrun.json_matches(so):
                    ty = m.get("type")
                    pth = ((m.get("data") or {}).get("path") or {}).get("text")
                    if ty == "begin":
                        toks.append({"k": "heading", "f": names.get(pth, 0), "n": 0, "t": 0, "m": False})
                    elif ty == "end":
                        toks.append({"k": "end", "f": names.get(pth, 0), "n": 0, "t": 0, "m": False})
                    elif ty in ("match", "context"):
                        txt = (m["data"].get("lines") or {}).get("text", "")
                        toks.append({"k": "line", "f": names.get(pth, 0), "n": m["data"].get("line_number") or 0,
                                     "t": ids.get(txt.rstrip("\n"), 0), "m": ty == "match"})
                    elif ty != "summary":
                        toks.append({"k": "other", "f": 0, "n": 0, "t": 0, "m": False})
            else:
                for raw in so.decode("latin1").split("\n")[:-1]:
                    if raw in ("", "--"):
                        toks.append({"k": "sep", "f": 0, "n": 0, "t": 0, "m": False})
                        continue
                    if form == "heading" and raw in names:
                        toks.append({"k": "heading", "f": names[raw], "n": 0, "t": 0, "m": False})
                        continue
                    f = 0
                    body = raw
                    if form == "prefix":
                        mm = re.match(r"^((?:\./)?f\d\.[a-z]+)[:-](.*)$", raw)
                        if mm:
                            f, body = names.get(mm.group(1), 0), mm.group(2)
                            # keep the separator in front of the number for the match below
                            body = raw[len(mm.group(1)) + 1:]
                    mm = re.match(r"^(\d+)([:-])(.*)$", body)
                    if mm and (form == "heading" or f):
                        toks.append({"k": "line", "f": f, "n": int(mm.group(1)), "t": ids.get(mm.group(3), 0), "m": mm.group(2) == ":"})
                    else:
                        toks.append({"k": "other", "f": 0, "n": 0, "t": 0, "m": False})
            runs.append({"id": rid, "form": form, "out": toks,
                         "files": [{"lines": f["lines"], "want": f["want"], "ok": f["ok"]} for f in files]})
        os.makedirs(os.path.join(vlib.WORK, "c09"), exist_ok=True)
        path = os.path.join(vlib.WORK, "c09", "attr_%d.ndjson" % os.getpid())
        with open(path, "w") as f:
            for r in runs:
                f.write(json.dumps(r) + "\n")
        res = vlib.tlc("cli/Attribution", "Attribution", workers=8, timeout=1800, env={"RUNS": path})
        os.remove(path)
        if res.rc != 0:
            raise vlib.ToolError("Attribution failed:\n" + res.tail(40))
        chk.add_tlc(res)
        bad = set(v["id"] for v in res.emits("VERDICT"))
        vlib.log("[C09] attribution: %d runs of %d trees judged by TLC, %d not allowed" % (len(runs), ntrees, len(bad)))
        for r, (t, form, files, fl, th, explicit), j, (rc, so, se) in zip(runs, meta, jobs, outs):
            if r["id"] in bad:
                chk.violation({"part": "attribution", "form": form, "flags": " ".join(fl), "threads": " ".join(th), "explicit": explicit,
                               "kinds": [f["kind"] for f in files]},
                              {"why": "a printed line is not the line of the file it is shown for (Attribution.tla)",
                               "args": [a if a != pre else "pre.sh" for a in j["args"]],
                               "files": {f["name"]: f["text"] for f in files}, "stdout": so[:1500].decode("latin1"), "stderr": se[:400].decode("latin1")})
            else:
                chk.validated += 1
                if any(not f["ok"] for f in files[:-1]) and sum(1 for x in r["out"] if x["k"] == "heading") >= 2:
                    chk.nontrivial_case("attr:%d:%s:%s:%s" % (t, form, " ".join(fl), " ".join(th)))
    finally:
        sc.close()


def main(tier):
    chk = vlib.Check("C09", tier)
    chk.rule = ("line mode: every (pattern, options) of the printer family on the whole line catalogue through 5 output forms; multi-line: "
                "every (pattern, input) of the C13 family with non-empty matches through -U --vimgrep -b. Non-trivial: some selected line "
                "whose first match does not start at column 1 (line mode) / at least two matches (multi-line); distinct by scenario and form.")
    chk.assumptions = ["regex semantics as in specs/common/RegexSem.tla", "bounds: specs/regex/MCPrinter.tla, MCGrepML.tla"]
    line_part(chk, tier)
    ml_part(chk, tier)
    raw_json_part(chk, tier)
    attribution_part(chk, tier)
    chk.exhaustive = True
    return chk.finish()


def replay(path):
    rec = json.load(open(path))
    # the scenario is regenerated from the specification: the quick tier is run again and the verdict reported for this file
    print(json.dumps(rec["sig"]))
    rc = main("quick")
    if rc == 1:
        print("VIOLATION property=%s replay=%s" % (rec["property"], path))
    return rc

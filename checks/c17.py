"""C17: transcoded input is searched as its UTF-8 equivalent.

TLC explores specs/search/Transcode.tla (definition `Decode` + fragmenting decoder state machine) and
emits, for every bounded scenario (byte-order mark, payload encoding, text, truncated tail, label, one
chunking per distinct set of cut kinds), the transcoding and the GrepModel result streams of searching
it.  Every scenario is replayed on the real grep-searcher (replay_transcode: reader with scripted
fragmentation x roll-buffer capacity x transcoding-buffer length, slice, file, mmap, line and multi-line
mode) and on the rg binary (--encoding / BOM sniffing / --encoding none, with and without mmap); all runs
must deliver exactly the predicted lines, offsets in the transcoded text, line numbers and bytes, and
equal the same searcher run on the spec's transcoding with no transcoding configured."""
import base64
import concurrent.futures as cf
import json
import os
import shutil
import tempfile
import time

import vlib

PID = "C17"

META = {
    "text": "TLC model-checks Transcode.tla: a declarative Decode(bytes, label) (mark sniffing, mark beats label, "
            "'none' is raw, WHATWG UTF-16 error handling, encoding_rs tables for latin1/shift_jis) against a "
            "chunk-by-chunk decoder state machine (3-byte sniffing window, pending odd byte, pending lead surrogate) "
            "under every chunking; each terminal state is emitted with the predicted transcoding and the GrepModel "
            "result stream, and replayed on the real grep-searcher (reader with scripted fragmentation x tiny roll "
            "buffer x tiny transcoding buffer, slice, file, mmap, multi-line) and on rg (--encoding, BOM sniffing, "
            "--encoding none, mmap on/off). Behind a mark the generated texts may themselves begin with U+FEFF (exactly one mark is the mark).",
    "note": "Matcher abstracted to 'line contains m'. UTF-8 inputs are generated well-formed only; latin1/shift_jis "
            "decode tables are taken from encoding_rs (trusted) and only the plumbing around them is checked. "
            "Bounds in specs/search/C17_*.cfg. Hooks H1: roll-buffer capacity and transcoding scratch buffer length.",
    "technique": "TLA+ refinement (fragmenting decoder machine refines Decode) model-checked with TLC + scenario "
                 "replay into grep-searcher and the rg binary",
}

# Real discrepancies between ripgrep and the property as stated, reported to the maintainer of the
# verification; a violation whose signature matches is printed as KNOWN-FINDING instead of VIOLATION.
# findings are recorded in /verif/known_findings.jsonl (status known / fixed); nothing is pending here
PENDING_FINDINGS = []

# ---------------------------------------------------------------------------------------------
# variants of one library-level replay


def _variants():
    vs = []
    for chunk in ("max", "onebyte", "tlc"):
        for cap, dbuf in ((None, None), (2, 4), (5, 8), (None, 4), (3, None)):
            for cfg in ("plain", "pass"):
                vs.append({"name": "reader-%s-c%s-d%s-%s" % (chunk, cap or "def", dbuf or "def", cfg),
                           "strat": "reader", "chunk": chunk, "cap": cap, "dbuf": dbuf, "cfg": cfg})
    for chunk in ("onebyte", "tlc"):
        for dbuf in (4, None):
            vs.append({"name": "reader-%s-cdef-d%s-multi" % (chunk, dbuf or "def"),
                       "strat": "reader", "chunk": chunk, "cap": None, "dbuf": dbuf, "cfg": "multi"})
    for strat in ("slice", "file", "mmap"):
        for cfg in ("plain", "pass", "multi"):
            vs.append({"name": "%s-cdef-ddef-%s" % (strat, cfg), "strat": strat, "chunk": "max",
                       "cap": None, "dbuf": None, "cfg": cfg})
    # multi-line search under a heap limit that just suffices for the TRANSCODED text (which may be shorter than the file)
    for strat in ("file", "reader"):
        vs.append({"name": "%s-cdef-ddef-multi-heap" % strat, "strat": strat, "chunk": "max", "cap": None, "dbuf": None, "cfg": "multi",
                   "heap": 2})
    for strat in ("slice", "file"):
        vs.append({"name": "%s-c2-d4-plain" % strat, "strat": strat, "chunk": "max", "cap": 2, "dbuf": 4, "cfg": "plain"})
    return vs


VARIANTS = _variants()
VBYNAME = {v["name"]: v for v in VARIANTS}
BASELINE = "reader-max-cdef-ddef-plain"
NO_TLC = [v["name"] for v in VARIANTS if v["chunk"] != "tlc"]
ALL = [v["name"] for v in VARIANTS]

SJ_TOKENS = [[109], [120], [10], [177], [130, 160], [131, 109], [130]]


def workdir():
    d = os.path.join(vlib.WORK, PID)
    os.makedirs(d, exist_ok=True)
    return d


def write_tables():
    """Decode tables of the table encodings: one-shot encoding_rs calls in the driver (trusted)."""
    t = vlib.run_driver("replay_transcode", [{"op": "tables", "sj": SJ_TOKENS}])[0]
    if t.get("l1_name") != "windows-1252" or t.get("sj_name") != "Shift_JIS" or len(t["l1"]) != 256:
        raise vlib.ToolError("unexpected decode tables from encoding_rs: %r %r" % (t.get("l1_name"), t.get("sj_name")))
    path = os.path.join(workdir(), "tables_%d.json" % os.getpid())
    with open(path, "w") as f:
        json.dump({"l1": t["l1"], "sj": t["sj"]}, f)
    return path


def driver(jobs, parallel=12):
    return vlib.run_driver("replay_transcode", jobs, args=[json.dumps(VARIANTS)], parallel=parallel, timeout=1800)


def job_of(r, only=None):
    return {"op": "search", "bytes": r["bytes"], "label": r["scn"]["label"], "cuts": r["cuts"], "dec": r["dec"],
            "eff": r["eff"], "strip": r["strip"], "cutbase": r["mal"] > 0,
            "only": only if only is not None else (ALL if r["scn"]["frag"] and r["cuts"] else NO_TLC)}


# ---------------------------------------------------------------------------------------------
# judging (comparison only; every expected value comes from TLC)

def ev_key(e):
    return (e["k"], e["ln"], e["off"], e["len"])


def stream_mismatch(obs, ref, dec):
    """None if the observed run delivered exactly the predicted stream with the predicted bytes."""
    if obs["result"] != "ok":
        return "search returned %s: %s" % (obs["result"], str(obs.get("err", ""))[:160])
    out = obs["out"]
    ko = [ev_key(e) for e in out]
    kr = [ev_key(e) for e in ref]
    if ko != kr:
        return "delivered lines/offsets/line numbers differ from the search of the UTF-8 transcoding"
    for e in out:
        if e["k"] in ("match", "ctx") and e.get("data") != dec[e["off"]:e["off"] + e["len"]]:
            return "delivered bytes differ from the UTF-8 transcoding at offset %d" % e["off"]
    return None


def tail_missing(obs, cuts):
    """j in 1..3 iff the observed run equals the same search of the transcoding minus its last j bytes (run by the
    driver on the real searcher); used only to name the mechanism in the signature."""
    for j, c in enumerate(cuts or [], 1):
        if same_obs(obs, c):
            return j
    return 0


def same_obs(a, b):
    if a["result"] != b["result"]:
        return False
    return [(ev_key(e), e.get("data")) for e in a["out"]] == [(ev_key(e), e.get("data")) for e in b["out"]]


def clause_of(r):
    c = r["clause"]
    if r["mal"] > 0 and c in ("label", "bom_removed"):
        return "malformed"
    return c


def selftest(r, d):
    """The machinery checks itself: spec vs one-shot encoding_rs, GrepModel vs the searcher on plain bytes."""
    if d["oneshot"] != r["dec"]:
        raise vlib.ToolError("model drift: Transcode.Decode %r differs from one-shot encoding_rs %r for bytes %r as %s"
                             % (r["dec"], d["oneshot"], r["bytes"], r["eff"]))
    for cfg, ref in (("plain", r["ref"]), ("pass", r["refp"])):
        b = d["base"].get(cfg)
        if b is not None:
            why = stream_mismatch(b, ref, r["dec"])
            if why:
                raise vlib.ToolError("model drift: plain search of the transcoding %r (%s) differs from GrepModel: %s"
                                     % (r["dec"], cfg, why))


def judge_lib(r, d):
    """-> list of (sig, why, variant names, observed) for the failing groups of one scenario."""
    bad = []
    failing = set()
    per_group = []
    for g in d["groups"]:
        byc = {}
        for name in g["variants"]:
            byc.setdefault(VBYNAME[name]["cfg"], []).append(name)
        for cfg, names in byc.items():
            if cfg == "multi":
                base = d["base"]["multi"]
                ref = base["out"]
                why = None if same_obs(g["obs"], base) else \
                    "multi-line search differs from the multi-line search of the UTF-8 transcoding"
                if why is None and base["result"] != "ok":
                    raise vlib.ToolError("multi-line search of the plain transcoding failed: %r" % (base,))
            else:
                ref = r["ref"] if cfg == "plain" else r["refp"]
                why = stream_mismatch(g["obs"], ref, r["dec"])
            if why:
                failing.update(names)
                miss = tail_missing(g["obs"], d.get("base_cut", {}).get(cfg))
                # is it exactly the known deviation (mark removed, rest decoded as the label says)?
                alt = False
                if r.get("altdec") and cfg in ("plain", "pass"):
                    alt = stream_mismatch(g["obs"], r["altref"] if cfg == "plain" else r["altrefp"], r["altdec"]) is None
                # ... or exactly the other one (after a UTF-16 mark the text's own leading U+FEFF is removed as well)?
                lost2 = False
                if r.get("feff") and cfg in ("plain", "pass"):
                    lost2 = stream_mismatch(g["obs"], r["feffref"] if cfg == "plain" else r["feffrefp"], r["feffdec"]) is None
                per_group.append((why, names, g["obs"], miss, alt, cfg, lost2))
    # the multi-line groups have no model reference of their own (they are compared with a real run on the transcoding):
    # they count as the known deviation when the line-oriented groups of the same scenario show exactly it
    any_alt = any(x[4] for x in per_group if x[5] != "multi")
    none_other = all(x[4] for x in per_group if x[5] != "multi")
    any_l2 = any(x[6] for x in per_group if x[5] != "multi")
    all_l2 = all(x[6] for x in per_group if x[5] != "multi")
    per_group = [(w, n, o, m, (a if c != "multi" else (any_alt and none_other)), (l2 if c != "multi" else (any_l2 and all_l2)))
                 for (w, n, o, m, a, c, l2) in per_group]
    for why, names, obs, miss, alt, lost2 in per_group:
        v = VBYNAME[names[0]]
        if BASELINE in failing:
            clause = clause_of(r)
        elif all(VBYNAME[n]["strat"] == "reader" for n in names):
            clause = "fragmentation"
        else:
            clause = "strategy"
            v = next(VBYNAME[n] for n in names if VBYNAME[n]["strat"] != "reader")
        sig = {"clause": clause, "encoding": r["scn"]["label"], "bom": r["scn"]["bom"], "strategy": v["strat"],
               "chunking": v["chunk"], "level": "lib", "effective": r["eff"], "malformed": r["mal"] > 0,
               "eof_flush": r["flush"], "missing": miss, "decoded_by_label_after_mark": alt, "second_mark_lost": lost2,
               # a UTF-8 text of odd length read as UTF-16 also ends in half a code unit (the flush finding): two deviations at once
               "rest_odd": r["scn"]["bom"] == "u8" and r["scn"]["label"] in ("utf-16le", "utf-16be") and (len(r["bytes"]) - 3) % 2 == 1}
        bad.append((sig, why, names, obs))
    return bad


def pending(sig):
    if os.environ.get("VERIF_C17_NO_PENDING"):     # show the pending findings as violations (with replay files)
        return None
    for p in PENDING_FINDINGS:
        if vlib.sig_matches(p["match"], sig):
            return p["what"]
    return None


class Reporter:
    def __init__(self, chk):
        self.chk = chk
        self.pending_hits = {}

    def report(self, sig, record):
        what = pending(sig)
        if what:
            self.pending_hits[what] = self.pending_hits.get(what, 0) + 1
            return
        self.chk.violation(sig, record)

    def flush(self):
        for what, n in sorted(self.pending_hits.items()):
            print("KNOWN-FINDING: property=%s %s (seen %d times)" % (PID, what, n))
        self.chk.extra["pending_findings_hit"] = dict(self.pending_hits)


# ---------------------------------------------------------------------------------------------
# rg level

def enc_args(label):
    if label == "auto":
        return []
    return ["--encoding", label]


def rg_json(rg, args, files, cwd):
    """Run rg --json over many files; -> {file: [(line_number, absolute_offset, bytes)]}, rc"""
    p = vlib.run([rg, "--no-config", "--json", "-a", "-j1", "--color", "never"] + args + ["-e", "m", "--"] + files,
                 cwd=cwd, timeout=600)
    if p.returncode not in (0, 1):
        raise vlib.ToolError("rg failed rc=%d: %s" % (p.returncode, p.stderr.decode("utf8", "replace")[-1000:]))
    res = {}
    for line in p.stdout.splitlines():
        if not line.strip():
            continue
        v = json.loads(line)
        if v.get("type") != "match":
            continue
        dt = v["data"]
        path = dt["path"].get("text")
        ln = dt["lines"]
        data = ln["text"].encode("utf8") if "text" in ln else base64.b64decode(ln["bytes"])
        res.setdefault(path, []).append((dt.get("line_number") or 0, dt["absolute_offset"], list(data)))
    return res


def expected_matches(r):
    return [(e["ln"], e["off"], r["dec"][e["off"]:e["off"] + e["len"]]) for e in r["ref"] if e["k"] == "match"]


def rg_tail_missing(got, exp, dec):
    """as tail_missing, on rg's match list: only the last line, which ends the transcoding, is short by 1..3 bytes"""
    if len(got) != len(exp) or not exp or got[:-1] != exp[:-1]:
        return 0
    (a, o, x), (b, p, y) = got[-1], exp[-1]
    y = list(y)
    j = len(y) - len(x)
    if a != b or o != p or not 1 <= j <= 3 or p + len(y) != len(dec) or list(x) != y[:len(x)]:
        return 0
    return j


def rg_nul_part(chk, rep):
    """Texts that hold U+0000, searched WITHOUT -a: binary detection looks at the transcoded text, so a labelled / marked
    input must behave exactly like its UTF-8 transcoding searched with --encoding none (both through the reader): same
    lines, same notices, same counts, same exit status, as a named file, under --binary and found by a directory walk."""
    rg = vlib.build_rg()
    # (no text with a matching line BEFORE the line that holds the NUL: whether such a line is reported before the search is
    # given up depends on how the reads are cut - C14's envelope -, and the two sides are read in different pieces)
    texts = ["m\x00x\nm\n", "x\nm\x00\nm\n", "\x00\nm\n", "x\x00\nnothing\n", "m\n", "x\n\x00m\nm\n"]
    encs = [("utf-16le", "utf-16-le", b""), ("utf-16be", "utf-16-be", b""), ("auto", "utf-16-le", b"\xff\xfe"),
            ("auto", "utf-16-be", b"\xfe\xff"), ("latin1", "cp1252", b""), ("utf-8", "utf-8", b"")]
    tmp = tempfile.mkdtemp(prefix="verif-c17n-")
    try:
        for ti, text in enumerate(texts):
            for ei, (label, codec, bom) in enumerate(encs):
                for sub, data in (("e", bom + text.encode(codec)), ("d", text.encode("utf8"))):
                    d = os.path.join(tmp, "%s%d_%d" % (sub, ti, ei))
                    os.makedirs(d)
                    with open(os.path.join(d, "f"), "wb") as f:
                        f.write(data)
                for flags in (["-n"], ["-c"], ["-n", "--binary"], ["-l"], ["--json"]):
                    for named in (True, False):
                        outs = []
                        for sub, la in (("e", enc_args(label)), ("d", ["--encoding", "none"])):
                            cwd = os.path.join(tmp, "%s%d_%d" % (sub, ti, ei))
                            p = vlib.run([rg, "--no-config", "--color", "never", "-j1", "--no-mmap", "-I"] + la + flags + ["-e", "m"] + (["f"] if named else ["./"]),
                                         cwd=cwd, timeout=60)
                            so = p.stdout
                            if flags == ["--json"]:
                                so = b"\n".join(l for l in so.split(b"\n") if b'"type":"summary"' not in l and b'"type":"end"' not in l)
                            outs.append((p.returncode, so))
                        chk.evaluations += 1
                        if outs[0] == outs[1]:
                            chk.validated += 1
                            if "\x00" in text:
                                chk.nontrivial_case("nul:%d:%d:%s:%s" % (ti, ei, " ".join(flags), named))
                            continue
                        rep.report({"clause": "label" if not bom else "bom_removed", "encoding": label, "bom": "none" if not bom else "mark", "strategy": "rg",
                                    "chunking": "max", "level": "rg", "effective": codec, "malformed": False, "eof_flush": False, "missing": 0,
                                    "text_holds_nul": "\x00" in text, "flags": " ".join(flags), "named": named},
                                   {"level": "rg", "why": "without -a the labelled / marked input and its UTF-8 transcoding (--encoding none) are treated differently",
                                    "text": text, "label": label, "codec": codec, "flags": flags, "named": named,
                                    "encoded_input": {"rc": outs[0][0], "stdout": outs[0][1][:300].decode("latin1")},
                                    "utf8_transcoding": {"rc": outs[1][0], "stdout": outs[1][1][:300].decode("latin1")}})
        chk.extra["rg_nul_pairs"] = len(texts) * len(encs)
    finally:
        shutil.rmtree(tmp, ignore_errors=True)


def rg_big_part(chk, rep):
    """Inputs beyond the first 64 KiB: a long run of pure ASCII lines, then lines with encoded characters.  rg under the
    label (memory map and reader) must find exactly the matching lines of the UTF-8 transcoding (computed here with
    Python's codecs; the --encoding none run on the transcoded file checks that reference through rg itself)."""
    rg = vlib.build_rg()
    filler = "".join("x%05d plain ascii filler line\n" % i for i in range(2400))      # ~ 74 KB, no m
    tail = "m caf\u00e9\nnothing\n\u00e9t\u00e9 m\nm\n"
    tail_sj = "m \u65e5\u672c\nnothing\n\u30ab\u30ca m\nm\n"
    cases = [("latin1", "cp1252", filler + tail, b""), ("shift_jis", "shift_jis", filler + tail_sj, b""),
             ("utf-16le", "utf-16-le", filler + tail, b""), ("auto", "utf-16-le", filler + tail_sj, b"\xff\xfe"),
             ("utf-8", "utf-8", filler + tail_sj, b""), ("latin1", "cp1252", "m\n" + filler + tail, b"")]
    tmp = tempfile.mkdtemp(prefix="verif-c17b-")
    try:
        for k, (label, codec, text, bom) in enumerate(cases):
            enc = bom + text.encode(codec)
            dec = text.encode("utf8")
            with open(os.path.join(tmp, "e%d" % k), "wb") as f:
                f.write(enc)
            with open(os.path.join(tmp, "d%d" % k), "wb") as f:
                f.write(dec)
            exp, off = [], 0
            for n, line in enumerate(dec.split(b"\n")[:-1], 1):
                if b"m" in line:
                    exp.append((n, off, list(line + b"\n")))
                off += len(line) + 1
            ref = rg_json(rg, ["--encoding", "none", "--mmap"], ["d%d" % k], tmp).get("d%d" % k, [])
            if [(a, o, list(x)) for a, o, x in ref] != exp:
                raise vlib.ToolError("big-input oracle: rg --encoding none on the transcoding disagrees with the expected lines")
            for mm in ("--mmap", "--no-mmap"):
                got = rg_json(rg, enc_args(label) + [mm], ["e%d" % k], tmp).get("e%d" % k, [])
                chk.evaluations += 1
                if [(a, o, list(x)) for a, o, x in got] == exp:
                    chk.validated += 1
                    chk.nontrivial_case("big:%d:%s" % (k, mm))
                else:
                    rep.report({"clause": "label" if not bom else "bom_removed", "encoding": label, "bom": "le" if bom else "none",
                                "strategy": "rg-mmap" if mm == "--mmap" else "rg", "chunking": "max", "level": "rg", "effective": codec,
                                "malformed": False, "eof_flush": False, "missing": 0, "big": True},
                               {"level": "rg", "why": "rg output on an input larger than 64 KiB differs from the search of its UTF-8 transcoding",
                                "label": label, "mmap": mm, "input_len": len(enc), "expected": [(a, o) for a, o, x in exp],
                                "observed": [(a, o) for a, o, x in got][:10]})
    finally:
        shutil.rmtree(tmp, ignore_errors=True)


def rg_level(chk, rep, recs, limit):
    """rg --encoding <label> / BOM sniffing / --encoding none on the encoded file, with and without mmap,
    against the prediction; rg on the pre-decoded file (no transcoding) as the same-results reference."""
    rg = vlib.build_rg()
    seen = set()
    todo = []
    for r in recs:
        k = (bytes(r["bytes"]), r["scn"]["label"])
        if k in seen:
            continue
        seen.add(k)
        todo.append(r)
    if limit and len(todo) > limit:
        step = len(todo) / float(limit)
        todo = [todo[int(i * step)] for i in range(limit)]
    tmp = tempfile.mkdtemp(prefix="verif-c17-")
    try:
        bylabel = {}
        for i, r in enumerate(todo):
            with open(os.path.join(tmp, "e%06d" % i), "wb") as f:
                f.write(bytes(r["bytes"]))
            with open(os.path.join(tmp, "d%06d" % i), "wb") as f:
                f.write(bytes(r["dec"]))
            bylabel.setdefault(r["scn"]["label"], []).append(i)
        batches = []
        B = 400
        for label, idx in sorted(bylabel.items()):
            for o in range(0, len(idx), B):
                part = idx[o:o + B]
                for mm in ("--no-mmap", "--mmap"):
                    batches.append(("enc", label, mm, part))
                batches.append(("dec", label, "--no-mmap", part))

        def one(b):
            kind, label, mm, part = b
            if kind == "enc":
                return rg_json(rg, enc_args(label) + [mm], ["e%06d" % i for i in part], tmp)
            return rg_json(rg, ["--encoding", "none", mm], ["d%06d" % i for i in part], tmp)

        with cf.ThreadPoolExecutor(max_workers=10) as ex:
            outs = list(ex.map(one, batches))
        for b, out in zip(batches, outs):
            kind, label, mm, part = b
            for i in part:
                r = todo[i]
                exp = expected_matches(r)
                got = out.get(("e%06d" if kind == "enc" else "d%06d") % i, [])
                got = [(a, o, list(x)) for a, o, x in got]
                chk.evaluations += 1
                if got == [(a, o, list(x)) for a, o, x in exp]:
                    chk.validated += 1
                    continue
                if kind == "dec":
                    # the reference run itself: --encoding none must search the bytes untouched (a clause of the statement)
                    rep.report({"clause": "none_is_raw", "encoding": "none", "bom": "reference", "strategy": "rg-mmap" if mm == "--mmap" else "rg",
                                "chunking": "max", "level": "rg", "effective": "raw", "malformed": False, "eof_flush": False, "missing": 0},
                               {"level": "rg", "why": "rg --encoding none on the UTF-8 transcoding does not give the results of searching "
                                                      "those bytes (GrepModel)", "scn": r["scn"], "bytes": r["dec"], "dec": r["dec"],
                                "label": "none", "mmap": mm, "expected": exp, "observed": got})
                    continue
                sig = {"clause": clause_of(r), "encoding": label, "bom": r["scn"]["bom"],
                       "strategy": "rg-mmap" if mm == "--mmap" else "rg", "chunking": "max", "level": "rg",
                       "effective": r["eff"], "malformed": r["mal"] > 0, "eof_flush": r["flush"],
                       "missing": rg_tail_missing(got, exp, r["dec"]), "decoded_by_label_after_mark": False}
                if r.get("altdec"):
                    altexp = [(e["ln"], e["off"], r["altdec"][e["off"]:e["off"] + e["len"]]) for e in r["altref"] if e["k"] == "match"]
                    sig["decoded_by_label_after_mark"] = got == [(a, o, list(x)) for a, o, x in altexp]
                sig["second_mark_lost"] = False
                if r.get("feff"):
                    fexp = [(e["ln"], e["off"], r["feffdec"][e["off"]:e["off"] + e["len"]]) for e in r["feffref"] if e["k"] == "match"]
                    sig["second_mark_lost"] = got == [(a, o, list(x)) for a, o, x in fexp]
                sig["rest_odd"] = r["scn"]["bom"] == "u8" and label in ("utf-16le", "utf-16be") and (len(r["bytes"]) - 3) % 2 == 1
                rep.report(sig, {"level": "rg", "why": "rg output differs from the search of the UTF-8 transcoding",
                                 "scn": r["scn"], "bytes": r["bytes"], "dec": r["dec"], "label": label, "mmap": mm,
                                 "expected": exp, "observed": got})
        chk.extra["rg_files"] = chk.extra.get("rg_files", 0) + len(todo)
    finally:
        shutil.rmtree(tmp, ignore_errors=True)


# ---------------------------------------------------------------------------------------------

def categories(r):
    t = r["scn"]["text"]
    c = ["clause:" + r["clause"]]
    if r["mal"] > 0:
        c.append("malformed")
    if r["scn"]["odd"]:
        c.append("truncated-tail")
    if "hi" in t or "lo" in t:
        c.append("lone-surrogate")
    if "ast" in t:
        c.append("astral")
    for k in r["ck"]:
        c.append("cut:" + k)
    if r["scn"]["bom"] != "none" and r["scn"]["label"] not in ("auto", "none"):
        c.append("mark+label")
    if r["eff"] in ("l1", "sj"):
        c.append("table:" + r["eff"])
    return c


def nontrivial_key(r):
    """Non-trivial: the searched bytes differ from the input bytes (or a mark is kept under 'none'), at least one
    line matches in the transcoding, and the text holds a multi-byte, astral or malformed element or both a mark
    and a label are present."""
    changed = r["dec"] != r["bytes"] or (r["clause"] == "none_is_raw" and r["scn"]["bom"] != "none")
    if not changed or not any(e["k"] == "match" for e in r["ref"]):
        return None
    t = r["scn"]["text"]
    rich = r["mal"] > 0 or any(s not in ("m", "x", "nl") for s in t) or \
        (r["scn"]["bom"] != "none" and r["scn"]["label"] != "auto")
    if not rich:
        return None
    return json.dumps([r["bytes"], r["scn"]["label"], r["cuts"]])


def explore(chk, rep, cfgname, tables, timeout, rg_limit):
    res = vlib.tlc("search/MCTranscode", cfgname, workers=12, timeout=timeout, env={"C17_TABLES": tables})
    if res.rc != 0:
        raise vlib.ToolError("Transcode design invariant failed in %s (the spec contradicts itself):\n%s"
                             % (cfgname, res.tail(60)))
    chk.add_tlc(res)
    recs = res.emits()
    if not recs:
        raise vlib.ToolError("TLC emitted no scenario for %s" % cfgname)
    if any(not r["ok"] for r in recs):
        raise vlib.ToolError("decoder machine output differs from Decode in an emitted scenario")
    vlib.log("[%s] %s: %d states, %d scenarios emitted in %.1fs" % (PID, cfgname, res.distinct, len(recs), res.wall))
    # TLC's output order depends on its worker threads: make the replay order (searchers are reused) canonical
    recs.sort(key=lambda r: (json.dumps(r["scn"], sort_keys=True), r["cuts"]))
    jobs = [job_of(r) for r in recs]
    t0 = time.time()
    outs = driver(jobs)
    t1 = time.time()
    cats = chk.extra.setdefault("scenario_categories", {})
    nfail = 0
    for r, j, d in zip(recs, jobs, outs):
        selftest(r, d)
        nvar = len(j["only"])
        chk.evaluations += nvar
        bad = judge_lib(r, d)
        nbad = 0
        for sig, why, names, obs in bad:
            nbad += len(names)
            rep.report(sig, {"level": "lib", "why": why, "scn": r["scn"], "job": dict(j, only=names),
                             "ref": r["ref"], "refp": r["refp"], "clause": r["clause"], "mal": r["mal"],
                             "flush": r["flush"], "observed": obs})
        chk.validated += nvar - nbad
        if bad:
            nfail += 1
            if nbad >= nvar:
                continue
        for c in categories(r):
            cats[c] = cats.get(c, 0) + 1
        k = nontrivial_key(r)
        if k:
            chk.nontrivial_case(k)
            if len(chk.samples) < 3 and len(r["ref"]) >= 4 and (r["mal"] or "ast" in r["scn"]["text"]) and \
                    (not chk.samples or chk.samples[-1]["label"] != r["scn"]["label"]):
                chk.sample({"bytes": r["bytes"], "label": r["scn"]["label"], "cuts": r["cuts"],
                            "transcoding": r["dec"], "predicted": [ev_key(e) for e in r["ref"]]})
    t2 = time.time()
    vlib.log("[%s] %s: library level done (driver %.1fs, judging %.1fs), %d scenarios with a disagreement"
             % (PID, cfgname, t1 - t0, t2 - t1, nfail))
    rg_level(chk, rep, [r for r in recs if not r["scn"]["frag"]], rg_limit)
    vlib.log("[%s] %s: rg level done (%.1fs)" % (PID, cfgname, time.time() - t2))
    return len(recs)


def mutant_must_fail(tables):
    """Self-validation of the spec: a decoder machine that forgets a pending lead surrogate at a chunk boundary
    must be rejected by MachineOK."""
    res = vlib.tlc("search/MCTranscode", "C17_mutant", workers=4, timeout=600, env={"C17_TABLES": tables})
    if res.rc != 12:
        raise vlib.ToolError("the mutant decoder machine was not rejected by TLC (rc=%d)" % res.rc)


def coverage_run(chk, tables):
    """Small bounds with TLC's -coverage: every action of the machine must have been taken."""
    res = vlib.tlc("search/MCTranscode", "C17_cov", workers=4, timeout=600, env={"C17_TABLES": tables}, coverage=True)
    if res.rc != 0:
        raise vlib.ToolError("Transcode design invariant failed in C17_cov:\n" + res.tail(60))
    chk.add_tlc(res)
    chk.never_taken = res.coverage_zero()
    if chk.never_taken:
        raise vlib.ToolError("actions of Transcode never taken: %s" % chk.never_taken)


def design_run(chk, tables):
    """Design level only (nothing emitted): the fragmenting machine against Decode for longer texts over the
    full alphabet."""
    res = vlib.tlc("search/MCTranscode", "C17_design", workers=12, timeout=7200, env={"C17_TABLES": tables})
    if res.rc != 0:
        raise vlib.ToolError("Transcode design invariant failed in C17_design:\n" + res.tail(60))
    chk.add_tlc(res)
    chk.extra["design_only_states"] = res.distinct
    vlib.log("[%s] C17_design: %d states in %.1fs (design level only)" % (PID, res.distinct, res.wall))


def main(tier):
    chk = vlib.Check(PID, tier)
    rep = Reporter(chk)
    chk.rule = ("TLC enumerates every text of <= N symbols over {m, x, LF, e-acute, lone lead, lone trail, astral pair, "
                "U+FFFD} (UTF-16LE/BE), well-formed UTF-8, windows-1252 and shift_jis tokens x mark {none, FF FE, FE FF, "
                "EF BB BF} x truncated tail x label {auto, none, utf-16le, utf-16be, utf-8, latin1, shift_jis} x (for the "
                "fragmenting seeds) every chunking, one emitted per distinct set of cut kinds {inside mark, inside code "
                "unit/token, between the surrogates of a pair}. Non-trivial: searched bytes differ from the input bytes "
                "(or a mark is kept under none), >= 1 matching line, and a multi-byte/astral/malformed element or a mark "
                "together with a label; distinct by (bytes, label, chunking).")
    chk.assumptions = [
        "matcher abstracted to 'line contains byte m'",
        "UTF-8 inputs are well-formed; the replacement of malformed UTF-8 is not modelled",
        "latin1 (windows-1252) and shift_jis decode tables are taken from encoding_rs (trusted)",
        "a second U+FEFF directly after the mark is not generated (whether it is part of 'the mark' is left open)",
        "bounds: specs/search/C17_*.cfg; TLC fingerprint collisions improbable",
    ]
    tables = write_tables()
    try:
        rg_big_part(chk, rep)
        rg_nul_part(chk, rep)
        coverage_run(chk, tables)
        if tier == "quick":
            explore(chk, rep, "C17_quick", tables, timeout=600, rg_limit=0)
        else:
            mutant_must_fail(tables)
            design_run(chk, tables)
            explore(chk, rep, "C17_frag", tables, timeout=7200, rg_limit=0)
            explore(chk, rep, "C17_deep", tables, timeout=7200, rg_limit=60000)
    finally:
        try:
            os.remove(tables)
        except OSError:
            pass
    chk.exhaustive = True
    rep.flush()
    return chk.finish()


def replay(path):
    rec = json.load(open(path))
    r = rec["record"]
    if r["level"] == "rg":
        rg = vlib.build_rg()
        tmp = tempfile.mkdtemp(prefix="verif-c17-")
        try:
            with open(os.path.join(tmp, "e000000"), "wb") as f:
                f.write(bytes(r["bytes"]))
            got = rg_json(rg, enc_args(r["label"]) + [r["mmap"]], ["e000000"], tmp).get("e000000", [])
        finally:
            shutil.rmtree(tmp, ignore_errors=True)
        got = [[a, o, list(x)] for a, o, x in got]
        exp = [[a, o, list(x)] for a, o, x in r["expected"]]
        print(json.dumps({"bytes": r["bytes"], "label": r["label"], "mmap": r["mmap"], "expected": exp,
                          "observed_now": got}, indent=1))
        bad = got != exp
        why = r["why"]
    else:
        job = r["job"]
        d = driver([job], parallel=1)[0]
        fake = {"scn": r["scn"], "bytes": job["bytes"], "dec": job["dec"], "ref": r["ref"], "refp": r["refp"],
                "clause": r["clause"], "mal": r["mal"], "eff": job["eff"], "flush": r["flush"]}
        res = judge_lib(fake, d)
        print(json.dumps({"job": job, "predicted": r["ref"], "observed_now": d["groups"]}, indent=1)[:6000])
        bad = bool(res)
        why = res[0][1] if res else ""
    if bad:
        print("VIOLATION property=%s replay=%s" % (rec["property"], path))
        print("  " + why)
        return 1
    print("replay: property holds on this scenario now")
    return 0

"""C19: replacement output equals the regex library's replace-all of each matching line."""
import json

import regexrender as rr
import rgrun
import vlib

META = {
    "text": "TLC evaluates, for every pattern of a capture-group family (optional, nested, named, empty-matching groups, alternation, word boundary, anchors) x every replacement template up to length 2 over {$,{,},1,2,x,-,0} plus picked longer ones (character level, so the reference parser of interpolate.rs is inside the loop) x a catalogue of line contents, the successive matches with captures (RegexSem), the template expansion per match and the replace-all of the line (Printer.tla); the predictions are replayed on rg -r, rg -o -r, --column, -w, --crlf, and -v with context (lines without a match must stay unaltered) and under -v a line that holds matches and is printed as context (-C1, --passthru) must be its replace-all; under -U the successive multi-line matches computed by GrepModelML give the expected replaced blocks for rg -U -r.",
    "note": "Patterns/templates bounded by specs/regex/MCPrinter.tla and MCGrepML.tla; symbols abstract bytes; under -U the template is <$0> (whole-match reference) over the C13 pattern family.",
    "technique": "TLA+ executable semantics of matching, capture groups and template interpolation enumerated by TLC, replayed on the rg binary",
}


def numbered(stdout):
    """`N:text` / `N-text` records -> list of (n, sep, text)."""
    out = []
    for line in stdout.split(b"\n"):
        j = 0
        while j < len(line) and 48 <= line[j] <= 57:
            j += 1
        if j == 0 or j >= len(line) or line[j:j + 1] not in (b":", b"-"):
            if line not in (b"", b"--"):
                out.append((0, b"?", line))
            continue
        out.append((int(line[:j]), line[j:j + 1], line[j + 1:]))
    return out


def judged(rec, content):
    """Lines with a multi-byte symbol are not judged for patterns that match the empty string (see MCPrinter!Nullable)."""
    return not (rec.get("nullable") and any(c in (10, 11) for c in content))


def expected(rec, lines, variant):
    o = rec["o"]
    exp = []
    for i, (lr, content) in enumerate(zip(rec["lines"], lines), 1):
        if not judged(rec, content):
            continue
        orig = rr.sym_bytes(content)
        if variant == "only":
            if lr["sel"] and not o["inv"]:
                for x in lr["ro"]:
                    exp.append((i, b":", rr.items_bytes(x)))
        elif variant == "column":
            if lr["sel"]:
                exp.append((i, b":", str(lr["m"][0][0] + 1).encode() + b":" + rr.items_bytes(lr["r"])))
        else:
            if lr["sel"]:
                exp.append((i, b":", orig if o["inv"] else rr.items_bytes(lr["r"])))
    return exp


BASE = ["--no-config", "--color", "never", "-j1", "-n", "--no-heading"]


def args_for(r, v, f_lf, f_crlf):
    args = list(BASE)
    if v == "only":
        args += ["-o"]
    if v == "column":
        args += ["--column"]
    if v == "ctx":
        args += ["-C1"]
    if v == "ctxpass":
        args += ["--passthru"]
    if v in ("crlf", "crlf_lf"):
        args += ["--crlf"]
    if v == "maxctx":
        args += ["-m1", "-A2"]
    return args + ["--replace=" + rr.tpl_bytes(r["tpl"]).decode()] + rr.opt_flags(r["o"]) + ["-e", rr.render(r["u"])] + [f_crlf if v == "crlf" else f_lf]


def judge_one(r, lines, v, rc, so, se):
    got = numbered(so)
    if rc not in (0, 1):
        return "rg failed rc=%d: %s" % (rc, se.decode("utf8", "replace")[:200])
    if v == "maxctx":
        # the first matching line, replaced; the two lines after it are its trailing context: one that is printed as a
        # MATCHING line (`N:`) must be replaced too, one printed as context (`N-`) may or may not be
        sel = [k for k, (lr, content) in enumerate(zip(r["lines"], lines), 1) if lr["sel"]]
        if not sel:
            return None if not got else "output %r although no line matches" % got[:2]
        first = sel[0]
        if not all(judged(r, lines[k - 1]) for k in range(first, min(first + 2, len(lines)) + 1)):
            return None
        want_first = (first, b":", rr.items_bytes(r["lines"][first - 1]["r"]))
        if not got or got[0] != want_first:
            return "first record %r, expected %r" % (got[:1], want_first)
        allowed_n = list(range(first + 1, min(first + 2, len(lines)) + 1))
        if [g[0] for g in got[1:]] != allowed_n:
            return "records after the first match are lines %s, the trailing context is lines %s" % ([g[0] for g in got[1:]], allowed_n)
        for n, sep, t in got[1:]:
            lr = r["lines"][n - 1]
            orig, repl = rr.sym_bytes(lines[n - 1]), rr.items_bytes(lr["r"])
            if sep == b":" and (not lr["sel"] or t != repl):
                return "line %d printed as a matching line: %r, its replace-all is %r" % (n, t, repl)
            if sep == b"-" and t not in (orig, repl):
                return "context line %d printed as %r" % (n, t)
        return None
    if v in ("ctx", "ctxpass"):
        # -v: selected (non-matching) lines must be printed unaltered; a line that holds matches and is printed as context
        # (-C1 / --passthru) is a printed line with matches: each match replaced
        bylno = {n: (sep, t) for n, sep, t in got}
        for k, (lr, content) in enumerate(zip(r["lines"], lines), 1):
            orig = rr.sym_bytes(content)
            if not judged(r, content):
                continue
            if lr["sel"]:
                if bylno.get(k) != (b":", orig):
                    return "line %d has no match but was not printed unaltered: %r" % (k, bylno.get(k))
            elif k in bylno:
                sep, t = bylno[k]
                if sep != b"-" or t != rr.items_bytes(lr["r"]):
                    return "context line %d (it holds matches) printed as %r, its replace-all is %r" % (k, t, rr.items_bytes(lr["r"]))
            elif v == "ctxpass":
                return "--passthru does not print line %d" % k
        return None
    exp = expected(r, lines, {"plain": "plain", "only": "only", "column": "column", "crlf": "plain", "crlf_lf": "plain"}[v])
    if v == "crlf":
        exp = [(n, s, t + b"\r") for n, s, t in exp]
    skip = set(k for k, content in enumerate(lines, 1) if not judged(r, content))
    got = [g for g in got if g[0] not in skip]
    if got != exp:
        first = next((k for k, (a, b) in enumerate(zip(got, exp)) if a != b), min(len(got), len(exp)))
        return {"first_difference_at_record": first, "got": repr(got[first:first + 2]), "expected": repr(exp[first:first + 2])}
    return None


def main(tier):
    chk = vlib.Check("C19", tier)
    chk.rule = ("each (pattern, options, template) scenario is evaluated on the whole catalogue of line contents (all contents of length <= 3 "
                "(4 in the thorough tier) over {a,b,space,e-acute} plus special lines) and replayed as rg -r, -o -r, --column -r, --crlf -r, -v -C1 -r and -v --passthru -r (a line that holds matches and is printed as context is replaced too). "
                "Non-trivial: the template contains a group reference and some line has a match whose expansion differs from the match; "
                "distinct by (pattern, options, template).")
    chk.assumptions = ["regex semantics as in specs/common/RegexSem.tla", "bounds: specs/regex/MCPrinter.tla"]
    res = vlib.tlc("regex/MCPrinter", "C19_quick" if tier == "quick" else "C19_deep", workers=12, timeout=7200, xmx="16g")
    if res.rc != 0:
        raise vlib.ToolError("TLC failed:\n" + res.tail(40))
    chk.add_tlc(res)
    recs = res.emits()
    lines = res.emits("LINES")[0]["lines"]
    vlib.log("[C19] %d scenarios x %d lines in %.1fs" % (len(recs), len(lines), res.wall))
    sc = rgrun.Scratch("c19")
    try:
        f_lf = sc.write("in_lf", b"\n".join(rr.sym_bytes(l) for l in lines) + b"\n")
        f_crlf = sc.write("in_crlf", b"\r\n".join(rr.sym_bytes(l) for l in lines) + b"\r\n")
        jobs, meta = [], []
        for i, r in enumerate(recs):
            variants = ["plain"]
            if not r["o"]["inv"]:
                variants += ["only", "column"]
                if i % 4 == 0 and "13" not in json.dumps(r["u"]):     # a literal CR is rejected under --crlf
                    variants += ["crlf", "crlf_lf"]
            else:
                variants += ["ctx", "ctxpass"]
            if not r["o"]["inv"] and i % 2 == vlib.seed() % 2:
                variants += ["maxctx"]        # -m1 -A2: lines that match inside the trailing context of the last counted match
            for v in variants:
                jobs.append({"args": args_for(r, v, f_lf, f_crlf)})
                meta.append((i, v))
        outs = rgrun.run_many(jobs)
        chk.evaluations += len(jobs)
        for (i, v), (rc, so, se) in zip(meta, outs):
            r = recs[i]
            why = judge_one(r, lines, v, rc, so, se)
            if why:
                sig = {"variant": v, "opts": sorted(k for k, val in r["o"].items() if val), "pattern": rr.render(r["u"]),
                       "tpl": rr.tpl_bytes(r["tpl"]).decode()}
                chk.violation(sig, {"why": why, "scenario": r, "catalogue": lines, "variant": v,
                                    "args": args_for(r, v, "<catalogue, LF>", "<catalogue, CRLF>")})
            else:
                chk.validated += 1
                if 1 in r["tpl"] and any(lr["sel"] and lr["m"] for lr in r["lines"]):
                    chk.nontrivial_case(json.dumps([r["u"], r["o"], r["tpl"]], sort_keys=True))
                if len(chk.samples) < 3 and i % 501 == 7:
                    chk.sample({"pattern": rr.render(r["u"]), "template": rr.tpl_bytes(r["tpl"]).decode(), "flags": rr.opt_flags(r["o"]),
                                "example_line": rr.sym_bytes(lines[40]).decode("latin1"), "replaced": rr.items_bytes(r["lines"][40]["r"]).decode("latin1")})
    finally:
        sc.close()
    ml_part(chk, tier)
    chk.exhaustive = True
    return chk.finish()


def ml_expected(inp, ms, left, right, term=b"\n"):
    """-U -r: the lines covered by the matches, merged into blocks, each match replaced by left + match + right."""
    starts = [0] + [i + 1 for i, b in enumerate(inp) if b == 10 and i + 1 < len(inp)]

    def line_of(pos):
        k = 0
        for i, st in enumerate(starts):
            if st <= pos:
                k = i
        return k
    blocks = []
    for s0, e0 in ms:
        a, b = line_of(s0), line_of(e0 - 1)
        if blocks and a <= blocks[-1][1] + 1:      # overlapping or touching line ranges form one block (C13)
            blocks[-1][1] = max(blocks[-1][1], b)
            blocks[-1][2].append((s0, e0))
        else:
            blocks.append([a, b, [(s0, e0)]])
    out = b""
    for a, b, mm in blocks:
        bs = starts[a]
        be = starts[b + 1] if b + 1 < len(starts) else len(inp)
        pos = bs
        txt = b""
        for s0, e0 in mm:
            txt += inp[pos:s0] + left + inp[s0:e0] + right
            pos = e0
        txt += inp[pos:be]
        if not txt.endswith(b"\n"):     # the printer terminates a record that does not end with the terminator
            txt += term
        out += txt
    return out


def _crlf_ast(u):
    """the pattern with every literal LF replaced by CR LF; None if the pattern touches line structure in any other way"""
    k = u.get("k")
    if k == "lit":
        if u["c"] == 14:
            return {"k": "grp", "cap": False, "a": {"k": "cat", "a": {"k": "lit", "c": 13}, "b": {"k": "lit", "c": 14}}}
        return u
    if k in ("cat", "alt"):
        a, b = _crlf_ast(u["a"]), _crlf_ast(u["b"])
        return None if a is None or b is None else dict(u, a=a, b=b)
    if k in ("rep", "grp", "ngrp"):
        a = _crlf_ast(u["a"])
        return None if a is None else dict(u, a=a)
    return None          # looks, dot, classes: their meaning depends on the terminator


def ml_part(chk, tier):
    """-U --replace: every block of lines covered by matches is printed with each match replaced (template <$0>)."""
    res = vlib.tlc("regex/MCGrepML", "C09_ml", workers=12, timeout=3600)
    if res.rc != 0:
        raise vlib.ToolError("TLC failed on C09_ml:\n" + res.tail(40))
    chk.add_tlc(res)
    recs = [r for r in res.emits() if not r["scn"]["cfg"]["inv"] and not r["scn"]["cfg"]["pass"] and r["ms"]
            and all(m[0] < m[1] for m in r["ms"]) and not r["scn"]["o"]["word"] and not r["scn"]["o"]["line"]]
    if tier == "quick":
        recs = recs[vlib.seed() % 2::2]
    sc = rgrun.Scratch("c19ml")
    try:
        jobs = []
        for k, r in enumerate(recs):
            inp = rr.sym_bytes(r["scn"]["inp"])
            f = sc.write("d%d/f%d" % (k % 50, k), inp)
            args = ["--no-config", "--color", "never", "-j1", "-U", "-N", "--replace=<$0>"]
            if r["scn"]["o"]["dotall"]:
                args.append("--multiline-dotall")
            jobs.append({"args": args + ["-e", rr.render(r["scn"]["u"]), f], "_inp": inp, "_r": r, "_ms": r["ms"], "_crlf": False})
            # the same search on the CRLF form of the input under --crlf (pattern: LF -> CR LF), where it is well defined
            cu = _crlf_ast(r["scn"]["u"])
            if cu is not None and b"\n" in inp and not r["scn"]["o"]["dotall"]:
                cinp = inp.replace(b"\n", b"\r\n")
                shift = lambda pos: pos + inp[:pos].count(b"\n")
                f2 = sc.write("c%d/f%d" % (k % 50, k), cinp)
                jobs.append({"args": ["--no-config", "--color", "never", "-j1", "-U", "-N", "--crlf", "--replace=<$0>", "-e", rr.render(cu), f2],
                             "_inp": cinp, "_r": r, "_ms": [[shift(a), shift(b)] for a, b in r["ms"]], "_crlf": True})
        outs = rgrun.run_many(jobs)
        chk.evaluations += len(jobs)
        for j, (rc, so, se) in zip(jobs, outs):
            r = j["_r"]
            exp = ml_expected(j["_inp"], j["_ms"], b"<", b">", b"\r\n" if j["_crlf"] else b"\n")
            if so != exp or rc != 0:
                chk.violation({"variant": "ml_replace_crlf" if j["_crlf"] else "ml_replace", "pattern": rr.render(r["scn"]["u"]), "opts": sorted(k for k, v in r["scn"]["o"].items() if v)},
                              {"why": {"got": repr(so), "expected": repr(exp), "rc": rc}, "args": j["args"][:-1], "input": list(j["_inp"]),
                               "matches": j["_ms"], "crlf": j["_crlf"]})
            else:
                chk.validated += 1
                if len(r["ms"]) >= 2 or b"\n" in j["_inp"][r["ms"][0][0]:r["ms"][0][1]]:
                    chk.nontrivial_case(json.dumps(["ml", r["scn"]["u"], r["scn"]["o"], r["scn"]["inp"]]))
    finally:
        sc.close()


def replay(path):
    """Re-run the recorded scenario (pattern, options, template, variant) on the recorded catalogue; the expectation is the
    one TLC computed when the replay file was written."""
    rec = json.load(open(path))
    if rec["sig"].get("variant") in ("ml_replace", "ml_replace_crlf"):
        vlib.build_rg()
        sc = rgrun.Scratch("c19r")
        try:
            f = sc.write("f", bytes(rec["record"]["input"]))
            rc, so, se = rgrun.run_many([{"args": rec["record"]["args"] + [f]}])[0]
        finally:
            sc.close()
        exp = ml_expected(bytes(rec["record"]["input"]), rec["record"]["matches"], b"<", b">", b"\r\n" if rec["record"].get("crlf") else b"\n")
        print(json.dumps({"args": rec["record"]["args"], "input": bytes(rec["record"]["input"]).decode("latin1"), "got": repr(so), "expected": repr(exp)}, indent=1))
        if so != exp or rc != 0:
            print("VIOLATION property=C19 replay=%s" % path)
            return 1
        print("replay: property holds on this scenario now")
        return 0
    r, lines, v = rec["record"]["scenario"], rec["record"]["catalogue"], rec["record"]["variant"]
    vlib.build_rg()
    sc = rgrun.Scratch("c19r")
    try:
        f_lf = sc.write("in_lf", b"\n".join(rr.sym_bytes(l) for l in lines) + b"\n")
        f_crlf = sc.write("in_crlf", b"\r\n".join(rr.sym_bytes(l) for l in lines) + b"\r\n")
        rc, so, se = rgrun.run_many([{"args": args_for(r, v, f_lf, f_crlf)}])[0]
    finally:
        sc.close()
    why = judge_one(r, lines, v, rc, so, se)
    print(json.dumps({"args": rec["record"]["args"], "why_now": why}, indent=1))
    if why:
        print("VIOLATION property=C19 replay=%s" % path)
        return 1
    print("replay: property holds on this scenario now")
    return 0

"""C03: results follow the grep model (order, uniqueness, context windows, separators, numbering)."""
import vlib
from checks import search_common as sc


META = {'text': 'TLC exhaustively explores the implementation-shaped Searcher model (roll buffer, slow/fast/inverted paths, context machinery) against the GrepModel reference for all bounded inputs, configurations and read histories; every terminal state is replayed on the real grep-searcher and must equal the reference stream (order, uniqueness, windows, separators, numbers, offsets, byte count).', 'note': "Matcher abstracted to 'line contains m'; bounds in specs/search/C03_*.cfg; real code observed through the public Sink/Read API plus hook H1 (buffer capacity).", 'technique': 'TLA+ refinement (Searcher refines GrepModel) model-checked with TLC + scenario replay into grep-searcher'}


def main(tier):
    chk = vlib.Check("C03", tier)
    chk.rule = ("TLC enumerates every input of <= N lines over the bodies of the cfg x every (A,B) x invert x passthru x "
                "stop-on-nonmatch x strategy x path x read history; one scenario per terminal state is replayed on the real "
                "searcher (as emitted, 1-byte reads, maximal reads, mmap). Non-trivial: >= 2 delivered lines and context/"
                "inversion/passthru/stop/non-LF terminator; distinct by (input, config, strategy, path, capacity, history).")
    chk.assumptions = ["matcher abstracted to 'line contains byte m' (the searcher only asks whether a line matches)",
                       "bounds: see specs/search/C03_*.cfg", "TLC fingerprint collisions improbable"]
    cfgs = ["C03_quick", "C03_terms", "C03_nul"] if tier == "quick" else ["C03_quick", "C03_terms", "C03_nul", "C03_deep"]
    for c in cfgs:
        sc.explore(chk, c, variants=("as_is", "onebyte", "maxread", "mmap"), timeout=3000)
    chk.exhaustive = True
    return chk.finish()


def replay(path):
    return sc.replay_file(path)

"""C07: the parallel walker terminates and loses nothing under every thread schedule."""
import json
import os
import random
import subprocess

import vlib

META = {
    "text": "TLC model-checks the envelope WalkProtocol specification (one action per hooked synchronisation point) for all forests up to the bound, 2-3 (4 in thorough) workers, quit at no/any node, unreadable entries (error handed to the visitor while the parent is listed) and Skip answers: NoDup, NoLoss, NoWorkStranded, QuitNeverVanishes, ExitClean and termination under weak fairness, over all interleavings. The real walker runs under a deterministic scheduler (hook H2) with random, PCT and systematically enumerated bounded-preemption schedules; every recorded trace is validated by TLC against WalkTrace (steal victim/batch inferred from logged deque lengths) and judged directly (hang, duplicate, loss).",
    "note": "Sequentially consistent interleavings of the hooked points only (the scheduler serialises workers); crossbeam-deque is trusted below its API; tree sizes and worker counts bounded (specs/walk/*.cfg).",
    "technique": "TLC model checking of a TLA+ protocol spec (safety + liveness) + trace validation of scheduler-controlled executions of ignore::WalkParallel",
}


def rand_tree(rng, maxn):
    """Random forest as a list of entries ('d/' for directories) plus roots."""
    n = rng.randint(1, maxn)
    nroots = rng.randint(1, min(3, n))
    names = []
    dirs = []
    roots = []
    for i in range(n):
        if i < nroots:
            name = "r%d" % i
            roots.append(name)
        else:
            parent = rng.choice(dirs) if dirs else None
            if parent is None:
                name = "r%d" % i
                roots.append(name)
            else:
                name = parent + "/n%d" % i
        isdir = rng.random() < 0.55
        names.append(name + ("/" if isdir else ""))
        if isdir:
            dirs.append(name)
    return names, roots


def rand_err_skip(rng, tree, roots):
    """Unreadable entries (non-root files) and nodes at which the visitor answers Skip."""
    nodes = [t.rstrip("/") for t in tree]
    files = [t for t in tree if not t.endswith("/") and t not in roots]
    err, skip = [], []
    if files and rng.random() < 0.35:
        err = rng.sample(files, min(len(files), rng.randint(1, 3)))
    if rng.random() < 0.35:
        skip = rng.sample(nodes, min(len(nodes), rng.randint(1, 2)))
        if err and rng.random() < 0.7:
            skip = sorted(set(skip) | set(rng.sample(err, 1)))
    return err, skip


def reachable(sc):
    """Tree entries without what lies below a directory that cannot be opened (mode 000): those are never seen."""
    locked = set(sc.get("locked", []))
    out = []
    for t in sc["tree"]:
        parts = t.rstrip("/").split("/")
        if any("/".join(parts[:i]) in locked for i in range(1, len(parts))):
            continue
        out.append(t)
    return out


def expected_nodes(sc):
    """Entries the walk must hand out: everything not below a directory at which the visitor answers Skip."""
    skip = set(sc.get("skip", []))
    out = []
    for n in [t.rstrip("/") for t in reachable(sc)]:
        parts = n.split("/")
        if any("/".join(parts[:i]) in skip for i in range(1, len(parts))):
            continue
        out.append(n)
    return out


def header(sc):
    nodes = [t.rstrip("/") for t in reachable(sc)]
    ch = {n: [] for n in nodes}
    for n in nodes:
        if "/" in n:
            ch[n.rsplit("/", 1)[0]].append(n)
    return {"ev": "Init", "nodes": nodes, "ch": ch, "roots": [r for r in sc["roots"] if not r.startswith("gone")], "quit": sc.get("quit", []),
            "err": sc.get("err", []), "skip": sc.get("skip", [])}


HANG_BUDGET = 4          # walks that do not end, per recorder batch, after which the batch is abandoned


def run_recorder(scens, timeout=600):
    """Run record_walk over scenarios; a hang ends the process, so restart after it."""
    path = vlib.hbin("record_walk")
    results = {}
    todo = list(scens)
    # scenarios with directories of mode 000 only mean something to a process that is not root
    cmd = (["setpriv", "--reuid=65534", "--regid=65534", "--clear-groups"] if any(s.get("locked") for s in scens) else []) + [path]
    hangs = 0
    while todo:
        p = vlib.run(cmd, input=vlib.ndjson(todo), timeout=timeout)
        lines = [json.loads(l) for l in p.stdout.decode().splitlines() if l.strip()]
        for r in lines:
            if r.get("toolerror"):
                raise vlib.ToolError("record_walk: %s" % r["toolerror"])
            results[r["id"]] = r
            hangs += 1 if r.get("hang") else 0
        if p.returncode == 0:
            break
        if hangs >= HANG_BUDGET:
            # every hang costs the watchdog's half minute: enough of them are on record, the rest of this batch is not run
            for sc in todo[len(lines):]:
                results[sc["id"]] = {"id": sc["id"], "not_run": True}
            break
        if p.returncode != 3 or not lines:
            raise vlib.ToolError("record_walk failed rc=%d: %s" % (p.returncode, p.stderr.decode("utf8", "replace")[-2000:]))
        todo = todo[len(lines):]
    return results


def run_recorder_parallel(scens, nproc=8):
    import concurrent.futures as cf
    chunks = [scens[i::nproc] for i in range(nproc)]
    res = {}
    with cf.ThreadPoolExecutor(max_workers=nproc) as ex:
        for r in ex.map(run_recorder, [c for c in chunks if c]):
            res.update(r)
    return res


def judge_run(sc, r):
    """Property-level verdict on one recorded execution."""
    nodes = [t.rstrip("/") for t in reachable(sc)]
    if r["hang"]:
        return "walk did not terminate (scheduler step bound / watchdog)"
    if r.get("panic"):
        return "walker panicked"
    if r["exited"] != sc["threads"]:
        return "not every worker exited"
    for p, c in r["visits"].items():
        if c > 1:
            return "entry %s handed to the visitor %d times" % (p, c)
        if p not in nodes:
            return "visitor got an entry that does not exist: %s" % p
    if not sc.get("quit"):
        missing = [n for n in expected_nodes(sc) if r["visits"].get(n, 0) != 1]
        if missing:
            return "entries never visited although no visitor asked to quit: %s" % missing[:3]
    return None


def validate_traces(chk, scens, results, tag):
    """TLC validates the recorded traces against WalkTrace, one TLC run per worker count."""
    by_n = {}
    for sc in scens:
        r = results.get(sc["id"])
        if r is None or r.get("not_run") or r["hang"]:
            continue
        by_n.setdefault(sc["threads"], []).append(sc)
    os.makedirs(os.path.join(vlib.WORK, "c07"), exist_ok=True)
    for n, group in sorted(by_n.items()):
        remaining = list(group)
        for attempt in range(6):
            if not remaining:
                break
            tpath = os.path.join(vlib.WORK, "c07", "%s_n%d_%d.ndjson" % (tag, n, os.getpid()))
            starts = []
            with open(tpath, "w") as f:
                line = 0
                for sc in remaining:
                    starts.append((line + 1, sc))
                    f.write(json.dumps(header(sc)) + "\n")
                    line += 1
                    for e in results[sc["id"]]["trace"]:
                        f.write(json.dumps(e) + "\n")
                        line += 1
            cfg = os.path.join(vlib.WORK, "c07", "WalkTrace_n%d_%d.cfg" % (n, os.getpid()))
            with open(cfg, "w") as f:
                f.write(open(os.path.join(vlib.SPECS, "walk", "WalkTrace.cfg")).read().replace("N = 3", "N = %d" % n))
            res = vlib.tlc("walk/WalkTrace", cfg, workers=1, dfs=True, timeout=1800, env={"TRACE": tpath}, xmx="4g")
            chk.add_tlc(res)
            if res.rc == 0:
                chk.validated += len(remaining)
                os.remove(tpath)
                break
            # rejected: find the run
            bad_line = None
            rej = res.emits("REJECT")
            if rej:
                bad_line = rej[0]["line"]
            else:
                # invariant violation: the state count tells how far we got
                bad_line = res.distinct
            idx = 0
            for i, (st, sc) in enumerate(starts):
                if st <= bad_line:
                    idx = i
            # a rejected Init record means the run before it did not complete
            if rej and rej[0]["rec"].get("ev") == "Init" and idx > 0:
                idx -= 1
            sc = starts[idx][1]
            chk.validated += idx
            what = "trace rejected by WalkTrace at line %s: %s" % (bad_line, json.dumps(rej[0]["rec"]) if rej else res.tail(12))
            chk.violation({"kind": "conformance", "threads": n, "quit": bool(sc.get("quit"))},
                          {"why": what, "scenario": sc, "trace": results[sc["id"]]["trace"]}, kind="conformance")
            remaining = remaining[idx + 1:]
            os.remove(tpath)


def preemption_search(chk, tree, roots, threads, quit, bound, budget, idbase, err=(), skip=()):
    """Systematic exploration: all schedules with at most `bound` preemptions of the non-preemptive default."""
    scens = []
    results = {}
    frontier = [([], 0)]
    seen = set()
    nid = [idbase]
    total = 0
    while frontier and total < budget:
        batch = frontier[:64]
        frontier = frontier[64:]
        bs = []
        for prefix, used in batch:
            key = tuple(prefix)
            if key in seen:
                continue
            seen.add(key)
            nid[0] += 1
            sc = {"id": nid[0], "tree": tree, "roots": roots, "threads": threads, "seed": nid[0], "mode": "np",
                  "forced": prefix, "quit": quit, "err": list(err), "skip": list(skip), "max_steps": 3000, "_used": used, "_plen": len(prefix)}
            bs.append(sc)
        if not bs:
            continue
        rs = run_recorder_parallel([{k: v for k, v in s.items() if not k.startswith("_")} for s in bs], nproc=8)
        total += len(bs)
        for sc in bs:
            r = rs.get(sc["id"])
            if r is None or r.get("not_run"):
                continue
            results[sc["id"]] = r
            scens.append({k: v for k, v in sc.items() if not k.startswith("_")})
            ch, cands = r["choices"], r["cands"]
            for i in range(sc["_plen"], len(ch)):
                for a in cands[i]:
                    if a == ch[i]:
                        continue
                    # a switch away from a worker that could have continued costs one preemption
                    # (the choice of the first worker and a switch after the previous worker exited are free)
                    cost = 1 if (i > 0 and ch[i - 1] in cands[i]) else 0
                    if sc["_used"] + cost <= bound:
                        frontier.append((ch[:i] + [a], sc["_used"] + cost))
    return scens, results


def main(tier):
    chk = vlib.Check("C07", tier)
    rng = random.Random(vlib.seed())
    chk.rule = ("Design: TLC, all interleavings, all forests <= K nodes, N workers, quit nowhere / at any single node, safety invariants "
                "+ termination under WF. Implementation: scheduler-controlled runs of ignore::WalkParallel on random forests with "
                "uniform-random, PCT and exhaustively enumerated bounded-preemption schedules, quit injected at random nodes; each run "
                "judged (termination, exactly-once) and its trace validated by TLC against WalkTrace. Non-trivial: a run in which at "
                "least one steal and one idle->active transition or a quit occurred; distinct by (tree, quit, schedule).")
    chk.assumptions = ["workers are serialised at the hooked points: sequentially consistent interleavings only",
                       "crossbeam-deque's steal_batch_and_pop modelled from its documentation/source (any victim, 1..(len-1)/2+1 tasks)",
                       "bounds: specs/walk/Walk_*.cfg"]
    # 1. the design
    designs = ["Walk_n2k5", "Walk_quick3", "Walk_errskip"] if tier == "quick" else ["Walk_n2k5", "Walk_quick3", "Walk_errskip", "Walk_errskip3", "Walk_n3k5", "Walk_n4k4", "Walk_spurious"]
    for c in designs:
        res = vlib.tlc("walk/MCWalk", c, workers=12, timeout=7200, xmx="24g")
        chk.add_tlc(res)
        vlib.log("[C07] design %s: rc=%d states=%d %.1fs" % (c, res.rc, res.distinct, res.wall))
        if res.rc != 0:
            chk.violation({"kind": "design", "cfg": c}, {"why": "WalkProtocol violates its properties", "tlc": res.tail(80)}, kind="design")
    # 2. random / PCT schedules on random trees
    nrand = 240 if tier == "quick" else 6000
    maxn = 10 if tier == "quick" else 36
    scens = []
    for i in range(nrand):
        tree, roots = rand_tree(rng, maxn)
        nodes = [t.rstrip("/") for t in tree]
        threads = rng.choice([2, 2, 3, 3, 4] if tier == "quick" else [2, 3, 4, 4, 6, 8])
        quit = [rng.choice(nodes)] if rng.random() < 0.4 else []
        err, skip = rand_err_skip(rng, tree, roots)
        samefs = rng.random() < 0.3
        if rng.random() < 0.25:
            # standard input among the roots ("-": an entry that is handed out without being looked up in the file
            # system), mostly together with same_file_system (which does look roots up)
            tree = tree + ["<stdin>"]
            roots = list(roots)
            roots.insert(rng.randint(0, len(roots)), "<stdin>")
            samefs = rng.random() < 0.8
        if len(roots) >= 1 and rng.random() < 0.2:
            # a root that does not exist, not the last one: reported as an error by the thread that distributes the
            # roots; every other root is walked as usual (it is not a node of the tree: its error is only noted)
            roots = list(roots)
            roots.insert(rng.randint(0, len(roots) - 1), "gone%d" % i)
        locked = []
        inner = [t.rstrip("/") for t in tree if t.endswith("/") and t.rstrip("/") not in roots and t.rstrip("/") not in err]
        if inner and rng.random() < 0.2:
            # a directory of mode 000 (the recorder runs as uid nobody for these): handed out itself, nothing below it
            locked = [rng.choice(inner)]
            err = [e for e in err if not e.startswith(locked[0] + "/")]
            skip = [x for x in skip if not x.startswith(locked[0] + "/")]
            quit = [x for x in quit if not x.startswith(locked[0] + "/")]
        scens.append({"id": i + 1, "tree": tree, "roots": roots, "threads": threads, "seed": rng.randrange(1 << 30), "samefs": samefs, "locked": locked,
                      "mode": rng.choice(["random", "pct", "pct"]), "quit": quit, "err": err, "skip": skip, "max_steps": 40000,
                      "badparent": rng.random() < 0.25,
                      "pct_depth": rng.randint(1, 4), "pct_horizon": 20 + 8 * len(nodes)})
    results = run_recorder_parallel(scens, nproc=8)
    all_scens = list(scens)
    # 3. systematic bounded-preemption exploration on small trees
    small = [(["r/", "r/f"], ["r"], [], []), (["r/", "r/a", "r/b"], ["r"], [], []), (["r/", "r/d/", "r/d/f"], ["r"], [], []),
             (["a", "b/", "b/c"], ["a", "b"], [], []), (["r/", "r/a", "r/b", "r/c"], ["r"], ["r/b"], ["r/b"]),
             (["r/", "r/d/", "r/d/f", "r/e"], ["r"], ["r/e"], ["r/d"])]
    bound = 2 if tier == "quick" else 3
    budget = 600 if tier == "quick" else 20000
    idb = 100000
    for tree, roots, err, skip in small:
        nodes = [t.rstrip("/") for t in tree]
        for quit in ([[]] + [[n] for n in nodes] if not err else [[], err]):
            for threads in ([2] if tier == "quick" else [2, 3]):
                # the smallest tree is explored one preemption deeper
                b2 = bound + 1 if (tree == small[0][0] and threads == 2) else bound
                s2, r2 = preemption_search(chk, tree, roots, threads, quit, b2, budget * (3 if b2 > bound else 1), idb, err, skip)
                idb += 100000
                all_scens += s2
                results.update(r2)
    # 3b. S->I: behaviours of the specification (TLC -simulate), replayed as forced schedules on the real walker
    nsim = 120 if tier == "quick" else 2000
    followed = 0
    sim_scens = []
    for nthreads in (2, 3):
        cfgp = os.path.join(vlib.WORK, "c07", "Walk_sim_n%d_%d.cfg" % (nthreads, os.getpid()))
        os.makedirs(os.path.dirname(cfgp), exist_ok=True)
        with open(cfgp, "w") as f:
            f.write(open(os.path.join(vlib.SPECS, "walk", "Walk_sim.cfg")).read().replace("N = 2", "N = %d" % nthreads))
        sim = vlib.tlc("walk/MCWalkSim", cfgp, workers=1, timeout=900, simulate=nsim, depth=200, tlc_seed=vlib.seed() + nthreads)
        chk.add_tlc(sim)
        for b in sim.emits():
            ch = b["ch"]
            parent = {}
            for p, kids in enumerate(ch, 1):
                for c in kids:
                    parent[c] = p

            def path(n):
                return (path(parent[n]) + "/" if n in parent else "") + "n%d" % n
            # childless nodes become empty directories or files (an unreadable entry is a file-like leaf)
            tree = [path(n) + ("/" if ch[n - 1] or (n not in b["err"] and (n + idb) % 3 == 0) else "") for n in range(1, len(ch) + 1)]
            idb += 1
            sim_scens.append({"id": idb, "tree": tree, "roots": [path(r) for r in b["roots"]], "threads": nthreads, "seed": idb,
                              "mode": "random", "forced": [w for w, pcw in b["h"] if pcw != "visit"], "quit": [path(n) for n in b["quit"]],
                              "err": [path(n) for n in b["err"]], "skip": [path(n) for n in b["skip"]], "max_steps": 5000})
    r3 = run_recorder_parallel(sim_scens, nproc=8)
    for sc3 in sim_scens:
        if r3[sc3["id"]]["choices"][:len(sc3["forced"])] == sc3["forced"]:
            followed += 1
    all_scens += sim_scens
    results.update(r3)
    chk.extra["spec_behaviours_replayed"] = len(sim_scens)
    chk.extra["spec_behaviours_followed_exactly"] = followed
    chk.evaluations += len(all_scens)
    # judge
    ok_scens = []
    for sc in all_scens:
        r = results.get(sc["id"])
        if r is None:
            raise vlib.ToolError("no result for scenario %s" % sc["id"])
        if r.get("not_run"):
            continue
        why = judge_run(sc, r)
        if why:
            chk.violation({"kind": "property", "threads": sc["threads"], "quit": bool(sc.get("quit")), "mode": sc["mode"]},
                          {"why": why, "scenario": sc, "choices": r["choices"], "trace": r["trace"][-60:]})
            continue
        ok_scens.append(sc)
        evs = [e["ev"] for e in r["trace"]]
        stolen = any(e["ev"] == "Recv" and e["kind"] == "work" and i > 0 for i, e in enumerate(r["trace"]))
        if ("Act" in evs and stolen) or sc.get("quit"):
            chk.nontrivial_case(json.dumps([sc["tree"], sc.get("quit"), r["choices"]]))
        if len(chk.samples) < 2 and "Act" in evs:
            chk.sample({"scenario": sc, "choices": r["choices"], "events": len(r["trace"])})
    # 4. trace validation by TLC
    validate_traces(chk, ok_scens, results, "runs")
    chk.extra["schedules_random_pct"] = len(scens)
    chk.extra["schedules_bounded_preemption"] = len(all_scens) - len(scens) - len(sim_scens)
    chk.extra["preemption_bound"] = "%d (%d on the smallest tree)" % (bound, bound + 1)
    return chk.finish()


def replay(path):
    rec = json.load(open(path))
    sc = rec["record"].get("scenario")
    if not sc:
        print(json.dumps(rec, indent=1)[:4000])
        return 2
    sc = dict(sc)
    if rec["record"].get("choices") and sc.get("mode") != "np":
        sc["forced"] = rec["record"]["choices"]
    r = run_recorder([sc])[sc["id"]]
    why = judge_run(sc, r)
    print(json.dumps({"scenario": sc, "hang": r["hang"], "visits": r["visits"], "why": why}, indent=1))
    if why is None:
        chk = vlib.Check("C07", "quick")
        validate_traces(chk, [sc], {sc["id"]: r}, "replay")
        if chk.violations:
            why = chk.violations[0]["record"]["why"]
    if why:
        print("VIOLATION property=C07 replay=%s" % path)
        print("  " + why[:300])
        return 1
    print("replay: property holds on this schedule now")
    return 0

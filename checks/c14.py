"""C14: binary data never reaches the terminal unless text mode is requested.

Part 1 (searcher level): TLC explores the Searcher model with binary detection Quit / Convert on both
strategies for every NUL position and read history; the set of streams the model allows per scenario
is the envelope against which every real run is validated, and no delivered line may contain NUL
under Quit.  Part 2 (rg level): see checks/c14_rg.py.
"""
import json

import vlib
from checks import search_common as sc

META = {'text': "TLC explores binary detection Quit/Convert for every NUL position, strategy, capacity and read history; NoNulDelivered holds in every state; the set of streams the model allows per scenario is the envelope against which real runs are validated (trace inclusion), and no delivered line may hold a NUL under Quit. At rg level (BinaryPolicy.tla) the summary modes -c, -l, --files-without-match, -c --include-zero and --count-matches --include-zero are judged too: a traversed file with a NUL in the portion these modes examine is dropped whatever they would have said about it, an explicitly named one is not reported as empty when a line matches.", 'note': 'Searcher-level part; bounds in specs/search/C14_*.cfg; hook H1 scales the slice sniff window.', 'technique': "TLA+ model of binary detection, TLC exploration + inclusion of observed streams in the model's behaviours"}


def main(tier):
    chk = vlib.Check("C14", tier)
    chk.rule = ("TLC enumerates inputs of <= N lines with NUL at the start, inside, after a matching line and at the end x "
                "Quit/Convert x reader/slice x slow/fast x capacity x every read history (read sizes up to the input length). "
                "NoNulDelivered is evaluated in every state. Each real run (as emitted, 1-byte reads, maximal reads) must produce "
                "a stream that the model allows for that scenario under some history, and under Quit no delivered line may hold "
                "a NUL. Non-trivial: >= 2 delivered lines in the reference and binary detection on; distinct by scenario+history.")
    chk.assumptions = ["matcher abstracted to 'line contains byte m'", "bounds: specs/search/C14_*.cfg",
                       "hook H1 scales the slice strategies' sniffing window with the capacity"]
    cfgs = ["C14_quick"] if tier == "quick" else ["C14_quick", "C14_deep"]
    for c in cfgs:
        recs, jobs, obs = sc.explore(chk, c, variants=("as_is", "onebyte", "maxread"), timeout=3000)
        for r in recs:
            if not r["ok"]:
                chk.violation(dict(sc.mechanism(r), variant="design"),
                              {"why": "NoNulDelivered fails in the Searcher model", "scenario": {"scn": r["scn"], "reads": r["reads"]},
                               "reference": r["ref"], "observed": {"out": r["out"]}}, kind="design")
    rg_part(chk, tier, recs)
    chk.exhaustive = True
    return chk.finish()


def tokens(stdout, lines):
    toks = []
    for raw in stdout.split(b"\n"):
        if raw == b"":
            continue
        if raw.startswith(b"binary file matches"):
            toks.append({"k": "notice", "i": 0})
            continue
        if raw.startswith(b"WARNING: stopped searching binary file after match"):
            toks.append({"k": "warning", "i": 0})
            continue
        j = 0
        while j < len(raw) and 48 <= raw[j] <= 57:
            j += 1
        if j and raw[j:j + 1] in (b":", b"-"):
            n = int(raw[:j])
            if 1 <= n <= len(lines) and raw[j + 1:] == lines[n - 1]:
                toks.append({"k": "line" if raw[j:j + 1] == b":" else "ctx", "i": n})
                continue
        if raw == b"--":
            continue
        toks.append({"k": "other", "i": 0})
    return toks


def rg_part(chk, tier, recs):
    """The rg binary on files holding NUL bytes: stdout is tokenised and TLC judges every run against
    specs/cli/BinaryPolicy.tla (dropped / cut with warning / at most a notice / --text = no detection)."""
    import os
    import rgrun
    inputs = []
    seen = set()
    for r in recs:
        b = bytes(r["scn"]["inp"])
        if r["scn"]["cfg"]["term"] == "lf" and b not in seen and b:
            seen.add(b)
            inputs.append(b)
    filler = b"".join(b"x%06d filler filler filler filler\n" % i for i in range(1900))     # ~ 66 KB, no match, no NUL
    exact = b"m\n" * 3 + b"".join(b"x%06d filler filler filler filler\n" % i for i in range(1724))
    exact += b"y" * (65536 - len(exact) - 1) + b"\n"          # exactly 64 KiB of complete lines
    assert len(exact) == 65536
    inputs += [exact + b"\x00\nm\n", exact + b"\x00m\n", exact[:-2] + b"\n\x00\nm\n"]
    # one line longer than the buffer with the NUL far into it (and beyond the first 64 KiB of the file)
    inputs += [b"m" + b"y" * 70000 + b"\x00tail\nm\n", b"x\nm\n" + b"m" + b"y" * 66000 + b"\x00\n", b"m\n" + b"y" * 140000 + b"m\x00\nm\n"]
    inputs += [filler + b"m\nm\x00\nm\n", b"m\n" + filler + b"\x00\nm\n", filler + b"x\x00m\n",
               b"m\nm\nm\n" + filler + b"a\x00b\nm\n", b"m\n" * 3 + filler + filler + b"m\x00\n", filler + b"m\n"]
    if tier == "quick":
        inputs = inputs[::2] + inputs[-6:]
    sc = rgrun.Scratch("c14rg")
    jobs, meta = [], []
    try:
        for k, b in enumerate(inputs):
            d = "d%d" % k
            sc.write(d + "/f", b)
            sc.write(d + "e/clean", b"x\nxx\n")
            for naming in ("implicit", "explicit", "mixed"):
                for mode, fl in (("default", []), ("binary", ["--binary"]), ("text", ["--text"])):
                    for strat in ("--mmap", "--no-mmap", "--mmap-U", "--pre", "-Eutf8", "--reader-U"):
                        for ctx in ([], ["-C1"], ["-c"], ["-l"], ["--files-without-match"], ["-c", "--include-zero"],
                                    ["--count-matches", "--include-zero"]):
                            if ctx and mode == "text":
                                continue
                            if strat in ("--pre", "-Eutf8", "--reader-U") and (naming == "mixed" or k % 2 or ctx not in ([], ["-C1"], ["-c"])):
                                continue
                            if strat == "-Eutf8" and any(c >= 0x80 for c in b):
                                continue         # (a forced utf-8 label changes nothing only for ASCII input)
                            if strat == "--mmap-U" and (ctx or len(b) > 60000 or naming == "mixed"):
                                continue
                            if ctx and ctx != ["-C1"] and (naming == "mixed" or k % 3):
                                continue
                            # ("--pre": the file reaches the searcher through a preprocessor that hands it through unchanged)
                            # ("-Eutf8": a forced label under which the bytes stay what they are; "--reader-U": multi-line mode requested
                            #  for a pattern that cannot match the terminator, so the search stays line by line through the reader)
                            sargs = {"--pre": ["--pre", "cat"], "-Eutf8": ["-E", "utf-8", "--no-mmap"], "--reader-U": ["--no-mmap", "-U"]}.get(strat, [strat])
                            args = ["--no-config", "--color", "never", "-j1", "-n", "-I", "--no-heading"] + sargs + fl + ctx + ["-e", "m"]
                            if strat == "--mmap-U":
                                # multi-line strategy: a pattern that selects the same lines but can match the terminator
                                args = ["--no-config", "--color", "never", "-j1", "-n", "-I", "--no-heading", "--mmap", "-U"] + fl + ctx + ["-e", "m[^\\n]*\\n?"]
                            if naming == "explicit":
                                args += [sc.path(d, "f")]
                            elif naming == "mixed":
                                # an explicitly named file without any match, then the directory: the traversed file
                                # must be treated as a traversed file
                                args += [sc.path(d + "e", "clean"), sc.path(d)]
                            else:
                                args += [sc.path(d)]
                            jobs.append({"args": args})
                            meta.append((k, "implicit" if naming == "mixed" else naming, mode, strat + ("+mixed" if naming == "mixed" else "") + ("+" + "".join(ctx) if ctx else "")))
        # multi-line replacement with a pattern whose optional tail reaches into the line after the match (the printers
        # re-find the matches with some look-ahead): the NUL that follows the printed lines must not come out with a group
        lead = b"".join(b"x%06d filler filler filler filler\n" % i for i in range(1900))      # beyond the sniffed 64 KiB
        for k2, b in enumerate([lead + b"m\n" + b"y" * 60 + b"\x00" + b"y" * 120 + b"\nlast\n",
                                lead + b"m\n" + b"y" * 100 + b"\x00tail\n",
                                b"m\n" + b"y" * 90 + b"\x00" + b"y" * 90 + b"\nm\n"], start=len(inputs)):
            d = "d%d" % k2
            sc.write(d + "/f", b)
            inputs.append(b)
            for naming in ("implicit", "explicit"):
                for mode, fl in (("default", []), ("binary", ["--binary"])):
                    for strat in ("--mmap", "--no-mmap"):
                        args = ["--no-config", "--color", "never", "-j1", "-N", "-I", "--no-heading", strat, "-U", "-r", "[$0]"] + fl + ["-e", "m(\\n.{0,150}$)?"]
                        args += [sc.path(d, "f")] if naming == "explicit" else [sc.path(d)]
                        jobs.append({"args": args})
                        meta.append((k2, naming, mode, strat + "+repl"))
        outs = rgrun.run_many(jobs)
        chk.evaluations += len(jobs)
        runs = []
        for rid, ((k, naming, mode, strat), (rc, so, se)) in enumerate(zip(meta, outs), 1):
            b = inputs[k]
            body = b[:-1].split(b"\n") if b.endswith(b"\n") else b.split(b"\n")
            summary = ("count" if strat.endswith("+-c") else "list" if strat.endswith("+-l") else "fwm" if strat.endswith("+--files-without-match")
                       else "count0" if strat.endswith("+-c--include-zero") else "countm0" if strat.endswith("+--count-matches--include-zero")
                       else "repl" if strat.endswith("+repl") else "none")
            if summary == "repl":
                toks = []
            elif summary == "none":
                toks = tokens(so, body)
            else:
                toks = []
                for raw in so.split(b"\n"):
                    if raw == b"":
                        continue
                    if summary in ("count", "count0", "countm0") and raw.isdigit():
                        toks.append({"k": "count", "i": int(raw)})
                    elif summary in ("list", "fwm") and raw.endswith(b"/f"):
                        toks.append({"k": "listed", "i": 0})
                    else:
                        toks.append({"k": "other", "i": 0})
            runs.append({"id": rid, "lines": [{"m": b"m" in l, "nul": b"\x00" in l} for l in body], "naming": naming, "mode": mode,
                         "out": toks, "nulout": b"\x00" in so, "rc": rc, "summary": summary,
                         # the first NUL lies where every mode that reads a file to its end looks (reader: anywhere; map: leading 64 KiB)
                         "noticed": 0 <= b.find(b"\x00") < (65000 if strat.startswith("--mmap") else len(b))})
        os.makedirs(os.path.join(vlib.WORK, "c14"), exist_ok=True)
        path = os.path.join(vlib.WORK, "c14", "runs_%d.ndjson" % os.getpid())
        with open(path, "w") as f:
            for r in runs:
                f.write(json.dumps(r) + "\n")
        res = vlib.tlc("cli/BinaryPolicy", "BinaryPolicy", workers=8, timeout=1800, env={"RUNS": path})
        os.remove(path)
        if res.rc != 0:
            raise vlib.ToolError("BinaryPolicy failed:\n" + res.tail(40))
        chk.add_tlc(res)
        bad = set(v["id"] for v in res.emits("VERDICT"))
        vlib.log("[C14] rg level: %d runs judged by TLC, %d not allowed" % (len(runs), len(bad)))
        for r, (k, naming, mode, strat), j, (rc, so, se) in zip(runs, meta, jobs, outs):
            if r["id"] in bad:
                chk.violation({"level": "rg", "naming": naming, "mode": mode, "strategy": strat, "nul_on_stdout": r["nulout"],
                               "big": len(inputs[k]) > 60000},
                              {"why": "output not allowed by BinaryPolicy", "args": j["args"][:-1], "input_len": len(inputs[k]),
                               "input_head": list(inputs[k][:40]), "tokens": r["out"][:12], "stdout_head": so[:200].decode("latin1"),
                               "rg_level": True})
            else:
                chk.validated += 1
                if any(l["nul"] for l in r["lines"]) and r["out"]:
                    chk.nontrivial_case("rg:%d:%s:%s:%s" % (k, naming, mode, strat))
        sequence_part(chk, sc, inputs)
    finally:
        sc.close()


def sequence_part(chk, sc, inputs):
    """Two files searched one after the other by the same worker (-j1, incremental reader): what is printed for a file
    does not depend on the file searched before it.  Each file on its own is judged by BinaryPolicy above; here the
    output for the pair must be the two single-file outputs one after the other."""
    import itertools
    import rgrun
    small = [b for b in inputs if len(b) < 4000]
    pick = [b for b in small if b"\x00" in b and b"m" in b][:4] + [b for b in small if b"\x00" not in b and b"m" in b][:2]
    if len(pick) < 3:
        return
    for k, b in enumerate(pick):
        sc.write("q/f%d" % k, b)
    base = ["--no-config", "--color", "never", "-j1", "-n", "-H", "--no-heading", "--no-mmap", "-e", "m"]
    variants = [("explicit", []), ("explicit", ["-c"]), ("binary", ["--binary"]), ("text", ["--text"]),
                ("explicit", ["--passthru"]), ("binary", ["--binary", "--passthru"])]
    singles, jobs, meta = {}, [], []
    for v, fl in variants:
        for k in range(len(pick)):
            jobs.append({"args": base + fl + ["f%d" % k], "cwd": sc.path("q")})
            meta.append(("single", v, tuple(fl), k, None))
        for a, b2 in itertools.permutations(range(len(pick)), 2):
            jobs.append({"args": base + fl + ["f%d" % a, "f%d" % b2], "cwd": sc.path("q")})
            meta.append(("pair", v, tuple(fl), a, b2))
    # the same for files met by a walk (--sort path: "1" before "2"): a directory holding the two files against two
    # directories holding one each under the same name
    for k, b in enumerate(pick):
        sc.write("w/s%d_1/1" % k, b)
        sc.write("w/s%d_2/2" % k, b)
    for a, b2 in itertools.permutations(range(len(pick)), 2):
        sc.write("w/p%d_%d/1" % (a, b2), pick[a])
        sc.write("w/p%d_%d/2" % (a, b2), pick[b2])
    wbase = ["--no-config", "--color", "never", "-j1", "--sort", "path", "-n", "-H", "--no-heading", "--no-mmap", "-e", "m"]
    for fl in ([], ["--passthru"], ["-c"]):
        for k in range(len(pick)):
            for pos in (1, 2):
                jobs.append({"args": wbase + fl + ["./"], "cwd": sc.path("w/s%d_%d" % (k, pos))})
                meta.append(("single", "walk%d" % pos, tuple(fl), k, None))
        for a, b2 in itertools.permutations(range(len(pick)), 2):
            jobs.append({"args": wbase + fl + ["./"], "cwd": sc.path("w/p%d_%d" % (a, b2))})
            meta.append(("pair", "walk", tuple(fl), a, b2))
    outs = rgrun.run_many(jobs)
    chk.evaluations += len(jobs)
    for (kind, v, fl, a, b2), (rc, so, se) in zip(meta, outs):
        if kind == "single":
            singles[(v, fl, a)] = so
    for (kind, v, fl, a, b2), (rc, so, se), j in zip(meta, outs, jobs):
        if kind != "pair":
            continue
        want = (singles[("walk1", fl, a)] + singles[("walk2", fl, b2)]) if v == "walk" else (singles[(v, fl, a)] + singles[(v, fl, b2)])
        if so == want:
            chk.validated += 1
            chk.nontrivial_case("seq:%s:%s:%d:%d" % (v, "".join(fl), a, b2))
        else:
            chk.violation({"level": "rg", "naming": "implicit" if v == "walk" else "explicit", "mode": v + ("+" + "".join(fl) if fl else ""), "strategy": "sequence", "nul_on_stdout": b"\x00" in so, "big": False},
                          {"why": "the output for two files searched one after the other by one worker is not the two single-file outputs",
                           "args": j["args"], "got": so[:400].decode("latin1"), "single_file_outputs": want[:400].decode("latin1"),
                           "first": list(pick[a][:60]), "second": list(pick[b2][:60])})


def replay(path):
    return sc.replay_file(path)

"""C14: binary data never reaches the terminal unless text mode is requested.

Part 1 (searcher level): TLC explores the Searcher model with binary detection Quit / Convert on both
strategies for every NUL position and read history; the set of streams the model allows per scenario
is the envelope against which every real run is validated, and no delivered line may contain NUL
under Quit.  Part 2 (rg level): see checks/c14_rg.py.
"""
import vlib
from checks import search_common as sc

META = {'text': "TLC explores binary detection Quit/Convert for every NUL position, strategy, capacity and read history; NoNulDelivered holds in every state; the set of streams the model allows per scenario is the envelope against which real runs are validated (trace inclusion), and no delivered line may hold a NUL under Quit.", 'note': 'Searcher-level part; bounds in specs/search/C14_*.cfg; hook H1 scales the slice sniff window.', 'technique': "TLA+ model of binary detection, TLC exploration + inclusion of observed streams in the model's behaviours"}


def main(tier):
    chk = vlib.Check("C14", tier)
    chk.rule = ("TLC enumerates inputs of <= N lines with NUL at the start, inside, after a matching line and at the end x "
                "Quit/Convert x reader/slice x slow/fast x capacity x every read history (read sizes up to the input length). "
                "NoNulDelivered is evaluated in every state. Each real run (as emitted, 1-byte reads, maximal reads) must produce "
                "a stream that the model allows for that scenario under some history, and under Quit no delivered line may hold "
                "a NUL. Non-trivial: >= 2 delivered lines in the reference and binary detection on; distinct by scenario+history.")
    chk.assumptions = ["matcher abstracted to 'line contains byte m'", "bounds: specs/search/C14_*.cfg",
                       "hook H1 scales the slice strategies' sniffing window with the capacity"]
    cfgs = ["C14_quick"] if tier == "quick" else ["C14_quick", "C14_deep"]
    for c in cfgs:
        recs, jobs, obs = sc.explore(chk, c, variants=("as_is", "onebyte", "maxread"), timeout=3000)
        for r in recs:
            if not r["ok"]:
                chk.violation(dict(sc.mechanism(r), variant="design"),
                              {"why": "NoNulDelivered fails in the Searcher model", "scenario": {"scn": r["scn"], "reads": r["reads"]},
                               "reference": r["ref"], "observed": {"out": r["out"]}}, kind="design")
    chk.exhaustive = True
    return chk.finish()


def replay(path):
    return sc.replay_file(path)

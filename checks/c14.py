"""C14: binary data never reaches the terminal unless text mode is requested.

Part 1 (searcher level): TLC explores the Searcher model with binary detection Quit / Convert on both
strategies for every NUL position and read history; the set of streams the model allows per scenario
is the envelope against which every real run is validated, and no delivered line may contain NUL
under Quit.  Part 2 (rg level, checks/c14_rg.py once built): stdout of the rg binary.
"""
import json

import vlib
from checks import search_common as sc


def scn_key(scn):
    s = {k: v for k, v in scn.items() if k != "faultKind"}
    return json.dumps(s, sort_keys=True)


META = {'text': 'TLC explores binary detection Quit/Convert for every NUL position, strategy, capacity and read history; NoNulDelivered holds in every state; the set of streams the model allows per scenario is the envelope against which real runs are validated (trace inclusion), and no delivered line may hold a NUL under Quit.', 'note': 'Searcher-level part; bounds in specs/search/C14_*.cfg; hook H1 scales the slice sniff window.', 'technique': "TLA+ model of binary detection, TLC exploration + inclusion of observed streams in the model's behaviours"}


def main(tier):
    chk = vlib.Check("C14", tier)
    chk.rule = ("TLC enumerates inputs of <= N lines with NUL at the start, inside, after a matching line and at the end x "
                "Quit/Convert x reader/slice x slow/fast x capacity x every read history (read sizes up to the input length). "
                "NoNulDelivered is evaluated in every state. Each real run (as emitted, 1-byte reads, maximal reads) must produce "
                "a stream that the model allows for that scenario under some history, and under Quit no delivered line may hold "
                "a NUL. Non-trivial: input contains a NUL and at least one line is delivered in some allowed stream.")
    chk.assumptions = ["matcher abstracted to 'line contains byte m'", "bounds: specs/search/C14_*.cfg",
                       "hook H1 scales the slice strategies' sniffing window with the capacity"]
    cfgs = ["C14_quick"] if tier == "quick" else ["C14_quick", "C14_deep"]
    for c in cfgs:
        allowed = {}

        def collect(recs):
            for r in recs:
                allowed.setdefault(scn_key(r["scn"]), set()).add(
                    json.dumps([[sc.ev_key(e) for e in r["out"]], r["result"]]))

        def jb(r, o, j):
            scn = r["scn"]
            got = json.dumps([[list(sc.ev_key(e)) for e in o["out"]], o["result"]])
            got = json.dumps(json.loads(got))
            ok = allowed.get(scn_key(scn), set())
            norm = set(json.dumps(json.loads(x)) for x in ok)
            if o["result"] == "panic":
                return "panic: " + o.get("err", "")[:200]
            if scn["bin"] == "quit":
                inp = scn["inp"]
                for e in o["out"]:
                    if e["k"] in ("match", "ctx") and 0 in inp[e["off"]:e["off"] + e["len"]]:
                        return "a delivered line contains a NUL byte although binary detection is Quit"
            if got not in norm:
                return "observed stream is not allowed by the Searcher model under any read history"
            if 0 in scn["inp"] and any(e["k"] in ("match", "ctx") for e in o["out"]):
                chk.nontrivial_case(scn_key(scn) + j["_v"])
            return None

        # two passes: TLC first (collect envelope), then replay
        res = vlib.tlc("search/MCSearcher", c, workers=12, timeout=3000)
        if res.rc != 0:
            raise vlib.ToolError("model sanity invariant failed in %s:\n%s" % (c, res.tail(60)))
        chk.add_tlc(res)
        recs = res.emits()
        bad = [r for r in recs if not r["ok"]]
        collect(recs)
        vlib.log("[C14] %s: %d states, %d terminal states, %d scenarios" % (c, res.distinct, len(recs), len(allowed)))
        # one representative record per scenario (+ its history) is enough to drive the replays
        jobs = []
        seen = set()
        for r in recs:
            k = scn_key(r["scn"])
            variants = ["as_is"]
            if k not in seen:
                seen.add(k)
                variants += ["onebyte", "maxread"]
            for v in variants:
                j = {"scn": r["scn"], "reads": r["reads"], "_v": v, "_r": r}
                if v != "as_is":
                    if r["scn"]["strat"] != "reader":
                        continue
                    j["reads"] = []
                    j["fallback"] = 1 if v == "onebyte" else 0
                jobs.append(j)
        obs = vlib.run_driver("replay_search", [{k: v for k, v in j.items() if k != "_r"} for j in jobs], parallel=12, timeout=3000)
        chk.evaluations += len(jobs)
        for j, o in zip(jobs, obs):
            r = j["_r"]
            why = jb(r, o, j)
            if why:
                sig = sc.mechanism(r)
                sig["variant"] = j["_v"]
                chk.violation(sig, {"why": why, "scenario": {k: v for k, v in j.items() if k != "_r" and not k.startswith("_")},
                                    "reference": r["ref"], "observed": o, "allowed": sorted(allowed.get(scn_key(r["scn"]), [])),
                                    "driver": "replay_search"})
            else:
                chk.validated += 1
                if len(chk.samples) < 3 and 0 in r["scn"]["inp"] and len(o["out"]) > 3:
                    chk.sample({"scenario": r["scn"], "reads": j["reads"], "observed": o["out"]})
        for r in bad:
            chk.violation(dict(sc.mechanism(r), variant="design"), {"why": "NoNulDelivered fails in the model", "scenario": {"scn": r["scn"], "reads": r["reads"]},
                                                                   "reference": r["ref"], "observed": {"out": r["out"]}}, kind="design")
    chk.exhaustive = True
    return chk.finish()


def replay(path):
    rec = json.load(open(path))
    scen = rec["record"]["scenario"]
    o = vlib.run_driver("replay_search", [scen])[0]
    got = json.dumps([[list(sc.ev_key(e)) for e in o["out"]], o["result"]])
    allowed = set(json.dumps(json.loads(x)) for x in rec["record"].get("allowed", []))
    print(json.dumps({"scenario": scen, "observed_now": o}, indent=1))
    bad = json.dumps(json.loads(got)) not in allowed
    if scen["scn"]["bin"] == "quit":
        for e in o["out"]:
            if e["k"] in ("match", "ctx") and 0 in scen["scn"]["inp"][e["off"]:e["off"] + e["len"]]:
                bad = True
    if bad:
        print("VIOLATION property=C14 replay=%s" % path)
        return 1
    print("replay: property holds on this scenario now")
    return 0

"""Shared machinery for the searcher-domain checks (C02, C03, C14, C16): TLC explores the
implementation-shaped Searcher model against the GrepModel reference and emits one scenario
per terminal state; every scenario is replayed on the real grep-searcher."""
import json
import os

import vlib


def ev_key(e):
    return (e["k"], e["ln"], e["off"], e["len"])


def strip_finish(out):
    return [e for e in out if e["k"] != "finish"], [e for e in out if e["k"] == "finish"]


def judge(rec, obs, pinned_only=True):
    """Judge an observed run (from replay_search) against the reference stream TLC computed for the
    scenario. Returns None if the property's statement holds, else a short reason."""
    scn = rec["scn"]
    ref = rec["ref"]
    ref_body, ref_fin = strip_finish(ref)
    out = obs["out"]
    body, fin = strip_finish(out)
    res = obs["result"]
    if res == "panic":
        return "panic: " + obs.get("err", "")[:200]
    if not obs.get("bytes_ok", True):
        return "delivered bytes differ from the input's bytes at the reported offset"
    if any(e["k"] == "finish" for e in out[:-1]):
        return "finish is not the last event"
    kb = [ev_key(e) for e in body]
    kr = [ev_key(e) for e in ref_body]
    stop, err, fault = scn["stopAt"], scn["errAt"], scn["faultAt"]
    if scn["bin"] != "none":
        return None  # judged by the C14 rules
    if err and err <= len(kr):
        if res != "err_sink":
            return "sink error at event %d not returned (result %s)" % (err, res)
        if fin:
            return "finish delivered after a sink error"
        if kb != kr[:err]:
            return "events before the sink error are not the first %d reference events" % err
        return None
    if stop and stop <= len(kr):
        if res != "ok":
            return "stop at event %d gave result %s" % (stop, res)
        if len(fin) != 1:
            return "finish delivered %d times after a stop" % len(fin)
        if kb != kr[:stop]:
            return "events after/before a stop differ from the reference prefix of length %d" % stop
        return None
    if fault and res == "err_io":
        if fin:
            return "finish delivered after a read error"
        if kb != kr[:len(kb)]:
            return "events before the read error are not a prefix of the reference"
        return None
    if fault and obs.get("nreads", 0) >= fault:
        return "read error at read %d not returned (result %s)" % (fault, res)
    # uninterrupted
    if res != "ok":
        return "uninterrupted search returned %s: %s" % (res, obs.get("err", "")[:120])
    if kb != kr:
        return "delivered stream differs from the grep model"
    if len(fin) != 1:
        return "finish delivered %d times" % len(fin)
    if ref_fin and ref_fin[0]["len"] == 1 and fin[0]["off"] != ref_fin[0]["off"]:
        return "bytes searched %d != input length %d" % (fin[0]["off"], ref_fin[0]["off"])
    return None


def scn_key(scn):
    return json.dumps({k: v for k, v in scn.items() if k != "faultKind"}, sort_keys=True)


def stream_key(out, result):
    return json.dumps([[list(ev_key(e)) for e in out], result])


def judge_binary(scn, obs, allowed):
    """Binary detection makes the stream depend on the read history: the observed stream must be one
    the Searcher model allows for this scenario under some history; under Quit no delivered line may
    contain a NUL."""
    if obs["result"] == "panic":
        return "panic: " + obs.get("err", "")[:200]
    if scn["bin"] == "quit":
        inp = scn["inp"]
        for e in obs["out"]:
            if e["k"] in ("match", "ctx") and 0 in inp[e["off"]:e["off"] + e["len"]]:
                return "a delivered line contains a NUL byte although binary detection is Quit"
    if stream_key(obs["out"], obs["result"]) not in allowed:
        return "observed stream is not allowed by the Searcher model under any read history"
    return None


def peek_phase(scn, obs):
    """Was the injected read fault delivered while the transcoding layer was still peeking for a BOM (its first 3 bytes)?"""
    j = scn.get("faultAt", 0)
    gots = obs.get("gots", [])
    # the peek ends once 3 bytes have arrived or the source has reported end of input
    return bool(j) and sum(gots[:j - 1]) < 3 and 0 not in gots[:j - 1]


def mechanism(rec):
    """Signature of a failing scenario (for known_findings matching)."""
    scn = rec["scn"]
    c = scn["cfg"]
    return {
        "strat": scn["strat"], "path": scn["path"], "inv": c["inv"], "pass": c["pass"],
        "stopnm": c["stopnm"], "term": c["term"], "ctx": (c["A"] > 0 or c["B"] > 0),
        "bin": scn["bin"], "plan": "stop" if scn["stopAt"] else "err" if scn["errAt"] else "fault" if scn["faultAt"] else "none",
    }


def nontrivial_key(rec):
    """A scenario is non-trivial if at least two lines are selected or delivered and there is
    either context, inversion, an interruption or a non-LF terminator; distinct by content."""
    scn = rec["scn"]
    body, _ = strip_finish(rec["ref"])
    lines = [e for e in body if e["k"] in ("match", "ctx")]
    if len(lines) < 2:
        return None
    c = scn["cfg"]
    if not (c["A"] or c["B"] or c["inv"] or c["pass"] or c["stopnm"] or c["term"] != "lf"
            or scn["stopAt"] or scn["errAt"] or scn["faultAt"] or scn["bin"] != "none"):
        return None
    return json.dumps([scn["inp"], c, scn["strat"], scn["path"], scn["cap0"], scn["bin"],
                       scn["stopAt"], scn["errAt"], scn["faultAt"], rec["reads"]], sort_keys=True)


BATCH = 60000


def explore(chk, cfgname, workers=12, timeout=900, variants=("as_is",), simulate=None, depth=None,
            extra_judge=None, want=None):
    """Run TLC with the given cfg of MCSearcher, replay every emitted scenario.

    TLC's output is streamed to a file and processed in batches, so that tiers with millions of scenarios do not have
    to fit into memory.  Returns (summary, None, None): `summary` holds every record on which the model's own sanity
    invariant failed plus the first record of every distinct input (what the callers look at afterwards)."""
    res = vlib.tlc("search/MCSearcher", cfgname, workers=workers, timeout=timeout,
                   simulate=simulate, depth=depth, tlc_seed=(vlib.seed() if simulate else None), stream=True)
    try:
        if res.rc != 0:
            raise vlib.ToolError("model sanity invariant failed in %s:\n%s" % (cfgname, res.tail(60)))
        chk.add_tlc(res)
        # pass 1 - envelope for history-dependent scenarios (binary detection): every stream the model allows
        allowed = {}
        for r in res.iter_emits(raw_filter=lambda raw: '\\"bin\\":\\"none\\"' not in raw):
            if r["scn"]["bin"] != "none" and (not want or want(r)):
                allowed.setdefault(scn_key(r["scn"]), set()).add(stream_key(r["out"], r["result"]))
        # pass 2 - replay in batches
        state = {"n": 0, "design_bad": 0, "conf_mismatch": 0, "summary": [], "inputs": set()}
        batch = []
        for r in res.iter_emits():
            if want and not want(r):
                continue
            batch.append(r)
            if len(batch) >= BATCH:
                _replay_batch(chk, batch, variants, allowed, extra_judge, timeout, state)
                batch = []
        if batch:
            _replay_batch(chk, batch, variants, allowed, extra_judge, timeout, state)
    finally:
        res.discard()
    vlib.log("[%s] %s: %d states, %d scenarios emitted in %.1fs" % (chk.pid, cfgname, res.distinct, state["n"], res.wall))
    chk.extra["design_counterexamples"] = chk.extra.get("design_counterexamples", 0) + state["design_bad"]
    chk.extra["conformance_mismatches_property_ok"] = chk.extra.get("conformance_mismatches_property_ok", 0) + state["conf_mismatch"]
    return state["summary"], None, None


def _replay_batch(chk, recs, variants, allowed, extra_judge, timeout, state):
    state["n"] += len(recs)
    for r in recs:
        key = bytes(r["scn"]["inp"])
        if not r["ok"]:
            state["design_bad"] += 1
            if len(state["summary"]) < 5000:
                state["summary"].append(r)
        elif key not in state["inputs"] and len(state["inputs"]) < 20000:
            state["inputs"].add(key)
            state["summary"].append(r)
    # build the replay list
    jobs = []
    for i, r in enumerate(recs):
        for v in variants:
            j = {"scn": r["scn"], "reads": r["reads"], "_i": i, "_v": v}
            if v == "mmap":
                if r["scn"]["strat"] != "slice" or r["scn"]["bin"] != "none":
                    continue
                j["strat_override"] = "mmap"
            elif v == "onebyte":
                if r["scn"]["strat"] != "reader" or r["scn"]["faultAt"]:
                    continue
                j["reads"] = []
                j["fallback"] = 1
            elif v == "maxread":
                if r["scn"]["strat"] != "reader" or r["scn"]["faultAt"]:
                    continue
                j["reads"] = []
                j["fallback"] = 0
            elif v == "intr":
                if r["scn"]["strat"] != "reader" or not r["scn"]["faultAt"]:
                    continue
                j["scn"] = dict(r["scn"], faultKind="intr")
            elif v == "heap":
                if r["scn"]["strat"] != "reader" or r["scn"]["faultAt"]:
                    continue
                j["heap_limit"] = len(r["scn"]["inp"]) + 1
            elif v == "multiline":
                if r["scn"]["path"] == "slow" or r["scn"]["bin"] != "none" or r["scn"]["cfg"]["term"] == "nul":
                    continue
                j["multi_line"] = True
            elif v == "multiline_nm":
                # multi-line mode requested; the matcher has no terminator of its own but declares the terminator byte
                # non-matching (what rg's matcher does under -U for a pattern that cannot match it): still line by line
                if r["scn"]["path"] != "fast" or r["scn"]["bin"] != "none" or r["scn"]["cfg"]["term"] == "nul":
                    continue
                j["multi_line"] = True
                j["nm_only"] = True
            jobs.append(j)
    obs = vlib.run_driver("replay_search", jobs, parallel=12, timeout=timeout)
    chk.evaluations += len(jobs)
    for j, o in zip(jobs, obs):
        r = recs[j["_i"]]
        why = judge(dict(r, scn=j["scn"]), o)
        if why is None and r["scn"]["bin"] != "none":
            why = judge_binary(r["scn"], o, allowed.get(scn_key(r["scn"]), set()))
        if why is None and extra_judge:
            why = extra_judge(r, o, j)
        if why is not None:
            sig = mechanism(r)
            sig["variant"] = j["_v"]
            if j["_v"] == "intr":
                sig["interrupted_in_bom_peek"] = peek_phase(j["scn"], o)
            chk.violation(sig, {"why": why, "scenario": {k: v for k, v in j.items() if not k.startswith("_")},
                                "reference": r["ref"], "observed": o, "driver": "replay_search",
                                "allowed": sorted(allowed.get(scn_key(r["scn"]), []))})
            continue
        chk.validated += 1
        if j["_v"] == "as_is" and r["scn"]["bin"] == "none":
            mo = [ev_key(e) for e in r["out"]]
            oo = [ev_key(e) for e in o["out"]]
            if mo != oo or r["result"] != o["result"]:
                state["conf_mismatch"] += 1
        k = nontrivial_key(r)
        if k:
            chk.nontrivial_case(k)
        if len(chk.samples) < 3 and k and i_interesting(r):
            chk.sample({"scenario": r["scn"], "reads": r["reads"], "observed": o["out"]})


def i_interesting(r):
    return len(r["ref"]) >= 5


def replay_file(path):
    rec = json.load(open(path))
    scen = rec["record"]["scenario"]
    o = vlib.run_driver("replay_search", [scen])[0]
    print(json.dumps({"scenario": scen, "observed_now": o, "reference": rec["record"].get("reference"),
                      "why_then": rec["record"].get("why")}, indent=1))
    fake = {"scn": scen["scn"], "ref": rec["record"]["reference"], "reads": scen.get("reads", [])}
    why = judge(fake, o)
    if why is None and scen["scn"]["bin"] != "none":
        why = judge_binary(scen["scn"], o, set(rec["record"].get("allowed", [])))
    if why:
        print("VIOLATION property=%s replay=%s" % (rec["property"], path))
        print("  " + why)
        return 1
    print("replay: property holds on this scenario now")
    return 0

"""C13: multi-line search reports exactly the lines covered by the pattern's matches."""
import json

import regexrender as rr
import vlib
from checks import search_common as sc

META = {
    "text": "TLC evaluates the reference model of multi-line search (GrepModelML: successive leftmost matches of the documented regex semantics over the WHOLE input, line ranges located and merged, inversion, context per the grep model) for every pattern of a family that can match or touch the terminator x every input over {a, b, LF} up to the bound x context/inversion/passthru; each predicted event stream is replayed on the real searcher with multi_line(true) and the matcher rg builds for -U, through the slice, reader and file strategies.",
    "note": "Reference-level model (the MultiLine strategy is bound by replay, not transcribed); single-byte symbols only; bounds in specs/regex/C13_*.cfg.",
    "technique": "TLA+ executable reference semantics (regex + line model) enumerated by TLC, replayed on grep-searcher's multi-line strategy",
}


def to_job(r, strat, extra=None):
    s = r["scn"]
    cfg = dict(s["cfg"], term="crlf" if s["o"].get("crlf") else "lf")
    scn = {"inp": list(rr.sym_bytes(s["inp"])), "cfg": cfg, "strat": strat, "path": "slow", "cap0": None, "bin": "none",
           "stopAt": s["stopAt"], "errAt": s["errAt"], "faultAt": 0}
    j = {"scn": scn, "reads": [], "pattern": rr.render(s["u"]), "mopts": s["o"], "multi_line": True}
    if extra:
        j.update(extra)
    return j


def expand(events, inp):
    """Split multi-line match blocks into one event per line (block granularity is not part of the property:
    touching ranges may be merged, and a pattern that cannot match the terminator is searched line by line)."""
    out = []
    for e in events:
        if e["k"] != "match":
            out.append(e)
            continue
        off, end, ln = e["off"], e["off"] + e["len"], e["ln"]
        while off < end:
            nl = inp.find(b"\n", off, end)
            stop = end if nl < 0 else nl + 1
            out.append({"k": "match", "ln": ln, "off": off, "len": stop - off})
            if ln:
                ln += 1
            off = stop
    return out


def mech(r, variant):
    s = r["scn"]
    kinds = json.dumps(s["u"])
    return {"variant": variant, "inv": s["cfg"]["inv"], "ctx": bool(s["cfg"]["A"] or s["cfg"]["B"]), "pass": s["cfg"]["pass"],
            "plan": "stop" if s["stopAt"] else "err" if s["errAt"] else "none",
            "lookbehind": any(l in kinds for l in ('"bot"', '"bol"', '"wb"', '"nwb"')),
            "pattern": rr.render(s["u"]), "opts": sorted(k for k, v in s["o"].items() if v)}


def run(chk, cfgname, pid="C13", want=None):
    res = vlib.tlc("regex/MCGrepML", cfgname, workers=12, timeout=3600)
    if res.rc != 0:
        raise vlib.ToolError("TLC failed on %s:\n%s" % (cfgname, res.tail(40)))
    chk.add_tlc(res)
    recs = res.emits()
    if want:
        recs = [r for r in recs if want(r)]
    vlib.log("[%s] %s: %d scenarios in %.1fs" % (pid, cfgname, len(recs), res.wall))
    jobs, meta = [], []
    for i, r in enumerate(recs):
        for v, strat, extra in (("slice", "slice", None), ("reader1", "reader", {"fallback": 1}), ("file", "file", None),
                                ("reader_heap_intr", "reader", {"fallback": 2})):
            if v == "file" and i % 5:
                continue
            if v == "reader_heap_intr":
                # a heap limit that just suffices and an Interrupted read after the first bytes: the search either goes on
                # (retry) or returns the error after a prefix of the results; it must not end quietly with less
                if i % 3 != vlib.seed() % 3 or r["scn"]["stopAt"] or r["scn"]["errAt"] or len(r["scn"]["inp"]) < 4:
                    continue
                j = to_job(r, strat, extra)
                j["heap_limit"] = len(j["scn"]["inp"]) + 4
                # (read calls 1-2 are the 3-byte peek for a byte-order mark with 2-byte reads; 3 and 4 fill the buffer)
                j["scn"] = dict(j["scn"], faultAt=3 + (i // 3) % 2, faultKind="intr")
                jobs.append(j)
                meta.append((i, v))
                continue
            jobs.append(to_job(r, strat, extra))
            meta.append((i, v))
    obs = vlib.run_driver("replay_search", jobs, parallel=12, timeout=3600)
    chk.evaluations += len(jobs)
    for (i, v), j, o in zip(meta, jobs, obs):
        r = recs[i]
        inp = bytes(j["scn"]["inp"])
        fake = {"scn": dict(j["scn"], faultAt=0), "ref": expand(r["ref"], inp), "reads": []}
        if v == "reader_heap_intr" and o["result"] != "ok":
            got = [sc.ev_key(e) for e in expand(o["out"], inp)]
            ref = [sc.ev_key(e) for e in fake["ref"] if e["k"] != "finish"]
            why = None if ("injected-read" in (str(o["result"]) + str(o.get("err"))) and got == ref[:len(got)]) else \
                "the interrupted read ended the search with %r and a stream that is not a prefix of the reference" % (o["result"],)
        else:
            why = sc.judge(fake, dict(o, out=expand(o["out"], inp)))
        if why:
            chk.violation(mech(r, v), {"why": why, "scenario": j, "reference": r["ref"], "observed": o, "driver": "replay_search"})
        else:
            chk.validated += 1
            body = [e for e in r["ref"] if e["k"] in ("match", "ctx")]
            if len(body) >= 2 or any(e["len"] > 2 for e in body):
                chk.nontrivial_case(json.dumps([r["scn"]["u"], r["scn"]["o"], r["scn"]["cfg"], r["scn"]["inp"], r["scn"]["stopAt"], r["scn"]["errAt"]], sort_keys=True))
            if len(chk.samples) < 3 and len(body) >= 2 and i % 911 == 0:
                chk.sample({"pattern": rr.render(r["scn"]["u"]), "input": rr.sym_bytes(r["scn"]["inp"]).decode("latin1"), "cfg": r["scn"]["cfg"], "events": r["ref"]})
    return recs


def main(tier):
    chk = vlib.Check("C13", tier)
    chk.rule = ("patterns: the family of specs/regex/MCGrepML.tla (literal terminator, ^, $, (?-m:^), \\b, \\B, empty matches, dot with "
                "and without dotall, lazy negated class crossing lines, \\W) x {plain, dotall, -w, -x} x all inputs over {a,b,LF} up to "
                "the bound x A,B x invert x passthru. Non-trivial: >= 2 delivered lines or a block spanning several lines; distinct by "
                "(pattern, options, config, input).")
    chk.assumptions = ["regex semantics as in specs/common/RegexSem.tla (validated against rg by C01 and C11)", "bounds: specs/regex/C13_*.cfg"]
    run(chk, "C13_quick" if tier == "quick" else "C13_deep")
    chk.exhaustive = True
    return chk.finish()


def replay(path):
    rec = json.load(open(path))
    j = rec["record"]["scenario"]
    o = vlib.run_driver("replay_search", [j])[0]
    inp = bytes(j["scn"]["inp"])
    fake = {"scn": j["scn"], "ref": expand(rec["record"]["reference"], inp), "reads": []}
    why = sc.judge(fake, dict(o, out=expand(o["out"], inp)))
    print(json.dumps({"pattern": j.get("pattern"), "input": inp.decode("latin1"), "cfg": j["scn"]["cfg"],
                      "reference": rec["record"]["reference"], "observed_now": o["out"], "why_now": why}, indent=1))
    if why:
        print("VIOLATION property=%s replay=%s" % (rec["property"], path))
        print("  " + why)
        return 1
    print("replay: property holds on this scenario now")
    return 0

"""C06: single-threaded and parallel traversal report the same entries, once each, and that set is
what the statement says (WalkModel.tla is the oracle)."""
import collections
import json
import os
import re
import shutil
import tempfile

import vlib

PID = "C06"
MODULE = "walk/MCWalkModel"
DRIVER = "replay_walk"
THREADS = [1, 2, 4, 16]
NPROC = 24      # driver processes (the parallel walker mostly sleeps while it terminates)

META = {
    "text": ("WalkModel.tla defines, for a tree of files/directories/symlinks (to a file, a directory, an ancestor = cycle, "
             "dangling; two devices) and an option record (max_depth, max_filesize, follow_links, same_file_system, an entry "
             "filter rejecting one name, a custom ignore file naming one entry, 1-2 roots incl. file and symlink roots), the "
             "set of (path, depth, is-error) entries a traversal must report. TLC (a) checks at design level that the "
             "transcribed skipping decisions of the serial walker (walkdir handle_entry + Walk::skip_entry/next) and of the "
             "parallel walker (generate_work + run_one) are equal and conform to the statement on all 288 entry shapes x 16 "
             "flag combinations, and that the pinned serial order (size verdict returned before the entry filter) is NOT; "
             "(b) generates every tree/roots/options scenario within the bounds together with the expected entries. Every "
             "scenario is materialised on disk (second device: /dev/shm) and walked by WalkBuilder::build() and by "
             "build_parallel() with 1, 2, 4 and 16 threads (plus a run with randomly perturbed scheduling through hook H2); "
             "each run must equal the expected multiset and the serial run must equal every parallel run."),
    "note": ("Error entries are compared by path only; the statement leaves open whether a dangling link under follow_links or "
             "a cycle link removed by a name rule yields an error (spec: 'may'). Depth-0 entries are never filtered. Bounds in "
             "specs/walk/C06_*.cfg. Unreadable directories are not modelled (the sandbox runs as root)."),
    "technique": "TLA+ functional model + design-level equivalence of two transcribed decision procedures, model-checked/"
                 "enumerated with TLC; scenario replay into the ignore crate's two walkers",
}

# Discrepancies between ripgrep and the property that are awaiting a decision (repair or known finding).
# serial_extra / serial_missing say how the single-threaded walker's result differs from the expected multiset and
# whether WalkModel's named deviations of the pinned serial walker (SerialDecision with kf = TRUE) predict exactly that.
_WHAT1 = ("serial walker: with max_filesize set, Walk::skip_entry returns the size verdict for a non-directory before consulting "
          "filter_entry, so a file rejected by the entry filter is still reported; the parallel walker applies both")
_WHAT2 = ("serial walker: with same_file_system set, an ignored/filtered directory on another device is answered with "
          "walkdir's skip_current_dir() although walkdir never entered it, which pops the PARENT directory: the remaining "
          "entries of the parent are not reported; the parallel walker reports them")
_WHAT3 = "serial walker: both of the above in one walk"
# findings are recorded in /verif/known_findings.jsonl (status known / fixed); nothing is pending here
PENDING_FINDINGS = []

OPT_NAMES = [("md", "max_depth"), ("fs", "max_filesize"), ("fl", "follow_links"), ("sfs", "same_file_system"),
             ("filt", "filter"), ("ignd", "ignore")]


# ---------------------------------------------------------------------------
# rendering of the spec's abstract values

def phys(tree, i):
    chain = []
    j = i
    while j:
        chain.append(j)
        j = tree[j - 1]["par"]
    top = chain[-1]
    return "@%d/" % tree[top - 1]["dev"] + "/".join("n%d" % k for k in reversed(chain))


def render(tree, roots, ent):
    """spec entry [r, p, e] -> comparison key (path, depth or None, is_err)"""
    p = ent["p"]
    path = phys(tree, roots[ent["r"] - 1])
    for j in p[1:]:
        path += "/n%d" % j
    if ent["e"]:
        return (path, None, 1)
    return (path, len(p) - 1, 0)


def obs_key(e):
    if e[2]:
        return (e[0], None, 1)
    return (e[0], e[1], 0)


def opts_set(o):
    res = []
    for k, name in OPT_NAMES:
        v = o[k]
        if k == "md":
            if v != 99:
                res.append(name)
        elif v:
            res.append(name)
    return res


def case_of(o):
    return {"md": -1 if o["md"] == 99 else o["md"], "fs": o["fs"], "fl": o["fl"], "sfs": o["sfs"],
            "filt": o["filt"], "ignd": o["ignd"], "ignt": o["ignt"], "igndir": o.get("igndir", False)}


# ---------------------------------------------------------------------------
# judging one case

def judge_case(rec, obs):
    """rec: record emitted by TLC; obs: the driver's observation of that case.
    Returns a list of (sig, detail) for every way the property's statement fails."""
    tree, roots, o = rec["t"], rec["r"], rec["o"]
    must = collections.Counter(render(tree, roots, e) for e in rec["must"])
    may = collections.Counter(render(tree, roots, e) for e in rec["may"])
    kf = collections.Counter(render(tree, roots, e) for e in rec["kf"]) if rec.get("kfdiff") else collections.Counter()
    lose = collections.Counter(render(tree, roots, e) for e in rec.get("lose", []))
    names = opts_set(o)
    base = {"opts": names}
    out = []
    if "hang_after" in obs:
        sig = dict(base, clause="loop", threads=-1, serial_extra="other", serial_missing="other")
        return [(sig, "a traversal did not end within the time limit (after run %s)" % obs["hang_after"])]
    runs = [(0, "serial", obs["serial"])]
    if "sorted" in obs:
        runs.append((0, "serial/sorted by name", obs["sorted"]))
    for n, r in sorted(obs.get("par", {}).items(), key=lambda kv: int(kv[0])):
        runs.append((int(n), "parallel/%s" % n, r))
    for n, r in sorted(obs.get("pert", {}).items(), key=lambda kv: int(kv[0])):
        runs.append((int(n), "parallel/%s perturbed" % n, r))
    cnt = {}
    for n, label, r in runs:
        cnt[label] = collections.Counter(obs_key(e) for e in r["ent"])
    ser = cnt["serial"]
    kf_extra = kf - must
    ser_bad = bool(obs["serial"].get("panic") or obs["serial"].get("runaway"))

    def classify(extra, missing, ser=ser):
        """How the serial result deviates (from the expectation or from a parallel run), and whether the spec's named
        deviations of the pinned serial walker (SerialDecision with kf = TRUE) explain it: extra entries must be among
        those the size-before-filter transcription adds (max_filesize and a filter set), missing entries among those the
        skip_current_dir-on-an-unpushed-directory transcription can lose (same_file_system set)."""
        if ser_bad:
            return {"serial_extra": "other", "serial_missing": "other"}
        e = ("none" if not extra else
             "kf_model" if (o["fs"] and o["filt"] and not (extra - kf_extra) and (lose or ser == kf)) else "other")
        m = ("none" if not missing else
             "unpushed_skip_model" if (o["sfs"] and not (missing - lose)) else "other")
        return {"serial_extra": e, "serial_missing": m}

    seen = set()

    def add(clause, n, why, extra=None):
        if (clause, n == 0) in seen:
            return
        seen.add((clause, n == 0))
        sig = dict(base, clause=clause, threads=n)
        sig.update(extra or classify((ser - must) - may, must - ser))
        out.append((sig, why))

    def own(label, c):
        """a single-threaded run is classified by its own deviation (the two of them may list in different orders)"""
        return classify((c - must) - may, must - c, ser=c) if label.startswith("serial") else None

    as_expected = {}
    for n, label, r in runs:
        c = cnt[label]
        if r.get("panic"):
            add("vs_expected", n, "%s: panic %s" % (label, r["panic"][:200]))
            as_expected[label] = False
            continue
        if r.get("runaway"):
            add("loop", n, "%s: traversal did not end (more than the cap of entries reported)" % label)
            as_expected[label] = False
            continue
        missing = must - c
        extra = c - must
        bad_extra = extra - may
        as_expected[label] = not missing and not bad_extra
        if missing or bad_extra:
            dup = [k for k in bad_extra if k in must or k in may]
            if dup and not missing and len(dup) == len(bad_extra):
                add("duplicate", n, "%s: reported more than once: %s" % (label, sorted(map(str, dup))[:4]), own(label, c))
            elif any(k[2] for k in missing) and all(k[2] for k in missing) and not bad_extra:
                add("loop", n, "%s: link cycle not reported as an error: %s" % (label, sorted(map(str, missing))[:4]), own(label, c))
            else:
                add("vs_expected", n, "%s: missing %s, unexpected %s" % (
                    label, sorted(map(str, missing))[:4], sorted(map(str, bad_extra))[:4]), own(label, c))
    for n, label, r in runs[1:]:
        if label.startswith("serial"):
            continue
        if cnt[label] != ser:
            add("serial_vs_parallel", n, "serial and %s differ: only serial %s, only parallel %s" % (
                label, sorted(map(str, ser - cnt[label]))[:4], sorted(map(str, cnt[label] - ser))[:4]),
                dict(classify(ser - cnt[label], cnt[label] - ser), parallel_as_expected=bool(as_expected.get(label))))
    return out


# ---------------------------------------------------------------------------
# driving

def make_jobs(recs, perturb_every=1, t16_every=1):
    """Group the emitted scenarios by (tree, roots) so that a tree is materialised once."""
    groups = collections.OrderedDict()
    for i, r in enumerate(recs):
        key = json.dumps([r["t"], r["r"]], sort_keys=True)
        groups.setdefault(key, []).append(i)
    jobs = []
    for gi, (key, idx) in enumerate(groups.items()):
        r0 = recs[idx[0]]
        # keep the jobs small enough to spread over the driver processes
        for s in range(0, len(idx), 64):
            part = idx[s:s + 64]
            jobs.append({"id": len(jobs), "nodes": r0["t"], "roots": r0["r"],
                         "cases": [case_of(recs[i]["o"]) for i in part],
                         "threads": THREADS if (gi % t16_every == 0) else [t for t in THREADS if t < 16],
                         "perturb": [4] if (gi % perturb_every == 0) else [],
                         "seed": vlib.seed(), "_idx": part})
    return jobs


def run_jobs(jobs, timeout=1500):
    """Run the driver; jobs skipped after a hang are resubmitted to a fresh process."""
    todo = list(jobs)
    results = {}
    for _round in range(20):
        if not todo:
            break
        send = [{k: v for k, v in j.items() if not k.startswith("_")} for j in todo]
        # trees with mount points need a private mount namespace for the driver
        need_ns = any(n.get("par") and n["dev"] != j["nodes"][n["par"] - 1]["dev"] for j in send for n in j["nodes"])
        outs = vlib.run_driver(DRIVER, send, timeout=timeout, parallel=NPROC, prefix=["unshare", "-m"] if need_ns else None)
        nxt = []
        progressed = False
        for j, o in zip(todo, outs):
            if o is None:
                raise vlib.ToolError("driver returned no result for job %s" % j["id"])
            if o.get("skipped"):
                nxt.append(j)
                continue
            progressed = True
            cases = o["cases"]
            if len(cases) < len(j["cases"]):
                # hang inside this job: the remaining cases go to a new job
                done = len(cases)
                rest = dict(j, cases=j["cases"][done:], _idx=j["_idx"][done:])
                if rest["cases"] and "hang_after" in cases[-1]:
                    nxt.append(rest)
            results[j["id"]] = results.get(j["id"], []) + list(zip(j["_idx"], cases))
        if not progressed:
            raise vlib.ToolError("driver makes no progress (every job skipped)")
        todo = nxt
    if todo:
        # every round ended in a traversal that never came back: those are reported (clause "loop"); the cases that could
        # not be run because of them are left unjudged
        nh = sum(1 for lst in results.values() for _, c in lst if "hang_after" in c)
        if nh < 5:
            raise vlib.ToolError("driver jobs left over after 20 rounds")
        results["__left"] = []
    flat = {}
    for lst in results.values():
        for i, c in lst:
            flat[i] = c
    return flat


def environment():
    """The binding reaches the second device through /dev/shm: refuse to judge anything if it is not one."""
    try:
        d1 = os.stat(tempfile.gettempdir()).st_dev
        d2 = os.stat("/dev/shm").st_dev
    except OSError as ex:
        raise vlib.ToolError("cannot stat the scratch locations: %s" % ex)
    if d1 == d2:
        raise vlib.ToolError("%s and /dev/shm are on the same device; the same_file_system scenarios need two"
                             % tempfile.gettempdir())
    if not os.access("/dev/shm", os.W_OK):
        raise vlib.ToolError("/dev/shm is not writable")


def sweep():
    """Remove scratch trees of driver processes that no longer exist (killed by a timeout)."""
    for base in (tempfile.gettempdir(), "/dev/shm"):
        try:
            names = os.listdir(base)
        except OSError:
            continue
        for n in names:
            m = re.match(r"c06-(\d+)-\d+$", n)
            if m and not os.path.exists("/proc/%s" % m.group(1)):
                shutil.rmtree(os.path.join(base, n), ignore_errors=True)


class State:
    def __init__(self):
        self.pending = collections.Counter()
        self.cats = collections.Counter()


def report(chk, st, sig, record):
    for pf in PENDING_FINDINGS:
        if vlib.sig_matches(pf["match"], sig):
            st.pending[pf["what"]] += 1
            return
    chk.violation(sig, record)


def categories(rec):
    t, roots, o = rec["t"], rec["r"], rec["o"]
    c = []
    if any(e["e"] for e in rec["must"]):
        c.append("cycle_error_expected")
    if rec["may"]:
        c.append("optional_error")
    if len(roots) > 1:
        c.append("two_roots")
    kinds = [t[r - 1]["kind"] for r in roots]
    if "file" in kinds:
        c.append("file_root")
    if "link" in kinds:
        c.append("link_root")
    if any(t[r - 1]["par"] for r in roots):
        c.append("nested_root")
    if any(n["kind"] == "link" and n["tgt"] == 0 for n in t):
        c.append("dangling_link")
    if any(n["kind"] == "link" and n["tgt"] and t[n["tgt"] - 1]["kind"] == "file" for n in t):
        c.append("link_to_file")
    if any(n["kind"] == "link" and n["tgt"] and t[n["tgt"] - 1]["kind"] == "dir" for n in t):
        c.append("link_to_dir")
    if any(n["kind"] == "link" and n["tgt"] and t[n["tgt"] - 1]["kind"] == "link" for n in t):
        c.append("link_to_link")
    if any(n["dev"] == 2 for n in t) and o["sfs"]:
        c.append("second_device_with_same_file_system")
    if any(n["kind"] == "dir" and not any(m["par"] == i + 1 for m in t) for i, n in enumerate(t)):
        c.append("empty_dir")
    if o["fs"] and o["filt"]:
        c.append("size_and_filter")
    if o.get("igndir"):
        c.append("dir_only_ignore_rule")
    if rec.get("kfdiff"):
        c.append("kf_model_predicts_serial_extra_entries")
    if rec.get("lose"):
        c.append("kf_model_predicts_possible_serial_loss")
    if rec.get("pruned"):
        c.append("options_prune_entries")
    depth = max(len(e["p"]) for e in rec["must"]) - 1
    if depth >= 3:
        c.append("depth_ge_3")
    return c


def nontrivial_key(rec):
    """Non-trivial: at least two options are set, at least three entries are expected, and the options
    change what is reported compared with the same walk without them (or a cycle error is expected)."""
    names = opts_set(rec["o"])
    if len(names) < 2 or len(rec["must"]) + len(rec["may"]) < 3:
        return None
    if not (rec.get("pruned") or any(e["e"] for e in rec["must"])):
        return None
    return json.dumps([rec["t"], rec["r"], rec["o"]], sort_keys=True)


def run_tlc(cfg, simulate=None, depth=None, timeout=900, workers=12, **_):
    return vlib.tlc(MODULE, cfg, workers=workers, timeout=timeout, simulate=simulate, depth=depth,
                    tlc_seed=(vlib.seed() + 1 if simulate else None))


def explore(chk, st, cfg, simulate=None, depth=None, timeout=900, perturb_every=1, t16_every=1, workers=12, res=None):
    if res is None:
        res = run_tlc(cfg, simulate=simulate, depth=depth, timeout=timeout, workers=workers)
    if res.rc != 0:
        raise vlib.ToolError("WalkModel: the repaired design does not satisfy the statement in %s (spec error):\n%s"
                             % (cfg, res.tail(60)))
    chk.add_tlc(res)
    recs = res.emits()
    if simulate:
        # the simulator reports no distinct-state count; every checked state is one evaluation of the invariants
        m = re.search(r"The number of states generated: (\d+)", res.out)
        if m:
            chk.states += int(m.group(1))
            chk.transitions += int(m.group(1))
        # simulation may pick the same scenario twice
        uniq = collections.OrderedDict()
        for r in recs:
            uniq.setdefault(json.dumps([r["t"], r["r"], r["o"]], sort_keys=True), r)
        recs = list(uniq.values())
    if not recs:
        raise vlib.ToolError("TLC emitted no scenario for %s:\n%s" % (cfg, res.tail(30)))
    jobs = make_jobs(recs, perturb_every, t16_every)
    vlib.log("[%s] %s: %d states, %d scenarios (%d driver jobs) in %.1fs" % (
        PID, cfg, res.distinct, len(recs), len(jobs), res.wall))
    obs = run_jobs(jobs, timeout=timeout)
    for i, rec in enumerate(recs):
        o = obs.get(i)
        if o is None:
            if any("hang_after" in v for v in obs.values()):
                continue            # not run: the driver kept hanging on other scenarios (which are reported)
            raise vlib.ToolError("no observation for scenario %d of %s" % (i, cfg))
        nruns = 1 + len(o.get("par", {})) + len(o.get("pert", {}))
        chk.evaluations += nruns
        bad = judge_case(rec, o)
        for c in categories(rec):
            st.cats[c] += 1
        if not bad:
            chk.validated += 1
        for sig, why in bad:
            report(chk, st, sig, {"why": why, "cfg": cfg, "scenario": rec, "observed": o, "driver": DRIVER})
        k = nontrivial_key(rec)
        if k:
            chk.nontrivial_case(k)
            if len(chk.samples) < 3 and len(rec["must"]) >= 5 and (len(chk.samples) == 0 or any(e["e"] for e in rec["must"])):
                chk.sample({"tree": rec["t"], "roots": rec["r"], "opts": rec["o"],
                            "expected": sorted(map(str, (render(rec["t"], rec["r"], e) for e in rec["must"]))),
                            "serial": sorted(map(str, (obs_key(e) for e in o["serial"]["ent"])))})
    return recs


def design(chk, st):
    """Design level: the two transcribed decisions on all entry shapes x flag combinations."""
    res = vlib.tlc(MODULE, "WalkDesign", workers=2, timeout=300)
    if res.rc != 0:
        raise vlib.ToolError("WalkModel design check failed: the repaired serial decision, the parallel decision and the "
                             "statement disagree (spec error):\n" + res.tail(40))
    chk.add_tlc(res)
    d = vlib.parse_emits(res.out, "DESIGN")
    if len(d) != 1:
        raise vlib.ToolError("design run did not emit its summary")
    d = d[0]
    if d["cex_fixed"]:
        raise vlib.ToolError("design counterexamples for the repaired decisions")
    # non-vacuity / mutant: the pinned order of Walk::skip_entry must be rejected by the same invariant
    mut = vlib.tlc(MODULE, "WalkDesign_kf", workers=2, timeout=300)
    chk.add_tlc(mut)
    if mut.rc != 12:
        raise vlib.ToolError("the design invariant does not reject the pinned serial walker's deviations (rc=%d)" % mut.rc)
    size = [x for x in d["cex_kf"] if x["f"]["fs"] and x["f"]["filt"] and x["a"]["named"]]
    cut = [x for x in d["cex_kf"] if x["cut"] and x["f"]["sfs"] and x["a"]["xdev"]]
    other = [x for x in d["cex_kf"] if x not in size and x not in cut]
    if other:
        raise vlib.ToolError("design counterexamples of the pinned serial walker outside the two named deviations: %r"
                             % other[:2])
    chk.extra["design_combinations"] = d["combos"]
    chk.extra["design_counterexamples_pinned_serial"] = {"size_verdict_before_filter": len(size),
                                                         "parent_cut_by_skip_current_dir": len(cut),
                                                         "total": len(d["cex_kf"])}
    chk.evaluations += d["combos"]
    vlib.log("[%s] design: %d entry-shape x flag combinations, repaired decisions agree and conform; pinned serial walker: "
             "%d counterexamples (%d size-before-filter, %d parent cut)" % (PID, d["combos"], len(d["cex_kf"]), len(size),
                                                                           len(cut)))


def main(tier):
    chk = vlib.Check(PID, tier)
    st = State()
    chk.rule = ("One scenario = (tree, roots, option record) generated by TLC from WalkModel; replayed on build() and on "
                "build_parallel() with 1/2/4/16 threads (+ a perturbed 4-thread run; quick tier: 16 threads on every third "
                "tree of the two exhaustive tiny-tree sets). Non-trivial: >= 2 options set, >= 3 "
                "expected entries, and the options change the reported set (or a cycle error is expected); distinct by "
                "(tree, roots, options).")
    chk.assumptions = [
        "file names are unique per tree (filter and ignore rule name one node each)",
        "device 2 is /dev/shm reached through symlinks; mount points inside a tree are not modelled",
        "error entries compared by path; unreadable directories, stdin ('-') roots and sorting are out of scope",
        "bounds: see specs/walk/C06_*.cfg; the random tier samples trees of 3-6 nodes (20 random option records each) with TLC -simulate",
        "TLC fingerprint collisions improbable",
    ]
    environment()
    vlib.hbin(DRIVER)
    if tier == "quick":
        # (the 16-thread run costs ~10 ms of sleeping per walk: in the quick tier the two exhaustive sets of tiny
        # trees get it on every third tree, everything else on every scenario)
        plan = [("C06_unit", dict(perturb_every=4, t16_every=3, workers=4)),
                ("C06_roots", dict(perturb_every=1, workers=2)),
                ("C06_dev", dict(perturb_every=4, t16_every=3, workers=3)),
                ("C06_mount", dict(perturb_every=4, t16_every=3, workers=2)),
                ("C06_ign4", dict(perturb_every=8, t16_every=8, workers=3)),
                ("C06_rand", dict(simulate=107, depth=12, perturb_every=1, workers=3))]   # simulate = traces per worker
    else:
        plan = [("C06_unit_deep", dict(perturb_every=1, workers=3)),
                ("C06_small", dict(perturb_every=2, workers=3)),
                ("C06_dev", dict(perturb_every=1, workers=3)),
                ("C06_mount", dict(perturb_every=1, workers=3)),
                ("C06_ign4", dict(perturb_every=2, t16_every=2, workers=3)),
                ("C06_deep", dict(perturb_every=4, t16_every=2, timeout=2400, workers=4)),
                ("C06_rand", dict(simulate=1067, depth=12, perturb_every=1, timeout=2400, workers=3))]
    # TLC runs of later sets overlap with the replay of earlier ones (three at a time + the design run: <= 12 TLC workers)
    import concurrent.futures as cf
    with cf.ThreadPoolExecutor(max_workers=3) as pool:
        futs = [(cfg, kw, pool.submit(run_tlc, cfg, **kw)) for cfg, kw in plan]
        design(chk, st)
        for cfg, kw, fut in futs:
            explore(chk, st, cfg, res=fut.result(), **kw)
    sweep()
    chk.exhaustive = True
    chk.extra["categories"] = dict(st.cats)
    chk.extra["pending_findings_hit"] = dict(st.pending)
    for what, n in sorted(st.pending.items()):
        print("KNOWN-FINDING: property=%s %s (seen %d times)" % (PID, what, n))
    return chk.finish()


def replay(path):
    rec = json.load(open(path))
    r = rec["record"]
    scn = r["scenario"]
    environment()
    job = {"id": 0, "nodes": scn["t"], "roots": scn["r"], "cases": [case_of(scn["o"])], "threads": THREADS,
           "perturb": [4], "seed": vlib.seed()}
    need_ns = any(n.get("par") and n["dev"] != scn["t"][n["par"] - 1]["dev"] for n in scn["t"])
    out = vlib.run_driver(DRIVER, [job], prefix=["unshare", "-m"] if need_ns else None)[0]
    o = out["cases"][0]
    bad = judge_case(scn, o)
    # deviations that are pending / known findings are not violations
    known = [k.get("match", {}) for k in vlib.load_known() if k.get("property") == PID and k.get("status") == "known"]
    bad = [(s, w) for s, w in bad
           if not any(vlib.sig_matches(m, s) for m in [pf["match"] for pf in PENDING_FINDINGS] + known)]
    print(json.dumps({"scenario": {"tree": scn["t"], "roots": scn["r"], "opts": scn["o"]},
                      "expected_must": sorted(map(str, (render(scn["t"], scn["r"], e) for e in scn["must"]))),
                      "expected_may": sorted(map(str, (render(scn["t"], scn["r"], e) for e in scn["may"]))),
                      "observed_now": o, "why_then": r.get("why")}, indent=1))
    want = rec["sig"].get("clause")
    hit = [(s, w) for s, w in bad if s["clause"] == want] or bad
    if hit:
        print("VIOLATION property=%s replay=%s" % (rec["property"], path))
        for s, w in hit[:3]:
            print("  [%s threads=%s] %s" % (s["clause"], s["threads"], w))
        return 1
    print("replay: property holds on this scenario now")
    return 0

"""C12: a glob set answers like its member globs; globs mean what is documented.

TLC enumerates glob *character strings* (and longer strings built from token texts) x option
records, parses them with Glob!Parse and predicts, for whole path universes, which paths match
(Glob!Matches, evaluated through a derivative automaton that TLC cross-checks against the
reference matcher).  The driver harness/src/bin/replay_glob.rs builds the real globs, evaluates
Glob::compile_matcher().is_match and GlobSets (singletons, all pairs of a batch, k-subsets) on every
path and reports digests / disagreements; this module only compares and, before reporting,
has TLC confirm every concrete (glob, path) it is about to blame (specs/glob/GlobEval.tla).
"""
import concurrent.futures as cf
import json
import os
import random
import tempfile
import threading
import time

import vlib

META = {
    "text": "TLC enumerates every glob character string up to the bound over {a b . / - * ? [ ] ! { } , \\} and longer "
            "strings built from token texts, under the option flags that matter for the string; the TLA+ specification "
            "Glob (Parse + Matches: the documented syntax) predicts ok/error and the exact set of matching paths among "
            "ALL paths over {a b . / - A} up to the length bound (plus a universe with the meta characters as path bytes "
            "and TLC-chosen random longer paths containing a non-UTF-8 byte). The real GlobBuilder/GlobMatcher and "
            "GlobSets built from singletons, all pairs of each batch and random k-subsets must agree path by path: "
            "GlobSet::matches* == exactly the members the specification says match. GlobStrategy (the seven strategies "
            "transcribed) is model-checked against Matches as a design-level theorem.",
    "note": "Bytes, not Unicode scalars (ASCII alphabet + 0xFF); one level of alternates; Unix separators; pairs/k-subsets are "
            "sampled (seeded), singletons exhaustive within bounds (specs/glob/C12_*.cfg). Error *class* is informational, "
            "ok/error is compared.",
    "technique": "TLA+ functional specification enumerated by TLC (scenario + oracle) + replay into globset; design-level "
                 "equivalence check of an implementation-shaped strategy model",
}

# Discrepancies between ripgrep and the property that are reported to the coordinator instead of
# failing the check (see the brief); everything else is a VIOLATION.
# findings are recorded in /verif/known_findings.jsonl (status known / fixed); nothing is pending here
PENDING_FINDINGS = []

BATCH = 8
P = 32749


def _txt(bs):
    return bytes(bs).decode("latin1")


def _opts(o):
    return "ci=%d,ls=%d,be=%d,ea=%d" % (o["ci"], o["ls"], o["be"], o["ea"])


def _sum3(levels):
    n = s1 = s2 = 0
    for lv in levels:
        n += lv[0]
        s1 = (s1 + lv[1]) % P
        s2 = (s2 + lv[2]) % P
    return [n, s1, s2]


class Ctx:
    def __init__(self, chk):
        self.chk = chk
        self.pending = {}
        self.stats = {}
        self.to_confirm = []      # (kind, payload) needing a TLC verdict on concrete paths
        self.info = {"error_class_mismatch": 0}

    def count(self, k, n=1):
        self.stats[k] = self.stats.get(k, 0) + n

    def report(self, sig, record):
        for pf in PENDING_FINDINGS:
            if vlib.sig_matches(pf["match"], sig):
                self.pending[pf["what"]] = self.pending.get(pf["what"], 0) + 1
                return False
        return self.chk.violation(sig, record)


# ---------------------------------------------------------------------------
# TLC side

class Budget:
    """At most `n` TLC workers at any time over all concurrently running TLC processes."""

    def __init__(self, n):
        self.n = n
        self.cv = threading.Condition()

    def take(self, k):
        with self.cv:
            while self.n < k:
                self.cv.wait()
            self.n -= k

    def give(self, k):
        with self.cv:
            self.n += k
            self.cv.notify_all()


TLC_WORKERS = Budget(12)


def budgeted_tlc(module, cfg, workers, **kw):
    TLC_WORKERS.take(workers)
    try:
        # several JVMs run side by side: keep their GC thread pools small
        env = dict(kw.pop("env", None) or {})
        env.setdefault("JAVA_TOOL_OPTIONS", "-Xss1g -XX:ParallelGCThreads=%d -XX:CICompilerCount=2" % max(2, min(workers, 4)))
        return vlib.tlc(module, cfg, workers=workers, env=env, **kw)
    finally:
        TLC_WORKERS.give(workers)


def run_tlc(cfg, workers, timeout):
    res = budgeted_tlc("glob/MCGlob", cfg, workers, timeout=timeout, tlc_seed=vlib.seed() or None, xmx="6g")
    if res.rc != 0:
        raise vlib.ToolError("TLC reported an error in %s:\n%s" % (cfg, res.tail(40)))
    return res


def oracle(cases, timeout=900):
    """Ask the specification (GlobEval.tla) about concrete cases; returns one record per case."""
    if not cases:
        return [], None
    fd, path = tempfile.mkstemp(prefix="c12cases", suffix=".ndjson")
    try:
        with os.fdopen(fd, "wb") as f:
            f.write(vlib.ndjson([{"chars": c["chars"], "o": c["o"], "paths": c.get("paths", []),
                                  "full": c.get("full", 0), "alpha": c.get("alpha", []), "len": c.get("len", 0)}
                                 for c in cases]))
        res = vlib.tlc("glob/GlobEval", "GlobEval", workers=1, timeout=timeout, env={"C12_CASES": path})
    finally:
        os.unlink(path)
    if res.rc != 0:
        raise vlib.ToolError("GlobEval failed:\n" + res.tail(40))
    out = {r["i"]: r for r in res.emits()}
    if len(out) != len(cases):
        raise vlib.ToolError("GlobEval answered %d of %d cases" % (len(out), len(cases)))
    return [out[i + 1] for i in range(len(cases))], res


# ---------------------------------------------------------------------------
# scenarios for the driver

def make_batches(recs, hdr, rng, tag, pairs=True):
    """Group the emitted globs into batches for the driver (seeded).

    Every scenario goes into exactly one *mixed* batch (random members: mixed strategies and options
    in one GlobSet: index merging across strategy tables).  Scenarios that get one of the literal
    shortcut strategies are additionally batched with others of the *same* strategy, so that nested
    literals / equal keys meet inside one strategy table."""
    recs = sorted(recs, key=lambda r: (r["chars"], _opts(r["o"])))
    rng.shuffle(recs)
    groups = [("mix", recs)]
    if pairs:
        by = {}
        for r in recs:
            k = r.get("strat")
            if k and k != "regex":
                by.setdefault(k, []).append(r)
        for k in sorted(by):
            groups.append((k, by[k][:400] if k == "literal" else by[k]))
    batches = []
    for gname, rs in groups:
        for bi in range(0, len(rs), BATCH):
            part = rs[bi:bi + BATCH]
            n = len(part)
            if gname != "mix" and n < 2:
                continue
            ksets = [list(range(n))]
            if n >= 3:
                for _ in range(2):
                    k = rng.randint(3, min(n, 7))
                    ksets.append([rng.randrange(n) for _ in range(k)])     # unsorted, repetitions allowed
            extra = []
            for r in part:
                for c in r.get("rnd", [])[:2]:
                    if c["p"] not in extra:
                        extra.append(c["p"])
            extra = extra[:12]
            scn = {"id": "%s/%s/%d" % (tag, gname, len(batches)), "alpha": hdr["alpha"], "len": hdr["len"],
                   "malpha": hdr["malpha"] if hdr["mlen"] else [], "mlen": hdr["mlen"],
                   "pairs": pairs, "pairs_len": min(hdr["len"], 3), "ksets": ksets if pairs else [], "extra_paths": extra,
                   "globs": [{"chars": r["chars"], "o": r["o"], "rnd": [c["p"] for c in r.get("rnd", [])]} for r in part]}
            batches.append((scn, part, gname == "mix"))
    return batches


# ---------------------------------------------------------------------------
# judging

def glob_desc(r):
    return {"glob": _txt(r["chars"]), "chars": r["chars"], "o": r["o"]}


def judge_batch(ctx, cfg, hdr, scn, part, out, primary=True):
    chk = ctx.chk
    if len(out["globs"]) != len(part):
        raise vlib.ToolError("driver answered %d globs for %d" % (len(out["globs"]), len(part)))
    npaths = (len(hdr["alpha"]) ** (hdr["len"] + 1) - 1) // (len(hdr["alpha"]) - 1)
    for gi, (r, d) in enumerate(zip(part, out["globs"]) if primary else []):
        chk.evaluations += 1
        ctx.count("globs")
        want_err, lerr = r["err"], r["lerr"]
        built = d["build"] == "ok"
        base = {"strategy": r.get("strat", "none"), "opts": _opts(r["o"])}
        if d["build"] == "panic" or d.get("panic"):
            ctx.report(dict(base, clause="documented_meaning", mechanism="panic", path_ends_with_dot=False),
                       {"what": "parse", "why": "panic while building or matching", "globs": [glob_desc(r)],
                        "expect": want_err, "observed": "panic"})
            continue
        if want_err == "" and not built:
            ctx.report(dict(base, clause="documented_meaning", mechanism="valid_glob_rejected", path_ends_with_dot=False),
                       {"what": "parse", "why": "the documented syntax accepts this glob, build() returned an error",
                        "globs": [glob_desc(r)], "expect": "", "observed": d["build"]})
            continue
        if want_err != "":
            if not built:
                if d["build"] not in (want_err, lerr):
                    ctx.info["error_class_mismatch"] += 1
                ctx.count("error_globs")
                ctx.count("err:" + want_err)
                chk.validated += 1
                continue
            if want_err == "unopened_alternates":
                ctx.report(dict(base, clause="documented_meaning", mechanism="unopened_alternates_accepted",
                                path_ends_with_dot=False),
                           {"what": "parse", "why": "'}' without '{' is documented as ErrorKind::UnopenedAlternates; build() accepted the glob",
                            "globs": [glob_desc(r)], "expect": want_err, "observed": "ok"})
                if lerr != "":
                    ctx.report(dict(base, clause="documented_meaning", mechanism="invalid_glob_accepted", path_ends_with_dot=False),
                               {"what": "parse", "why": "build() accepted a glob the documented syntax rejects",
                                "globs": [glob_desc(r)], "expect": lerr, "observed": "ok"})
                    continue
                # go on: the rest of the behaviour is compared under the named deviation
            else:
                ctx.report(dict(base, clause="documented_meaning", mechanism="invalid_glob_accepted", path_ends_with_dot=False),
                           {"what": "parse", "why": "build() accepted a glob the documented syntax rejects",
                            "globs": [glob_desc(r)], "expect": want_err, "observed": "ok"})
                continue
        # ---- a valid glob: behaviour on the universes
        ctx.count("valid_globs")
        ctx.count("strat:" + r["strat"])
        ctx.count("opts:" + _opts(r["o"]))
        for k in r.get("kinds", []):
            ctx.count("token:" + k)
        ctx.count("random_long_paths", len(r.get("rnd", [])))
        ctx.count("random_long_paths_matching", sum(1 for c in r.get("rnd", []) if c["m"]))
        ctx.count("random_long_paths_not_utf8", sum(1 for c in r.get("rnd", []) if 255 in c["p"]))
        chk.evaluations += npaths
        bad = False
        for a in d.get("api", []):
            bad = True
            ctx.report(dict(base, clause="set_vs_members", mechanism="entry_points_disagree",
                            path_ends_with_dot=bool(a["p"]) and a["p"][-1] == 46, direction="api"),
                       {"what": "api", "why": a["what"], "globs": [glob_desc(r)], "path": a["p"]})
        m_ok = d["m"] == r["dig"] and (not r["mdig"] or _sum3(d["mm"]) == r["mdig"])
        s_ok = d["s"] == r["dig"] and (not r["mdig"] or _sum3(d["ms"]) == r["mdig"])
        for i, c in enumerate(r.get("rnd", [])):
            if d["rnd_m"][i] != c["m"]:
                bad = True
                ctx.to_confirm.append({"kind": "match", "r": r, "path": c["p"], "m": d["rnd_m"][i], "s": d["rnd_s"][i]})
            elif d["rnd_s"][i] != c["m"]:
                bad = True
                ctx.to_confirm.append({"kind": "match", "r": r, "path": c["p"], "m": d["rnd_m"][i], "s": d["rnd_s"][i]})
            chk.evaluations += 1
        if not m_ok:
            bad = True
            ctx.to_confirm.append({"kind": "digest", "r": r, "hdr": hdr, "d": {k: d[k] for k in ("m", "s", "mm", "ms")}})
        r["_m_ok"] = m_ok
        r["_hdr"] = hdr
        if d["ndiff"]:
            bad = True
            for x in d["diff"]:
                ctx.to_confirm.append({"kind": "match", "r": r, "path": x["p"], "m": x["m"], "s": x["s"]})
            ctx.count("globs_where_singleton_set_differs_from_matcher")
            ctx.count("paths_where_singleton_set_differs_from_matcher", d["ndiff"])
            ctx.count("...of which the path ends in '.'", d["ndiff_dot"])
        elif not s_ok and m_ok:
            raise vlib.ToolError("driver inconsistency: set digest differs but no differing path reported: %r" % glob_desc(r))
        # strategy model: design theorem and transcription drift (information, never a verdict)
        if r.get("srep"):
            sr = r["srep"]
            ctx.count("strategy_model_globs")
            ctx.count("strategy_model_design_deviations_asis", sr[1])
            if sr[1]:
                ctx.count("strategy_model_globs_deviating_asis")
            if sr[2]:
                ctx.count("strategy_model_deviations_asis_not_dot", sr[2])
            if sr[0] and s_ok:
                raise vlib.ToolError("model drift: GlobStrategy claims strategy %s is inexact for %r under the repaired file name, "
                                     "the real GlobSet agrees with the documented meaning" % (r["strat"], glob_desc(r)))
            if _sum3(d["s"]) != sr[3:6]:
                ctx.count("strategy_model_drift")
        if not bad:
            chk.validated += 1
            total = sum(lv[0] for lv in r["dig"])
            if 0 < total < npaths and any(c in r["chars"] for c in (42, 63, 91, 123)):
                chk.nontrivial_case((_txt(r["chars"]), _opts(r["o"])))
                if r["strat"] != "regex" and len(r["chars"]) >= 3:
                    chk.sample({"glob": _txt(r["chars"]), "opts": _opts(r["o"]), "strategy": r["strat"],
                                "matching_paths_per_length": [lv[0] for lv in r["dig"]], "cfg": cfg}, limit=3)
    # ---- glob sets
    ctx.count("sets", out["nsets"])
    ctx.count("set_path_evaluations", out["set_paths"])
    ctx.count("set_path_evaluations_with_a_match", out["set_hits"])
    chk.evaluations += out["set_paths"]
    nbadsets = 0
    for s in out["sets"]:
        members = [part[i] for i in s["members"]]
        if s["build"] != "ok":
            nbadsets += 1
            ctx.report({"clause": "set_vs_members", "mechanism": "set_build_failed", "strategy": "n/a",
                        "path_ends_with_dot": False, "opts": "n/a", "direction": "build"},
                       {"what": "set", "why": "GlobSetBuilder::build failed: " + s["build"],
                        "globs": [glob_desc(m) for m in members], "path": [], "expect": [], "observed": s["build"]})
            continue
        if s["nbad"]:
            nbadsets += 1
        for a in s.get("api", []):
            ctx.report({"clause": "set_vs_members", "mechanism": "entry_points_disagree", "strategy": "n/a",
                        "path_ends_with_dot": bool(a["p"]) and a["p"][-1] == 46, "opts": "n/a", "direction": "api"},
                       {"what": "api", "why": a["what"], "globs": [glob_desc(m) for m in members], "path": a["p"]})
        for b in s["bad"]:
            ctx.to_confirm.append({"kind": "set", "members": members, "path": b["p"], "got": b["got"], "want": b["want"]})
            ctx.count("set_disagreements_reported")
    chk.validated += out["nsets"] - nbadsets


def confirm(ctx):
    """Every concrete (glob, path) about to be blamed is first decided by TLC (GlobEval)."""
    chk = ctx.chk
    items = ctx.to_confirm
    ctx.to_confirm = []
    if not items:
        return
    # 1. digest mismatches: find concrete paths through the full sets (at most a few globs)
    dig = [x for x in items if x["kind"] == "digest"]
    others = [x for x in items if x["kind"] != "digest"]
    if dig:
        ctx.count("digest_mismatches", len(dig))
        seen = set()
        todo = []
        for x in dig:
            key = (tuple(x["r"]["chars"]), _opts(x["r"]["o"]))
            if key not in seen and len(todo) < 40:
                seen.add(key)
                todo.append(x)
        for univ in ("main", "meta"):
            scns, cases, sel = [], [], []
            for x in todo:
                r, hdr = x["r"], x["hdr"]
                if univ == "main" and x["d"]["m"] == r["dig"]:
                    continue
                if univ == "meta" and (not r["mdig"] or _sum3(x["d"]["mm"]) == r["mdig"]):
                    continue
                alpha, ln = (hdr["alpha"], hdr["len"]) if univ == "main" else (hdr["malpha"], hdr["mlen"])
                scns.append({"id": len(scns), "mode": "full", "alpha": alpha, "len": ln, "malpha": [], "mlen": 0,
                             "globs": [{"chars": r["chars"], "o": r["o"], "rnd": []}]})
                cases.append({"chars": r["chars"], "o": r["o"], "paths": [], "full": 1, "alpha": alpha, "len": ln})
                sel.append((x, alpha))
            if not scns:
                continue
            outs = vlib.run_driver("replay_glob", scns)
            ans, res = oracle(cases)
            chk.add_tlc(res)
            for (x, alpha), o, a in zip(sel, outs, ans):
                got = set(o["globs"][0]["full_m"])
                want = set(a["nums"])
                delta = sorted(got ^ want)
                if not delta:
                    raise vlib.ToolError("digest mismatch without a differing path (digest arithmetic?) for %r" % glob_desc(x["r"]))
                paths = [unnum(n, alpha) for n in delta]
                paths.sort(key=lambda p: (bool(p) and p[-1] == 46, len(p)))
                for p in paths[:3]:
                    n = num(p, alpha)
                    others.append({"kind": "match", "r": x["r"], "path": p, "m": n in got, "s": n in set(o["globs"][0]["full_s"])})
    # 2. the specification's answer for every concrete (glob, path): where the real matcher's digest over
    #    the whole universe equals TLC's prediction, the matcher's answer on a path of that universe *is*
    #    the prediction; everything else (and a sample of those, as a cross-check) is asked from TLC.
    def implied(r, p):
        hdr = r.get("_hdr")
        return bool(r.get("_m_ok")) and hdr is not None and len(p) <= hdr["len"] and all(c in hdr["alpha"] for c in p)

    cases, index = [], {}
    budget = [300]

    def want_case(r, p, known):
        key = (tuple(r["chars"]), _opts(r["o"]), tuple(p))
        if key in index:
            return index[key]
        if known and budget[0] <= 0:
            return None
        if known:
            budget[0] -= 1
        index[key] = len(cases)
        cases.append({"chars": r["chars"], "o": r["o"], "paths": [p]})
        return index[key]

    for x in others:
        if x["kind"] == "match":
            x["_case"] = want_case(x["r"], x["path"], implied(x["r"], x["path"]))
        else:
            x["_case"] = [want_case(m, x["path"], implied(m, x["path"])) for m in x["members"]]
    ans, res = oracle(cases)
    if res is not None:
        chk.add_tlc(res)
    ctx.count("confirmations_by_tlc", len(cases))

    def expected(r, p, ci, observed_m):
        """The specification's verdict for (r, p); observed_m = the real matcher's answer."""
        if ci is not None:
            a = ans[ci]
            if a["lerr"] != "":
                raise vlib.ToolError("oracle rejects a glob the generator accepted: %r" % glob_desc(r))
            if implied(r, p) and a["m"][0] != observed_m:
                raise vlib.ToolError("digest agreement but TLC disagrees on a path of the universe (digest collision?): %r %r"
                                     % (glob_desc(r), p))
            return a["m"][0]
        ctx.count("confirmations_implied_by_digest")
        return observed_m

    for x in others:
        p = x["path"]
        dot = bool(p) and p[-1] == 46
        if x["kind"] == "match":
            r = x["r"]
            exp = expected(r, p, x["_case"], x["m"])
            base = {"strategy": r.get("strat"), "opts": _opts(r["o"]), "path_ends_with_dot": dot}
            if x["m"] != exp:
                ctx.report(dict(base, clause="documented_meaning", mechanism="matcher_differs_from_documented_meaning",
                                direction="accepts" if x["m"] else "rejects"),
                           {"what": "match", "why": "Glob::compile_matcher().is_match differs from the documented meaning",
                            "globs": [glob_desc(r)], "path": p, "path_text": _txt(p), "expect": exp, "observed": x["m"]})
            if x["s"] != x["m"]:
                ctx.report(dict(base, clause="set_vs_members", mechanism="singleton_set",
                                direction="set_misses_member" if x["m"] else "set_reports_non_member"),
                           {"what": "set", "why": "GlobSet of this one glob answers differently from the glob's own matcher",
                            "globs": [glob_desc(r)], "path": p, "path_text": _txt(p), "expect": [0] if x["m"] else [],
                            "observed": [0] if x["s"] else [], "documented_meaning": exp})
        else:
            members = x["members"]
            exps = [expected(m, p, ci, k in x["want"]) for k, (m, ci) in enumerate(zip(members, x["_case"]))]
            exp_pos = [k for k, e in enumerate(exps) if e]
            got = x["got"]
            want = x["want"]          # the members whose own matcher accepts the path
            rec = {"what": "set", "globs": [glob_desc(m) for m in members], "path": p, "path_text": _txt(p),
                   "expect": want, "observed": got, "documented_meaning": exp_pos}
            for k in sorted(set(want) ^ set(exp_pos)):
                m = members[k]
                ctx.report({"clause": "documented_meaning", "mechanism": "matcher_differs_from_documented_meaning",
                            "strategy": m.get("strat"), "opts": _opts(m["o"]), "path_ends_with_dot": dot,
                            "direction": "accepts" if k in want else "rejects"},
                           {"what": "match", "why": "Glob::compile_matcher().is_match differs from the documented meaning",
                            "globs": [glob_desc(m)], "path": p, "path_text": _txt(p), "expect": exps[k], "observed": k in want})
            if got != want:
                diff = sorted(set(got) ^ set(want))
                if not diff:      # same members, wrong order or repetition
                    ctx.report({"clause": "set_vs_members", "mechanism": "order_or_duplicates", "strategy": "n/a",
                                "opts": "n/a", "path_ends_with_dot": dot, "direction": "order"},
                               dict(rec, why="GlobSet::matches is not the ascending duplicate-free list of matching members"))
                for k in diff:
                    if k >= len(members):
                        ctx.report({"clause": "set_vs_members", "mechanism": "index_out_of_range", "strategy": "n/a",
                                    "opts": "n/a", "path_ends_with_dot": dot, "direction": "set_reports_non_member"},
                                   dict(rec, why="GlobSet::matches returned an index that is not a member"))
                        continue
                    m = members[k]
                    ctx.report({"clause": "set_vs_members", "mechanism": "set_of_%d" % min(len(members), 3),
                                "strategy": m.get("strat"), "opts": _opts(m["o"]), "path_ends_with_dot": dot,
                                "direction": "set_misses_member" if k in want else "set_reports_non_member"},
                               dict(rec, why="GlobSet::matches differs from the members that match individually (member %d)" % k))


def num(p, alpha):
    n = 0
    for c in p:
        n = n * (len(alpha) + 1) + alpha.index(c) + 1
    return n


def unnum(n, alpha):
    p = []
    b = len(alpha) + 1
    while n:
        p.append(alpha[n % b - 1])
        n //= b
    return p[::-1]


# ---------------------------------------------------------------------------

PLAN = {
    # cfg, TLC workers, driver processes, pairs
    "quick": [("C12_quick_chars4", 3, 6, False), ("C12_quick_toks", 3, 5, True), ("C12_quick_chars", 2, 5, True),
              ("C12_quick_strat", 2, 2, False), ("C12_quick_stratci", 2, 2, False), ("C12_quick_alts", 1, 2, True)],
    "thorough": [("C12_deep_chars5", 4, 8, False), ("C12_deep_toks", 4, 8, True), ("C12_deep_chars", 4, 8, True),
                 ("C12_deep_toks2", 2, 4, True), ("C12_deep_alts", 2, 4, True), ("C12_deep_strat", 2, 2, False), ("C12_quick_stratci", 2, 2, False),
                 ("C12_deep_chars_p6", 2, 6, False), ("C12_deep_toks_p6", 2, 6, False)],
}
SELF = {"quick": [("C12_quick_self", 1)], "thorough": [("C12_deep_self", 2), ("C12_deep_self2", 2)]}


def explore(cfg, workers, procs, pairs, timeout):
    """One TLC run and the replay of everything it emitted."""
    res = run_tlc(cfg, workers, timeout)
    hdrs = res.emits("HDR")
    if len(hdrs) != 1:
        raise vlib.ToolError("%s: expected one header record, got %d" % (cfg, len(hdrs)))
    hdr = hdrs[0]
    recs, seen = [], set()
    for r in res.emits():          # the same string can be composed from different words
        key = (tuple(r["chars"]), _opts(r["o"]))
        if key not in seen:
            seen.add(key)
            recs.append(r)
    vlib.log("[C12] %s: %d states, %d glob scenarios in %.1fs" % (cfg, res.distinct, len(recs), res.wall))
    rng = random.Random(vlib.seed() * 1000003 + sum(map(ord, cfg)))
    batches = make_batches(recs, hdr, rng, cfg, pairs=pairs)
    t0 = time.time()
    outs = vlib.run_driver("replay_glob", [b[0] for b in batches], parallel=procs, timeout=timeout)
    vlib.log("[C12] %s: %d batches replayed in %.1fs" % (cfg, len(batches), time.time() - t0))
    return cfg, res, hdr, batches, outs


def selfcheck(cfg, workers, timeout):
    res = budgeted_tlc("glob/MCGlob", cfg, workers, timeout=timeout)
    if res.rc != 0:
        raise vlib.ToolError("specification self-check failed (%s): the derivative/digest evaluation, the numbering or the "
                             "design-level strategy theorem disagrees with the reference matcher:\n%s" % (cfg, res.tail(60)))
    vlib.log("[C12] %s: self-check of the specification passed (%d globs, %.1fs)" % (cfg, res.distinct, res.wall))
    return res


def main(tier):
    chk = vlib.Check("C12", tier)
    chk.rule = ("TLC enumerates every glob string of the cfg's word alphabet up to the word bound x every option record that "
                "matters for it; for each, the driver evaluates the real matcher and GlobSets on all paths of the universe. "
                "Non-trivial: a valid glob containing a wildcard, class or alternate whose predicted matching set is neither "
                "empty nor the whole universe, replayed and agreeing; distinct by (glob text, options).")
    chk.assumptions = ["characters are bytes; alphabet and bounds as in specs/glob/C12_*.cfg",
                       "digest comparison per path length: exact count, sum and sum of squares of the path numbers mod 32749",
                       "pairs and k-subsets of globs are sampled by a seeded shuffle, singleton sets are exhaustive",
                       "TLC fingerprint collisions improbable"]
    vlib.hbin("replay_glob")
    ctx = Ctx(chk)
    timeout = 900 if tier == "quick" else 3000
    with cf.ThreadPoolExecutor(max_workers=12) as ex:
        futs = [ex.submit(explore, cfg, w, p, pairs, timeout) for cfg, w, p, pairs in PLAN[tier]]
        sfuts = [ex.submit(selfcheck, cfg, w, timeout) for cfg, w in SELF[tier]]
        for f in sfuts:
            chk.add_tlc(f.result())
        for f in futs:
            cfg, res, hdr, batches, outs = f.result()
            chk.add_tlc(res)
            before = chk.validated
            for (scn, part, primary), out in zip(batches, outs):
                judge_batch(ctx, cfg, hdr, scn, part, out, primary)
            ctx.stats["validated:" + cfg] = chk.validated - before
    t0 = time.time()
    confirm(ctx)
    vlib.log("[C12] confirmations by TLC in %.1fs" % (time.time() - t0))
    chk.extra["counts"] = dict(sorted(ctx.stats.items()))
    chk.extra["pending_findings_hit"] = ctx.pending
    chk.extra["error_class_mismatches_informational"] = ctx.info["error_class_mismatch"]
    chk.exhaustive = True
    for what, n in sorted(ctx.pending.items()):
        print("KNOWN-FINDING: property=C12 %s (seen %d times)" % (what, n))
    return chk.finish()


# ---------------------------------------------------------------------------

def replay(path):
    rec = json.load(open(path))
    r = rec["record"]
    globs = r["globs"]
    p = r.get("path", [])
    scn = {"id": 0, "alpha": [], "len": 0, "malpha": [], "mlen": 0, "pairs": False, "verbose": True,
           "ksets": [list(range(len(globs)))], "extra_paths": [p],
           "globs": [{"chars": g["chars"], "o": g["o"], "rnd": []} for g in globs]}
    out = vlib.run_driver("replay_glob", [scn])[0]
    fails = None
    if r["what"] == "parse":
        obs = out["globs"][0]["build"]
        ok_now = (obs == "ok") == (r["expect"] == "")
        fails = None if ok_now else "build() gives %r, the documented syntax says %r" % (obs, r["expect"] or "ok")
    elif r["what"] == "match":
        g = out["globs"][0]
        obs = g["extra_m"][0] if g["build"] == "ok" else g["build"]
        fails = None if obs == r["expect"] else "is_match(%r) = %r, documented meaning %r" % (_txt(p), obs, r["expect"])
    elif r["what"] == "set":
        sets = [s for s in out["sets"] if s["kind"] == "kset"]
        if not sets or sets[0].get("build") != "ok":
            fails = "the glob set could not be built"
        else:
            ans = [a for a in sets[0]["answers"] if a["p"] == p]
            obs = ans[0]["got"] if ans else None
            fails = None if obs == r["expect"] else "GlobSet::matches(%r) = %r, members that match: %r" % (_txt(p), obs, r["expect"])
    elif r["what"] == "api":
        sets = [s for s in out["sets"] if s["kind"] == "kset"]
        api = (sets[0].get("api") if sets else []) or [a for g in out["globs"] for a in g.get("api", [])]
        fails = api[0]["what"] if api else None
    print(json.dumps({"record": r, "observed_now": out}, indent=1)[:6000])
    if fails:
        print("VIOLATION property=%s replay=%s" % (rec["property"], path))
        print("  " + fails)
        return 1
    print("replay: property holds on this scenario now")
    return 0

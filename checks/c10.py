"""C10: all reporting modes agree with each other."""
import json
import re

import regexrender as rr
import rgrun
import vlib

META = {
    "text": "TLC computes per (pattern, options) and catalogue line whether the line is selected and its successive matches (Printer.tla). The catalogue is split over several files (with and without a final terminator); from the spec's data the expected per-file --count, --count-matches, number of --only-matching records, JSON submatch totals, --files-with-matches / --files-without-match sets, --quiet status and --stats totals are derived, also under -m N, and every mode of the real rg is compared with them, and the match totals of --count-matches, -o and --json also with each other (observed against observed); the same under -U for patterns that stay line-oriented, on files of one unterminated line (mmap and reader), and on CR-terminated content without --crlf. The --stats totals are checked for the summary printer (-c, -l, --files-without-match, 1 and 4 threads), for the standard printer and for the JSON summary message (against the sum of the end messages).",
    "note": "Patterns bounded by specs/regex/MCPrinter.tla; lines with a multi-byte character are excluded from match counting for patterns that match the empty string; -U agreement is covered through C13/C09.",
    "technique": "TLA+ executable semantics enumerated by TLC, replayed on the rg binary in eight reporting modes",
}

NF = 3


def judged(rec, content):
    return not (rec.get("nullable") and any(c in (10, 11) for c in content))


def per_file(rec, lines, maxc, key="lines"):
    """-> {file index: dict(count, matches, judged_ok)} from the spec's per-line records."""
    res = {}
    for k in range(NF):
        idx = [i for i in range(len(lines)) if i % NF == k]
        sel = [i for i in idx if rec[key][i]["sel"]]
        if maxc:
            sel = sel[:maxc]
        ok = all(judged(rec, lines[i]) for i in sel)
        res[k] = {"count": len(sel), "matches": sum(len(rec[key][i]["m"]) for i in sel), "exact": ok}
    return res


def parse_counts(so):
    out = {}
    for l in so.split(b"\n"):
        if b":" in l:
            p, c = l.rsplit(b":", 1)
            out[p.rsplit(b"/", 1)[-1].decode("latin1")] = int(c) if c.isdigit() else c.decode("latin1")
    return out


ONE_LINE = [[1, 1, 2], [2, 7, 1], [1]]      # aab / b a / a : files that consist of one line without a terminator


def one_line_part(chk, recs, lines, sc):
    """Files of a single unterminated line (the line starts at offset 0 of whatever buffer holds it): the number of matches
    according to --count-matches, -o and --json, against the model and against each other."""
    idx = [lines.index(c) for c in ONE_LINE]
    for k, c in enumerate(ONE_LINE):
        sc.write("o/f%d" % k, rr.sym_bytes(c))
    names = ["f%d" % k for k in range(len(ONE_LINE))]
    base = ["--no-config", "--color", "never", "-j1", "--sort", "path"]
    modes = [("--count-matches", ["--count-matches", "--include-zero"]), ("-o records", ["-o", "-n", "--no-heading", "--with-filename"]),
             ("JSON submatches", ["--json"])]
    jobs, meta = [], []
    for i, r in enumerate(recs):
        if r["o"]["inv"] or r["o"]["crlf"]:
            continue
        for mm in ("--mmap", "--no-mmap"):
            for name, flags in modes:
                jobs.append({"args": base + flags + [mm] + rr.opt_flags(r["o"]) + ["-e", rr.render(r["u"])] + names, "cwd": sc.path("o")})
                meta.append((i, mm, name))
    outs = rgrun.run_many(jobs)
    chk.evaluations += len(jobs)
    seen = {}
    for (i, mm, name), (rc, so, se) in zip(meta, outs):
        got = {n: 0 for n in names}
        if name == "--count-matches":
            got.update({k: v for k, v in parse_counts(so).items() if k in got})
        elif name == "-o records":
            for l in so.split(b"\n"):
                if l:
                    got[l.split(b":", 1)[0].decode()] += 1
        else:
            for m in rgrun.json_matches(so):
                if m.get("type") == "match":
                    got[m["data"]["path"]["text"]] += len(m["data"]["submatches"])
        seen.setdefault((i, mm), {})[name] = got
    for (i, mm), vals in seen.items():
        r = recs[i]
        if not all(judged(r, lines[x]) for x in idx):
            continue
        want = {n: (len(r["lines"][idx[k]]["m"]) if r["lines"][idx[k]]["sel"] else 0) for k, n in enumerate(names)}
        deficit = {}
        for k, n in enumerate(names):
            lr = r["lines"][idx[k]]
            blen = len(rr.sym_bytes(ONE_LINE[k]))
            deficit[n] = 1 if (lr["sel"] and lr["m"] and lr["m"][-1] == [blen, blen]) else 0
        short = [m for m, v in sorted(vals.items()) if all(v[n] == want[n] - deficit[n] for n in names) and sum(deficit.values()) > 0]
        right = [m for m, v in sorted(vals.items()) if all(v[n] == want[n] for n in names)]
        if len(right) == len(vals):
            chk.validated += len(vals)
            continue
        sig = {"mode": "one_line", "mmap": mm, "unterminated": True, "pattern": rr.render(r["u"]), "opts": sorted(k for k, v in r["o"].items() if v),
               "modes_disagree": len(set(json.dumps(v, sort_keys=True) for v in vals.values())) > 1}
        if len(short) + len(right) == len(vals):
            sig["eof_empty_match"] = True
            sig["short_modes"] = "+".join(short)
        chk.violation(sig, {"why": {"matches reported per mode": vals, "the model's number of matches": want},
                            "files": {n: rr.sym_bytes(c).decode() for n, c in zip(names, ONE_LINE)}, "scenario": {"u": r["u"], "o": r["o"]}})


def main(tier):
    chk = vlib.Check("C10", tier)
    chk.rule = ("every (pattern, options) of the printer family x max-count in {none, 1, 2} x {all files terminated, last lines unterminated}; "
                "the catalogue lines are dealt round-robin into 3 files; 8 rg invocations per scenario. Non-trivial: at least two files "
                "with different non-zero counts and some line with several matches; distinct by (pattern, options, max-count, termination).")
    chk.assumptions = ["regex semantics as in specs/common/RegexSem.tla", "bounds: specs/regex/MCPrinter.tla"]
    res = vlib.tlc("regex/MCPrinter", "C09_quick" if tier == "quick" else "C09_deep", workers=12, timeout=7200, xmx="16g")
    if res.rc != 0:
        raise vlib.ToolError("TLC failed:\n" + res.tail(40))
    chk.add_tlc(res)
    recs = [r for r in res.emits() if not r["o"]["crlf"]]
    lines = res.emits("LINES")[0]["lines"]
    sc = rgrun.Scratch("c10")
    try:
        dirs = {}
        for term_last in (True, False):
            d = "t" if term_last else "u"
            for k in range(NF):
                body = [rr.sym_bytes(lines[i]) for i in range(len(lines)) if i % NF == k]
                sc.write("%s/f%d" % (d, k), b"\n".join(body) + (b"\n" if term_last else b""))
            dirs[term_last] = sc.path(d)
        for k in range(NF):
            body = [rr.sym_bytes(lines[i]) for i in range(len(lines)) if i % NF == k]
            sc.write("c/f%d" % k, b"\r\n".join(body) + b"\r\n")
        dirs["crlf_content"] = sc.path("c")
        base = ["--no-config", "--color", "never", "-j1", "--sort", "path"]
        modes = [("count", ["-c", "--include-zero"]), ("countm", ["--count-matches", "--include-zero"]), ("only", ["-o", "-n", "--no-heading"]),
                 ("lwith", ["-l"]), ("lwithout", ["--files-without-match"]), ("quiet", ["-q"]), ("json", ["--json"]), ("stats", ["-c", "--stats"]),
                 ("statsj", ["-c", "--stats"]), ("statsfwm", ["--files-without-match", "--stats"]), ("statsl", ["-l", "--stats"]),
                 ("statsstd", ["--stats", "-n", "--no-heading"])]      # the totals kept by the standard printer
        jobs, meta = [], []
        for i, r in enumerate(recs):
            pa = rr.opt_flags(r["o"]) + ["-e", rr.render(r["u"])]
            # -U on a pattern that cannot match the terminator changes nothing (every mode must still count LINES);
            # encoded as max-count 10 (no limit, -U given)
            # (restricted to patterns for which rg itself stays line-oriented under -U: no look-around - also none added by
            # -w / -x -, no empty match, no class that holds the terminator; otherwise -U legitimately reports blocks)
            safe_u = ("\\W" not in rr.render(r["u"]) and "[^" not in rr.render(r["u"]) and not r["o"]["crlf"] and not r["o"]["word"]
                      and not r["o"]["line"] and not r.get("nullable") and "look" not in json.dumps(r["u"]))
            for maxc in (0, 1, 2) + ((10,) if safe_u and (i + vlib.seed()) % 2 == 0 else ()):
                for term_last in ((True, False, "crlf_content") if maxc == 0 else (True,)):
                    if term_last == "crlf_content" and not r.get("crlines"):
                        continue
                    for name, flags in modes:
                        if r["o"]["inv"] and name in ("countm", "only"):
                            continue
                        b2 = ["--no-config", "--color", "never", "-j4"] if name == "statsj" else base
                        a = b2 + flags + (["-U"] if maxc == 10 else ["-m", str(maxc)] if maxc else []) + pa + ["f0", "f1", "f2"]
                        jobs.append({"args": a, "cwd": dirs[term_last]})
                        meta.append((i, maxc, term_last, name))
        outs = rgrun.run_many(jobs)
        chk.evaluations += len(jobs)
        observed = {}       # (scenario, max-count, directory) -> mode -> what that mode reported about the number of matches
        for (i, maxc, term_last, name), (rc, so, se), j in zip(meta, outs, jobs):
            r = recs[i]
            exp = per_file(r, lines, 0 if maxc == 10 else maxc, "crlines" if term_last == "crlf_content" else "lines")
            stats_of = {"statsj": "summary printer, 4 threads", "stats": "summary printer", "statsstd": "standard printer"}.get(name)
            if name in ("statsj", "statsstd"):
                name = "stats"
            exact = all(v["exact"] for v in exp.values())
            why = None
            anysel = any(v["count"] for v in exp.values())
            names = ["f%d" % k for k in range(NF)]
            if rc not in (0, 1):
                why = "rg failed rc=%d: %s" % (rc, se[:200])
            elif name == "count":
                got = parse_counts(so)
                want = {n: exp[k]["count"] for k, n in enumerate(names)}
                if got != want:
                    why = {"count": got, "expected": want}
            elif name == "countm":
                got = parse_counts(so)
                want = {n: exp[k]["matches"] for k, n in enumerate(names)}
                observed.setdefault((i, maxc, term_last), {})["--count-matches"] = got
                if exact and got != want:
                    why = {"count_matches": got, "expected": want}
            elif name == "only":
                got = {n: 0 for n in names}
                for l in so.split(b"\n"):
                    if l:
                        got[l.split(b":", 1)[0].decode()] += 1
                want = {n: exp[k]["matches"] for k, n in enumerate(names)}
                observed.setdefault((i, maxc, term_last), {})["-o records"] = got
                if exact and got != want:
                    why = {"only_matching_records": got, "expected": want}
            elif name in ("lwith", "lwithout"):
                got = sorted(x.decode() for x in so.split(b"\n") if x)
                want = sorted(n for k, n in enumerate(names) if (exp[k]["count"] > 0) == (name == "lwith"))
                if got != want:
                    why = {name: got, "expected": want}
            elif name == "quiet":
                if (rc == 0) != anysel or so:
                    why = {"quiet_status": rc, "some_file_matches": anysel, "stdout": so[:50].decode("latin1")}
            elif name == "json":
                msgs = rgrun.json_matches(so)
                sub = {n: 0 for n in names}
                nmatch = {n: 0 for n in names}
                bad_empty = None
                for m in msgs:
                    if m.get("type") == "match":
                        n = m["data"]["path"]["text"]
                        sub[n] += len(m["data"]["submatches"])
                        nmatch[n] += 1
                        if not r["o"]["inv"] and not m["data"]["submatches"]:
                            bad_empty = (n, m["data"]["line_number"])
                if not r["o"]["inv"]:
                    observed.setdefault((i, maxc, term_last), {})["JSON submatches"] = sub
                wantc = {n: exp[k]["count"] for k, n in enumerate(names)}
                wantm = {n: exp[k]["matches"] for k, n in enumerate(names)}
                if nmatch != wantc:
                    why = {"json_match_messages": nmatch, "expected": wantc}
                elif bad_empty:
                    why = {"json_matching_line_without_submatch": bad_empty}
                elif exact and not r["o"]["inv"] and sub != wantm:
                    why = {"json_submatches": sub, "expected": wantm}
                else:
                    # the totals of the closing summary message are the sums over the files
                    st = [m for m in msgs if m.get("type") == "summary"]
                    st = st[-1]["data"]["stats"] if st else {}
                    # ("searches" counts the files that have begin/end messages, i.e. those with output: it is compared with the
                    # sum over the end messages below, not with the number of files named)
                    got = {"matched lines": st.get("matched_lines"), "files contained matches": st.get("searches_with_match"),
                           "files searched": NF, "matches": st.get("matches")}
                    want = {"matched lines": sum(wantc.values()), "files contained matches": sum(1 for v in wantc.values() if v),
                            "files searched": NF, "matches": sum(wantm.values()) if (exact and not r["o"]["inv"]) else got["matches"]}
                    ends = [m["data"].get("stats", {}) for m in msgs if m.get("type") == "end"]
                    keys = ("matched_lines", "matches", "searches", "searches_with_match", "bytes_searched", "bytes_printed")
                    sums = {k: sum(e.get(k, 0) for e in ends) for k in keys}
                    if got != want:
                        why = {"stats": got, "expected": want}
                    elif sums != {k: st.get(k) for k in keys}:
                        why = {"json_summary": {k: st.get(k) for k in keys}, "sum_of_end_messages": sums}
                    if why:
                        stats_of = "JSON summary message"
            elif name in ("statsfwm", "statsl"):
                # the totals of --stats do not depend on which summary mode prints the files
                txt = so.decode("latin1")
                mm = re.search(r"(\d+) files contained matches", txt)
                ms = re.search(r"(\d+) files searched", txt)
                got = {"files contained matches": int(mm.group(1)) if mm else None, "files searched": int(ms.group(1)) if ms else None}
                want = {"files contained matches": sum(1 for v in exp.values() if v["count"]), "files searched": NF}
                if got != want:
                    why = {"stats": got, "expected": want, "mode": name}
            elif name == "stats":
                txt = so.decode("latin1")
                def num(pat):
                    m = re.search(r"(\d+) " + pat, txt)
                    return int(m.group(1)) if m else None
                tot_lines = sum(v["count"] for v in exp.values())
                tot_m = sum(v["matches"] for v in exp.values())
                got = {"matched lines": num("matched lines"), "files contained matches": num("files contained matches"),
                       "files searched": num("files searched"), "matches": num(r"matches\n")}
                want = {"matched lines": tot_lines, "files contained matches": sum(1 for v in exp.values() if v["count"]),
                        "files searched": NF, "matches": tot_m if (exact and not r["o"]["inv"]) else got["matches"]}
                if got != want:
                    why = {"stats": got, "expected": want}
            if why:
                sig = {"mode": name, "maxcount": maxc, "unterminated": term_last is False, "crlf_content": term_last == "crlf_content", "pattern": rr.render(r["u"]),
                       "opts": sorted(k for k, v in r["o"].items() if v), "nullable": bool(r.get("nullable"))}
                if stats_of:
                    sig["stats_of"] = stats_of
                # mechanism: is the whole deficit explained by the empty match at the very end of each file's
                # unterminated last line (which the printers drop)?
                if term_last is False and isinstance(why, dict):
                    deficit = {}
                    for k, n in enumerate(names):
                        last = max(i for i in range(len(lines)) if i % NF == k)
                        lr = r["lines"][last]
                        blen = len(rr.sym_bytes(lines[last]))
                        deficit[n] = 1 if (lr["sel"] and lr["m"] and lr["m"][-1] == [blen, blen]) else 0
                    pair = None
                    for key in ("count_matches", "only_matching_records", "json_submatches"):
                        if key in why:
                            pair = (why[key], why["expected"])
                    if "stats" in why:
                        g, w = why["stats"], why["expected"]
                        if all(g[x] == w[x] for x in g if x != "matches") and g["matches"] is not None and w["matches"] - g["matches"] == sum(deficit.values()) > 0:
                            sig["eof_empty_match"] = True
                    if pair and all(pair[1][n] - pair[0].get(n, 0) == deficit[n] for n in names) and sum(deficit.values()) > 0:
                        sig["eof_empty_match"] = True
                    if "json_matching_line_without_submatch" in why:
                        n, ln = why["json_matching_line_without_submatch"]
                        k = names.index(n)
                        last = max(i for i in range(len(lines)) if i % NF == k)
                        if deficit[n] and ln == last // NF + 1 and len(r["lines"][last]["m"]) == 1:
                            sig["eof_empty_match"] = True
                chk.violation(sig, {"why": why, "args": j["args"], "scenario": {"u": r["u"], "o": r["o"]}})
            else:
                chk.validated += 1
                cs = sorted(v["count"] for v in exp.values())
                if cs[-1] > 0 and len(set(cs)) > 1 and any(len(lr["m"]) > 1 for lr in r["lines"]):
                    chk.nontrivial_case(json.dumps([r["u"], r["o"], maxc, term_last], sort_keys=True))
                if len(chk.samples) < 2 and name == "count" and i % 41 == 3:
                    chk.sample({"args": j["args"][6:], "counts": {n: exp[k]["count"] for k, n in enumerate(names)},
                                "count_matches": {n: exp[k]["matches"] for k, n in enumerate(names)}})
        # the modes must agree WITH EACH OTHER whatever the model says (the statement's own wording)
        for (i, maxc, term_last), modes_seen in observed.items():
            vals = {k: {n: v.get(n, 0) for n in ["f%d" % x for x in range(NF)]} for k, v in modes_seen.items()}
            if len(set(json.dumps(v, sort_keys=True) for v in vals.values())) > 1:
                r = recs[i]
                sig = {"mode": "cross", "modes_disagree": True, "maxcount": maxc, "unterminated": term_last is False,
                       "crlf_content": term_last == "crlf_content", "pattern": rr.render(r["u"]),
                       "opts": sorted(k for k, v in r["o"].items() if v)}
                if term_last is False:
                    # mechanism: which modes are short by exactly the empty match at the very end of each file's unterminated
                    # last line (the known defect of the printers' match iteration), the others being right
                    exp = per_file(r, lines, 0 if maxc == 10 else maxc, "lines")
                    names = ["f%d" % x for x in range(NF)]
                    deficit = {}
                    for k, n in enumerate(names):
                        last = max(x for x in range(len(lines)) if x % NF == k)
                        lr = r["lines"][last]
                        blen = len(rr.sym_bytes(lines[last]))
                        deficit[n] = 1 if (lr["sel"] and lr["m"] and lr["m"][-1] == [blen, blen]) else 0
                    want = {n: exp[k]["matches"] for k, n in enumerate(names)}
                    short = [m for m, v in sorted(vals.items()) if all(v[n] == want[n] - deficit[n] for n in names)]
                    right = [m for m, v in sorted(vals.items()) if all(v[n] == want[n] for n in names)]
                    if sum(deficit.values()) > 0 and len(short) + len(right) == len(vals):
                        sig["eof_empty_match"] = True
                        sig["short_modes"] = "+".join(short)
                chk.violation(sig,
                              {"why": {"the modes report different numbers of matches": vals}, "scenario": {"u": r["u"], "o": r["o"]},
                               "max_count": maxc, "directory": str(term_last)})
            else:
                chk.validated += 1
        one_line_part(chk, recs, lines, sc)
    finally:
        sc.close()
    ml_part(chk, tier)
    chk.exhaustive = True
    return chk.finish()


def ml_part(chk, tier):
    """Multi-line search: --count-matches, the number of -o records and the JSON submatches all equal the number
    of successive matches the reference model finds; every JSON match message has a submatch."""
    res = vlib.tlc("regex/MCGrepML", "C09_ml" if tier == "quick" else "C09_ml_deep", workers=12, timeout=7200, xmx="16g")
    if res.rc != 0:
        raise vlib.ToolError("TLC failed on C09_ml:\n" + res.tail(40))
    chk.add_tlc(res)
    recs = [r for r in res.emits() if not r["scn"]["cfg"]["inv"] and not r["scn"]["cfg"]["pass"] and r["ms"]
            and all(m[0] < m[1] for m in r["ms"]) and not r["scn"]["o"]["word"] and not r["scn"]["o"]["line"]]
    if tier == "quick":
        recs = recs[1::3]
    sc = rgrun.Scratch("c10ml")
    try:
        jobs, meta = [], []
        for k, r in enumerate(recs):
            f = sc.write("d%d/f%d" % (k % 50, k), rr.sym_bytes(r["scn"]["inp"]))
            args = ["--no-config", "--color", "never", "-j1", "-U"] + (["--multiline-dotall"] if r["scn"]["o"]["dotall"] else [])
            for name, fl in (("json", ["--json"]), ("countm", ["--count-matches"])):
                jobs.append({"args": args + fl + ["-e", rr.render(r["scn"]["u"]), f]})
                meta.append((k, name))
        outs = rgrun.run_many(jobs)
        chk.evaluations += len(jobs)
        for (k, name), j, (rc, so, se) in zip(meta, jobs, outs):
            r = recs[k]
            want = len(r["ms"])
            why = None
            if name == "json":
                msgs = [m for m in rgrun.json_matches(so) if m.get("type") == "match"]
                got = sum(len(m["data"]["submatches"]) for m in msgs)
                # lines covered by the matches (what standard mode prints): the end message's matched_lines
                inp = rr.sym_bytes(r["scn"]["inp"])
                covered, pos = 0, 0
                while pos < len(inp):
                    e = inp.find(b"\n", pos)
                    end = len(inp) if e < 0 else e + 1
                    if any(a < end and b > pos for a, b in r["ms"]):
                        covered += 1
                    pos = end
                ends = [m for m in rgrun.json_matches(so) if m.get("type") == "end"]
                ml = sum(m["data"]["stats"]["matched_lines"] for m in ends)
                if any(not m["data"]["submatches"] for m in msgs):
                    why = {"json_matching_block_without_submatch": True}
                elif got != want:
                    why = {"json_submatches": got, "matches": want}
                elif ml != covered:
                    why = {"json_end_matched_lines": ml, "lines_covered_by_the_matches": covered}
            else:
                got = int(so.strip() or b"0")
                if got != want:
                    why = {"count_matches": got, "matches": want}
            if why:
                chk.violation({"mode": "ml_" + name, "pattern": rr.render(r["scn"]["u"]), "opts": sorted(x for x, v in r["scn"]["o"].items() if v)},
                              {"why": why, "args": j["args"][:-1], "input": r["scn"]["inp"]})
            else:
                chk.validated += 1
                if want >= 2:
                    chk.nontrivial_case(json.dumps([r["scn"]["u"], r["scn"]["o"], r["scn"]["inp"], name]))
    finally:
        sc.close()
    ml_inverted_part(chk, tier, res)


def ml_inverted_part(chk, tier, res):
    """Multi-line search, inverted (-U -v with a pattern that matches across lines): the lines standard mode prints are the
    lines no match touches (GrepModelML); --count says how many they are, --files-with-matches lists the file iff there
    are any, --quiet and every other mode give the same exit status, JSON reports the same lines."""
    recs = [r for r in res.emits() if r["scn"]["cfg"]["inv"] and not r["scn"]["cfg"]["pass"] and r["scn"]["cfg"]["A"] == 0
            and r["scn"]["cfg"]["B"] == 0 and not r["scn"]["o"]["word"] and not r["scn"]["o"]["line"] and not r["scn"]["o"]["crlf"]
            and r["scn"]["inp"]]
    seen, uniq = set(), []
    for r in recs:
        key = json.dumps([r["scn"]["u"], r["scn"]["o"], r["scn"]["inp"]], sort_keys=True)
        inp = rr.sym_bytes(r["scn"]["inp"])
        # (the pattern must be one rg searches in multi-line mode: some match holds a line feed)
        if key in seen or not any(b"\n" in inp[a:b] for a, b in r["ms"]):
            continue
        seen.add(key)
        uniq.append(r)
    if tier == "quick":
        uniq = uniq[vlib.seed() % 2::2]
    sc = rgrun.Scratch("c10mlv")
    try:
        jobs, meta = [], []
        for k, r in enumerate(uniq):
            f = sc.write("d%d/f%d" % (k % 50, k), rr.sym_bytes(r["scn"]["inp"]))
            args = ["--no-config", "--color", "never", "-j1", "-U", "-v"] + (["--multiline-dotall"] if r["scn"]["o"]["dotall"] else [])
            for name, fl in (("std", ["-n", "--no-heading", "-I"]), ("count", ["-c", "-I"]), ("lwith", ["-l"]), ("lwithout", ["--files-without-match"]),
                             ("quiet", ["-q"]), ("json", ["--json"])):
                jobs.append({"args": args + fl + ["-e", rr.render(r["scn"]["u"]), f]})
                meta.append((k, name, f))
        outs = rgrun.run_many(jobs)
        chk.evaluations += len(jobs)
        for (k, name, f), j, (rc, so, se) in zip(meta, jobs, outs):
            r = uniq[k]
            inp = rr.sym_bytes(r["scn"]["inp"])
            want = 0
            for e in r["ref"]:
                if e["k"] == "match":
                    piece = inp[e["off"]:e["off"] + e["len"]]
                    want += piece.count(b"\n") + (0 if piece.endswith(b"\n") or not piece else 1)
            why = None
            if rc not in (0, 1):
                why = "rg failed rc=%d: %s" % (rc, se[:200])
            elif (rc == 0) != (want > 0) and name != "lwithout":
                why = {"exit_status": rc, "lines_no_match_touches": want}
            elif name == "std":
                got = len([x for x in so.split(b"\n") if x])
                if got != want:
                    why = {"lines_printed": got, "expected": want}
            elif name == "count":
                got = int(so.strip() or b"0") if (so.strip() or b"0").isdigit() else -1
                if got != want:
                    why = {"count": got, "expected": want}
            elif name in ("lwith", "lwithout"):
                listed = bool(so.strip())
                if listed != ((want > 0) == (name == "lwith")):
                    why = {name: listed, "lines_no_match_touches": want}
            elif name == "json":
                msgs = [m for m in rgrun.json_matches(so) if m.get("type") == "match"]
                got = sum((m["data"]["lines"].get("text") or "").count("\n") or 1 for m in msgs)
                if got != want:
                    why = {"json_lines": got, "expected": want}
            if why:
                chk.violation({"mode": "mlv_" + name, "pattern": rr.render(r["scn"]["u"]), "opts": sorted(x for x, v in r["scn"]["o"].items() if v),
                               "summary_mode_counts_zero": isinstance(why, dict) and name in ("count", "lwith", "lwithout", "quiet") and want > 0},
                              {"why": why, "args": j["args"][:-1], "input": r["scn"]["inp"], "stdout": so[:200].decode("latin1")})
            else:
                chk.validated += 1
                if want >= 1 and r["ms"]:
                    chk.nontrivial_case(json.dumps(["mlv", r["scn"]["u"], r["scn"]["o"], r["scn"]["inp"], name]))
    finally:
        sc.close()


def replay(path):
    rec = json.load(open(path))
    # the scenario is regenerated from the specification: the quick tier is run again and the verdict reported for this file
    print(json.dumps(rec["sig"]))
    rc = main("quick")
    if rc == 1:
        print("VIOLATION property=%s replay=%s" % (rec["property"], path))
    return rc

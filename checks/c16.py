"""C16: stopping early or failing mid-stream yields a prefix of the full results."""
import vlib
from checks import search_common as sc


META = {'text': 'TLC injects a stop and a sink error at every index of the reference event stream and a read failure at every read index and checks PrefixOnInterrupt (prefix, nothing after, finish exactly once after stop / never after error, error returned) in every terminal state; each is replayed on the real searcher with scripted Sink verdicts and Read faults.', 'note': 'Bounds in specs/search/C16_*.cfg; Interrupted reads may be retried below the roll buffer (accepted either way).', 'technique': 'TLA+ invariant over fault/verdict plans with TLC + scripted-fault replay into grep-searcher'}


def main(tier):
    chk = vlib.Check("C16", tier)
    chk.rule = ("TLC enumerates, for every bounded input/configuration/strategy/path, a stop and a sink error at every index of the "
                "reference event stream (begin, match, context, separator) and a read() failure at every read index, under every "
                "read history; PrefixOnInterrupt is evaluated in every terminal state; each terminal state is replayed on the real "
                "searcher (scripted Sink verdicts and scripted Read faults incl. ErrorKind::Interrupted). Non-trivial as in C03.")
    chk.assumptions = ["matcher abstracted to 'line contains byte m'", "bounds: specs/search/C16_*.cfg",
                       "multi-line strategy and printer-level -m N are covered by SearcherML / the rg-level part of this check"]
    cfgs = ["C16_quick", "C16_bin"] if tier == "quick" else ["C16_quick", "C16_bin", "C16_deep"]
    for c in cfgs:
        sc.explore(chk, c, variants=("as_is", "onebyte", "maxread", "intr", "mmap"), timeout=3000)
    multiline_part(chk, tier)
    maxcount_part(chk, tier)
    chk.exhaustive = True
    return chk.finish()


def maxcount_part(chk, tier):
    """`rg -m N` with context: the first N selected lines plus the trailing context they are entitled to (MaxCount.tla)."""
    import json
    import rgrun
    res = vlib.tlc("search/MaxCount", "C16_max", workers=8, timeout=1800)
    if res.rc != 0:
        raise vlib.ToolError("TLC failed on C16_max:\n" + res.tail(40))
    chk.add_tlc(res)
    recs = res.emits()
    scr = rgrun.Scratch("c16max")
    try:
        files = {}
        jobs = []
        for r in recs:
            b = bytes(r["scn"]["inp"])
            if b not in files:
                files[b] = scr.write("f%d" % len(files), b)
            s = r["scn"]
            args = ["--no-config", "--color", "never", "-j1", "-n", "--no-heading", "-m", str(s["n"])]
            if s["A"]:
                args += ["-A", str(s["A"])]
            if s["B"]:
                args += ["-B", str(s["B"])]
            if s["inv"]:
                args += ["-v"]
            for strat in (["--mmap"], ["--no-mmap"]):
                jobs.append({"args": args + strat + ["-e", "m", files[b]], "_r": r})
        outs = rgrun.run_many(jobs)
        chk.evaluations += len(jobs)
        for j, (rc, so, se) in zip(jobs, outs):
            r = j["_r"]
            got = []
            for line in so.split(b"\n"):
                if line == b"--":
                    got.append([0, "brk"])
                    continue
                k = 0
                while k < len(line) and 48 <= line[k] <= 57:
                    k += 1
                if k and line[k:k + 1] in (b":", b"-"):
                    got.append([int(line[:k]), "match" if line[k:k + 1] == b":" else "ctx"])
            # beyond the N-th selected line everything printed is trailing context; its marker (':' or '-') is not
            # part of the statement
            if r["nth"]:
                got = [[i, "ctx" if i > r["nth"] else k] for i, k in got]
            if got != r["exp"]:
                s = r["scn"]
                chk.violation({"variant": "maxcount", "plan": "maxcount", "inv": s["inv"], "ctx": bool(s["A"] or s["B"]), "n": s["n"]},
                              {"why": {"got": got, "expected": r["exp"]}, "args": j["args"][:-1], "input": s["inp"], "maxcount": True})
            else:
                chk.validated += 1
                if len(r["exp"]) >= 3 and r["scn"]["A"]:
                    chk.nontrivial_case(json.dumps(r["scn"], sort_keys=True))
    finally:
        scr.close()


def multiline_part(chk, tier):
    """Stop / sink error at every delivered event of the multi-line strategy (reference: GrepModelML)."""
    import json
    import regexrender as rr
    from checks import c13
    res = vlib.tlc("regex/MCGrepML", "C16_ml", workers=12, timeout=3600)
    if res.rc != 0:
        raise vlib.ToolError("TLC failed on C16_ml:\n" + res.tail(40))
    chk.add_tlc(res)
    allrecs = res.emits()
    ml_maxcount(chk, allrecs, tier)
    recs = [r for r in allrecs if r["scn"]["stopAt"] or r["scn"]["errAt"]]
    if tier == "quick":
        recs = [r for i, r in enumerate(recs) if i % 3 == vlib.seed() % 3]
    jobs = [c13.to_job(r, "slice" if i % 2 else "reader", {"fallback": 1}) for i, r in enumerate(recs)]
    obs = vlib.run_driver("replay_search", jobs, parallel=12, timeout=3600)
    chk.evaluations += len(jobs)
    vlib.log("[C16] C16_ml: %d multi-line stop/error scenarios" % len(recs))
    for r, j, o in zip(recs, jobs, obs):
        inp = bytes(j["scn"]["inp"])
        ref = [sc.ev_key(e) for e in c13.expand(r["ref"], inp) if e["k"] != "finish"]
        raw = [e for e in o["out"] if e["k"] != "finish"]
        fin = [e for e in o["out"] if e["k"] == "finish"]
        got = [sc.ev_key(e) for e in c13.expand(raw, inp)]
        k = r["scn"]["stopAt"] or r["scn"]["errAt"]
        why = None
        if o["result"] == "panic":
            why = "panic: " + o.get("err", "")[:200]
        elif got != ref[:len(got)]:
            why = "delivered events are not a prefix of the reference stream"
        elif len(raw) > k:
            why = "events delivered after the consumer's verdict at event %d" % k
        elif r["scn"]["errAt"] and len(raw) == k and (o["result"] != "err_sink" or fin):
            why = "sink error not returned, or finish delivered after it (result %s)" % o["result"]
        elif r["scn"]["stopAt"] and (o["result"] != "ok" or len(fin) != 1):
            why = "after a stop: result %s, finish delivered %d times" % (o["result"], len(fin))
        elif len(raw) < k and got != ref:
            why = "search ended before the verdict index without delivering the whole reference stream"
        if why:
            sig = c13.mech(r, "ml")
            chk.violation(sig, {"why": why, "scenario": j, "reference": r["ref"], "observed": o, "driver": "replay_search", "ml": True})
        else:
            chk.validated += 1
            if len(ref) >= 3:
                chk.nontrivial_case(json.dumps([r["scn"]["u"], r["scn"]["o"], r["scn"]["cfg"], r["scn"]["inp"], r["scn"]["stopAt"], r["scn"]["errAt"]], sort_keys=True))


def ml_maxcount(chk, recs_unused, tier):
    """rg -U -c -m N on genuinely multi-line searches.  In multi-line mode the count is the number of MATCHES and a block
    of matches on touching lines is delivered as one result, so the limit may be overshot inside the block that reaches
    it, but nothing beyond that block may be counted: with `total` matches and the N-th one lying in a block whose last
    match is the E-th, min(N, total) <= count <= E.  (Matches and their lines: GrepModelML, cfg C09_ml.)"""
    import json
    import regexrender as rr
    import rgrun
    res = vlib.tlc("regex/MCGrepML", "C09_ml", workers=12, timeout=3600)
    if res.rc != 0:
        raise vlib.ToolError("TLC failed on C09_ml:\n" + res.tail(40))
    chk.add_tlc(res)
    sel = [r for r in res.emits() if not r["scn"]["cfg"]["inv"] and not r["scn"]["cfg"]["pass"] and len(r["ms"]) >= 2
           and all(m[0] < m[1] for m in r["ms"]) and not r["scn"]["o"]["word"] and not r["scn"]["o"]["line"]]
    if tier == "quick":
        sel = [r for i, r in enumerate(sel) if i % 2 == vlib.seed() % 2]
    scr = rgrun.Scratch("c16ml")
    try:
        jobs, meta = [], []
        for k, r in enumerate(sel):
            inp = rr.sym_bytes(r["scn"]["inp"])
            # (the pattern must be one rg searches in multi-line mode: some match holds a line feed)
            if not any(b"\n" in inp[a:b] for a, b in r["ms"]):
                continue
            f = scr.write("d%d/f%d" % (k % 50, k), inp)
            for n in (1, 2):
                a = ["--no-config", "--color", "never", "-j1", "-U", "-c", "-m", str(n)] + (["--multiline-dotall"] if r["scn"]["o"]["dotall"] else [])
                jobs.append({"args": a + ["-e", rr.render(r["scn"]["u"]), f]})
                meta.append((r, inp, n))
        outs = rgrun.run_many(jobs)
        chk.evaluations += len(jobs)
        for (r, inp, n), (rc, so, se), j in zip(meta, outs, jobs):
            ms = r["ms"]
            total = len(ms)
            line_of = lambda pos: inp.count(b"\n", 0, pos)
            blocks, last_line = [], None        # blocks of matches whose line ranges touch or overlap
            for (a, b) in ms:
                la, lb = line_of(a), line_of(b - 1)
                if blocks and la <= last_line + 1:
                    blocks[-1] += 1
                else:
                    blocks.append(1)
                last_line = max(lb, last_line if last_line is not None else lb)
            cum, hi = 0, total
            for c in blocks:
                cum += c
                if cum >= min(n, total):
                    hi = cum
                    break
            txt = so.strip()
            got = int(txt) if txt.isdigit() else (0 if txt == b"" else -1)
            if min(n, total) <= got <= hi:
                chk.validated += 1
                if hi < total:
                    chk.nontrivial_case(json.dumps(["mlmax", r["scn"]["u"], r["scn"]["o"], r["scn"]["inp"], n]))
            else:
                chk.violation({"variant": "ml_maxcount", "pattern": rr.render(r["scn"]["u"]), "n": n, "opts": sorted(k for k, v in r["scn"]["o"].items() if v)},
                              {"why": "rg -U -c -m %d prints %r; the matches are %s (blocks of %s), so the count must lie in %d..%d" % (n, so[:40], ms, blocks, min(n, total), hi),
                               "args": j["args"][:-1], "input": list(inp), "ml": True})
    finally:
        scr.close()


def replay(path):
    import json
    rec = json.load(open(path))
    if rec["sig"].get("variant") == "ml_maxcount":
        import rgrun
        scr = rgrun.Scratch("c16r")
        try:
            f = scr.write("f", bytes(rec["record"]["input"]))
            rc, so, se = rgrun.run_many([{"args": rec["record"]["args"] + [f]}])[0]
        finally:
            scr.close()
        print(json.dumps({"args": rec["record"]["args"], "count_now": so.decode("latin1").strip(), "why_then": rec["record"]["why"]}, indent=1))
        import re
        m = re.search(r"lie in (\d+)\.\.(\d+)", rec["record"]["why"])
        txt = so.strip()
        got = int(txt) if txt.isdigit() else 0
        if not (int(m.group(1)) <= got <= int(m.group(2))):
            print("VIOLATION property=C16 replay=%s" % path)
            return 1
        print("replay: property holds on this scenario now")
        return 0
    return sc.replay_file(path)

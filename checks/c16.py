"""C16: stopping early or failing mid-stream yields a prefix of the full results."""
import vlib
from checks import search_common as sc


META = {'text': 'TLC injects a stop and a sink error at every index of the reference event stream and a read failure at every read index and checks PrefixOnInterrupt (prefix, nothing after, finish exactly once after stop / never after error, error returned) in every terminal state; each is replayed on the real searcher with scripted Sink verdicts and Read faults.', 'note': 'Bounds in specs/search/C16_*.cfg; Interrupted reads may be retried below the roll buffer (accepted either way).', 'technique': 'TLA+ invariant over fault/verdict plans with TLC + scripted-fault replay into grep-searcher'}


def main(tier):
    chk = vlib.Check("C16", tier)
    chk.rule = ("TLC enumerates, for every bounded input/configuration/strategy/path, a stop and a sink error at every index of the "
                "reference event stream (begin, match, context, separator) and a read() failure at every read index, under every "
                "read history; PrefixOnInterrupt is evaluated in every terminal state; each terminal state is replayed on the real "
                "searcher (scripted Sink verdicts and scripted Read faults incl. ErrorKind::Interrupted). Non-trivial as in C03.")
    chk.assumptions = ["matcher abstracted to 'line contains byte m'", "bounds: specs/search/C16_*.cfg",
                       "multi-line strategy and printer-level -m N are covered by SearcherML / the rg-level part of this check"]
    cfgs = ["C16_quick", "C16_bin"] if tier == "quick" else ["C16_quick", "C16_bin", "C16_deep"]
    for c in cfgs:
        sc.explore(chk, c, variants=("as_is", "onebyte", "maxread", "intr", "mmap"), timeout=3000)
    chk.exhaustive = True
    return chk.finish()


def replay(path):
    return sc.replay_file(path)

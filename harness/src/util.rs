use std::io::{self, BufRead, Write};

/// Read ndjson scenarios from stdin, call `f` on each, write one ndjson result per line.
pub fn for_each_json_line<F: FnMut(serde_json::Value) -> serde_json::Value>(mut f: F) {
    let stdin = io::stdin();
    let stdout = io::stdout();
    let mut out = io::BufWriter::new(stdout.lock());
    for line in stdin.lock().lines() {
        let line = line.expect("read stdin");
        let line = line.trim();
        if line.is_empty() {
            continue;
        }
        let v: serde_json::Value = match serde_json::from_str(line) {
            Ok(v) => v,
            Err(e) => {
                eprintln!("bad json line: {e}: {line}");
                std::process::exit(2);
            }
        };
        let r = f(v);
        serde_json::to_writer(&mut out, &r).unwrap();
        out.write_all(b"\n").unwrap();
    }
    out.flush().unwrap();
}

pub fn bytes_of(v: &serde_json::Value) -> Vec<u8> {
    v.as_array()
        .map(|a| a.iter().map(|x| x.as_u64().unwrap() as u8).collect())
        .unwrap_or_default()
}

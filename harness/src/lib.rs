//! Shared helpers for the conformance drivers.
pub mod util;

use grep_matcher::Matcher;
use grep_regex::RegexMatcherBuilder;
fn main() {
    let args: Vec<String> = std::env::args().collect();
    let pat = &args[1];
    let hay = std::fs::read(&args[2]).unwrap();
    let m = RegexMatcherBuilder::new().line_terminator(Some(b'\n')).build(pat).unwrap();
    println!("find_candidate_line(whole) = {:?}", m.find_candidate_line(&hay).unwrap());
    println!("find(whole) = {:?}", m.find(&hay).unwrap());
    println!("shortest(whole) = {:?}", m.shortest_match(&hay).unwrap());
    let (f, l) = grep_regex::verif::last_hirs();
    println!("final hir = {:?}", f.map(|h| h.to_string()));
    println!("lit hir = {:?}", l.map(|h| h.to_string()));
    for line in hay.split(|&b| b == b'\n') {
        println!("line {:?}: is_match={:?} find={:?} shortest={:?}", String::from_utf8_lossy(line), m.is_match(line).unwrap(), m.find(line).unwrap(), m.shortest_match(line).unwrap());
    }
    let re = regex_automata::meta::Regex::new(pat).unwrap();
    println!("plain meta regex find whole = {:?}", re.find(&hay[..]));
    let input = regex_automata::Input::new(&hay[..]).earliest(true);
    println!("plain meta regex earliest half = {:?}", re.search_half(&input));
}

fn main() { println!("ok"); }

//! Library-level printing through writers that accept only part of a buffer per `write` call.
//!
//! stdin (ndjson):  {"id":..,"pattern":"x","fixed":true,"input":[bytes],"chunk":k,"ctx":n}
//! stdout (ndjson): {"id":..,"std":{"equal":bool,"whole_len":..,"short_len":..,"first_diff":..},"json":{...}}
//!
//! The same search is printed twice with grep-printer's Standard (line number, column, byte offset, context) and JSON
//! printers: once into a `Vec<u8>` (every write accepted whole) and once into a writer that takes at most `chunk`
//! (+0..2) bytes per call.  `io::Write::write` may legally do that; the two outputs must be identical.
use std::io::{self, Write};

use grep_printer::{JSONBuilder, StandardBuilder};
use grep_regex::RegexMatcherBuilder;
use grep_searcher::{BinaryDetection, SearcherBuilder};
use serde_json::{json, Value};
use verif_harness::util::{bytes_of, for_each_json_line};

struct ShortWriter {
    inner: Vec<u8>,
    max: usize,
    calls: usize,
}

impl Write for ShortWriter {
    fn write(&mut self, buf: &[u8]) -> io::Result<usize> {
        self.calls += 1;
        let n = (self.max + self.calls % 3).min(buf.len());
        self.inner.extend_from_slice(&buf[..n]);
        Ok(n)
    }
    fn flush(&mut self) -> io::Result<()> {
        Ok(())
    }
}

fn compare(whole: &[u8], short: &[u8]) -> Value {
    let first = whole.iter().zip(short.iter()).position(|(a, b)| a != b).or_else(|| {
        if whole.len() != short.len() {
            Some(whole.len().min(short.len()))
        } else {
            None
        }
    });
    let ctx = |b: &[u8]| -> Vec<u8> {
        match first {
            Some(i) => b[i.saturating_sub(20)..(i + 40).min(b.len())].to_vec(),
            None => vec![],
        }
    };
    json!({"equal": first.is_none(), "whole_len": whole.len(), "short_len": short.len(), "first_diff": first,
           "whole_at": ctx(whole), "short_at": ctx(short)})
}

fn run(v: &Value) -> Value {
    let input = bytes_of(&v["input"]);
    let chunk = v["chunk"].as_u64().unwrap_or(1) as usize;
    let ctx = v["ctx"].as_u64().unwrap_or(0) as usize;
    let pattern = v["pattern"].as_str().unwrap_or("x");
    let matcher = match RegexMatcherBuilder::new()
        .fixed_strings(v["fixed"].as_bool().unwrap_or(true))
        .line_terminator(Some(b'\n'))
        .build(pattern)
    {
        Ok(m) => m,
        Err(e) => return json!({"id": v["id"], "error": e.to_string()}),
    };
    let mut sb = SearcherBuilder::new();
    sb.line_number(true).before_context(ctx).after_context(ctx).binary_detection(BinaryDetection::none());
    let mut out = serde_json::Map::new();
    out.insert("id".into(), v["id"].clone());
    // Standard printer
    let std_to = |short: bool| -> io::Result<Vec<u8>> {
        let mut searcher = sb.build();
        if short {
            let w = ShortWriter { inner: vec![], max: chunk, calls: 0 };
            let mut p = StandardBuilder::new().column(true).byte_offset(true).build_no_color(w);
            searcher.search_slice(&matcher, &input, p.sink_with_path(&matcher, "f"))?;
            Ok(p.into_inner().into_inner().inner)
        } else {
            let mut p = StandardBuilder::new().column(true).byte_offset(true).build_no_color(Vec::<u8>::new());
            searcher.search_slice(&matcher, &input, p.sink_with_path(&matcher, "f"))?;
            Ok(p.into_inner().into_inner())
        }
    };
    match (std_to(false), std_to(true)) {
        (Ok(a), Ok(b)) => {
            out.insert("std".into(), compare(&a, &b));
        }
        (a, b) => {
            out.insert("std".into(), json!({"equal": false, "error": format!("{:?} / {:?}", a.err(), b.err())}));
        }
    }
    let json_to = |short: bool| -> io::Result<Vec<u8>> {
        let mut searcher = sb.build();
        if short {
            let w = ShortWriter { inner: vec![], max: chunk, calls: 0 };
            let mut p = JSONBuilder::new().build(w);
            searcher.search_slice(&matcher, &input, p.sink_with_path(&matcher, "f"))?;
            Ok(p.into_inner().inner)
        } else {
            let mut p = JSONBuilder::new().build(Vec::<u8>::new());
            searcher.search_slice(&matcher, &input, p.sink_with_path(&matcher, "f"))?;
            Ok(p.into_inner())
        }
    };
    match (json_to(false), json_to(true)) {
        (Ok(a), Ok(b)) => {
            // elapsed times differ from run to run: blank them
            let blank = |x: Vec<u8>| -> Vec<u8> {
                let s = String::from_utf8_lossy(&x).to_string();
                let mut o = String::new();
                for line in s.lines() {
                    if let Some(i) = line.find("\"elapsed\"") {
                        o.push_str(&line[..i]);
                    } else {
                        o.push_str(line);
                    }
                    o.push('\n');
                }
                o.into_bytes()
            };
            out.insert("json".into(), compare(&blank(a), &blank(b)));
        }
        (a, b) => {
            out.insert("json".into(), json!({"equal": false, "error": format!("{:?} / {:?}", a.err(), b.err())}));
        }
    }
    Value::Object(out)
}

fn main() {
    for_each_json_line(|v| run(&v));
}

//! S->I driver for the Searcher model: replays a TLC-generated scenario (input, configuration,
//! strategy, capacity, read() history, sink verdict plan, read fault) against the real
//! grep-searcher and prints the observed event stream.
use std::io::{self, Read, Write};
use std::panic::{catch_unwind, AssertUnwindSafe};

use grep_matcher::{LineMatchKind, LineTerminator, Match, Matcher, NoCaptures, NoError};
use grep_searcher::{
    BinaryDetection, MmapChoice, Searcher, SearcherBuilder, Sink, SinkContext, SinkFinish, SinkMatch,
};
use serde_json::{json, Value};
use verif_harness::util::{bytes_of, for_each_json_line};

/// A line matches iff it contains `m`; `c` makes a line a (false) candidate of the fast path.
#[derive(Clone, Debug)]
struct MMatcher {
    term: Option<LineTerminator>,
    candidate: bool,
    /// bytes declared as never occurring in a match (the way a regex matcher without a line terminator tells the
    /// searcher that multi-line mode is not needed)
    non_matching: Option<grep_matcher::ByteSet>,
}

impl Matcher for MMatcher {
    type Captures = NoCaptures;
    type Error = NoError;

    fn find_at(&self, haystack: &[u8], at: usize) -> Result<Option<Match>, NoError> {
        Ok(haystack[at..].iter().position(|&b| b == b'm').map(|i| Match::new(at + i, at + i + 1)))
    }
    fn new_captures(&self) -> Result<NoCaptures, NoError> {
        Ok(NoCaptures::new())
    }
    fn line_terminator(&self) -> Option<LineTerminator> {
        self.term
    }
    fn non_matching_bytes(&self) -> Option<&grep_matcher::ByteSet> {
        self.non_matching.as_ref()
    }
    fn find_candidate_line(&self, haystack: &[u8]) -> Result<Option<LineMatchKind>, NoError> {
        if self.candidate {
            Ok(haystack.iter().position(|&b| b == b'm' || b == b'c').map(LineMatchKind::Candidate))
        } else {
            Ok(self.shortest_match(haystack)?.map(LineMatchKind::Confirmed))
        }
    }
}

struct ScriptedReader<'a> {
    data: &'a [u8],
    at: usize,
    reads: Vec<usize>,
    calls: usize,
    fault_at: usize,
    fault_kind: io::ErrorKind,
    fallback: usize,
    wants: Vec<usize>,
    gots: Vec<usize>,
}

impl<'a> Read for ScriptedReader<'a> {
    fn read(&mut self, buf: &mut [u8]) -> io::Result<usize> {
        self.calls += 1;
        self.wants.push(buf.len());
        if self.calls == self.fault_at {
            self.gots.push(0);
            return Err(io::Error::new(self.fault_kind, "injected-read"));
        }
        let remaining = self.data.len() - self.at;
        if remaining == 0 || buf.is_empty() {
            self.gots.push(0);
            return Ok(0);
        }
        let planned = match self.reads.get(self.calls - 1) {
            Some(&n) if n > 0 => n,
            _ => if self.fallback == 0 { buf.len() } else { self.fallback },
        };
        let n = planned.min(buf.len()).min(remaining);
        buf[..n].copy_from_slice(&self.data[self.at..self.at + n]);
        self.at += n;
        self.gots.push(n);
        Ok(n)
    }
}

struct RecSink<'a> {
    inp: &'a [u8],
    out: Vec<Value>,
    stop_at: usize,
    err_at: usize,
    bytes_ok: bool,
    convert: bool,
    term_byte: u8,
}

impl<'a> RecSink<'a> {
    fn verdict(&mut self) -> Result<bool, io::Error> {
        let n = self.out.len();
        if n == self.err_at {
            return Err(io::Error::new(io::ErrorKind::Other, "injected-sink"));
        }
        Ok(n != self.stop_at)
    }
    fn check_bytes(&mut self, off: u64, bytes: &[u8]) {
        let off = off as usize;
        let ok = off + bytes.len() <= self.inp.len()
            && bytes.iter().zip(&self.inp[off..off + bytes.len()]).all(|(&a, &b)| {
                a == b || (self.convert && b == 0 && a == self.term_byte)
            });
        if !ok {
            self.bytes_ok = false;
        }
    }
}

impl<'a> Sink for RecSink<'a> {
    type Error = io::Error;

    fn begin(&mut self, _s: &Searcher) -> Result<bool, io::Error> {
        self.out.push(json!({"k":"begin","ln":0,"off":0,"len":0}));
        self.verdict()
    }
    fn matched(&mut self, _s: &Searcher, m: &SinkMatch<'_>) -> Result<bool, io::Error> {
        self.check_bytes(m.absolute_byte_offset(), m.bytes());
        self.out.push(json!({"k":"match","ln":m.line_number().unwrap_or(0),
            "off":m.absolute_byte_offset(),"len":m.bytes().len()}));
        self.verdict()
    }
    fn context(&mut self, _s: &Searcher, c: &SinkContext<'_>) -> Result<bool, io::Error> {
        self.check_bytes(c.absolute_byte_offset(), c.bytes());
        self.out.push(json!({"k":"ctx","ln":c.line_number().unwrap_or(0),
            "off":c.absolute_byte_offset(),"len":c.bytes().len()}));
        self.verdict()
    }
    fn context_break(&mut self, _s: &Searcher) -> Result<bool, io::Error> {
        self.out.push(json!({"k":"break","ln":0,"off":0,"len":0}));
        self.verdict()
    }
    fn binary_data(&mut self, _s: &Searcher, off: u64) -> Result<bool, io::Error> {
        self.out.push(json!({"k":"binary","ln":0,"off":off,"len":0}));
        self.verdict()
    }
    fn finish(&mut self, _s: &Searcher, f: &SinkFinish) -> Result<(), io::Error> {
        self.out.push(json!({"k":"finish","ln":f.binary_byte_offset().map(|o| o + 1).unwrap_or(0),
            "off":f.byte_count(),"len":1}));
        Ok(())
    }
}

/// The sink reaches the searcher either as `&mut S` or inside a `Box<dyn Sink>` (both are public ways of passing one;
/// each goes through its own forwarding impl in sink.rs): decided per scenario, deterministically.
fn do_search<M: Matcher>(
    matcher: M,
    searcher: &mut Searcher,
    strat: &str,
    inp: &[u8],
    rdr: &mut ScriptedReader<'_>,
    sink: &mut RecSink<'_>,
) -> Result<(), io::Error> {
    let boxed = (inp.len() + sink.stop_at + sink.err_at + rdr.reads.len()) % 2 == 1;
    if boxed {
        let b: Box<dyn Sink<Error = io::Error> + '_> = Box::new(sink);
        do_search_with(matcher, searcher, strat, inp, rdr, b)
    } else {
        do_search_with(matcher, searcher, strat, inp, rdr, sink)
    }
}

fn do_search_with<M: Matcher, S: Sink<Error = io::Error>>(
    matcher: M,
    searcher: &mut Searcher,
    strat: &str,
    inp: &[u8],
    rdr: &mut ScriptedReader<'_>,
    sink: S,
) -> Result<(), io::Error> {
    match strat {
        "reader" => searcher.search_reader(matcher, rdr, sink),
        "slice" => searcher.search_slice(matcher, inp, sink),
        "mmap" | "file" => {
            let dir = std::env::temp_dir().join(format!("verif-rs-{}", std::process::id()));
            std::fs::create_dir_all(&dir).unwrap();
            let p = dir.join("input");
            std::fs::File::create(&p).unwrap().write_all(inp).unwrap();
            let r = searcher.search_path(matcher, &p, sink);
            let _ = std::fs::remove_file(&p);
            r
        }
        other => Err(io::Error::new(io::ErrorKind::Other, format!("unknown strat {other}"))),
    }
}

fn run_one(v: &Value, cache: &mut std::collections::HashMap<String, Searcher>) -> Value {
    let scn = &v["scn"];
    let inp = bytes_of(&scn["inp"]);
    let cfg = &scn["cfg"];
    let term = cfg["term"].as_str().unwrap_or("lf");
    let lt = match term {
        "crlf" => LineTerminator::crlf(),
        "nul" => LineTerminator::byte(0),
        _ => LineTerminator::byte(b'\n'),
    };
    let path = scn["path"].as_str().unwrap_or("slow");
    let strat = v.get("strat_override").and_then(|s| s.as_str()).unwrap_or(scn["strat"].as_str().unwrap_or("reader"));
    let bin = scn["bin"].as_str().unwrap_or("none");
    let cap0 = scn["cap0"].as_u64().map(|c| c as usize);
    let multi_line = v.get("multi_line").and_then(|b| b.as_bool()).unwrap_or(false);
    let heap_limit = v.get("heap_limit").and_then(|b| b.as_u64()).map(|x| x as usize);
    // "nm_only": the matcher has no line terminator of its own but declares the terminator byte (and only it) non-matching
    let nm_only = v.get("nm_only").and_then(|b| b.as_bool()).unwrap_or(false);
    let matcher = MMatcher {
        term: if path == "slow" || nm_only { None } else { Some(lt) },
        candidate: path == "cand" && !nm_only,
        non_matching: if nm_only {
            let mut set = grep_matcher::ByteSet::empty();
            set.add(lt.as_byte());
            Some(set)
        } else {
            None
        },
    };
    let mut b = SearcherBuilder::new();
    b.line_terminator(lt)
        .invert_match(cfg["inv"].as_bool().unwrap_or(false))
        .after_context(cfg["A"].as_u64().unwrap_or(0) as usize)
        .before_context(cfg["B"].as_u64().unwrap_or(0) as usize)
        .passthru(cfg["pass"].as_bool().unwrap_or(false))
        .line_number(cfg["lnum"].as_bool().unwrap_or(true))
        .stop_on_nonmatch(cfg["stopnm"].as_bool().unwrap_or(false))
        .multi_line(multi_line)
        .bom_sniffing(false)
        .binary_detection(match bin {
            "quit" => BinaryDetection::quit(0),
            "convert" => BinaryDetection::convert(0),
            _ => BinaryDetection::none(),
        });
    if heap_limit.is_some() {
        b.heap_limit(heap_limit);
    } else {
        b.verif_buffer_capacity(cap0);
    }
    if strat == "mmap" {
        b.memory_map(unsafe { MmapChoice::auto() });
    }
    // Searchers are meant to be reused: keep one per distinct configuration so that state leaking
    // from one search into the next (roll buffer, offsets, binary detection) is observable.
    let key = format!("{}|{}|{}|{}|{:?}|{:?}|{}|{}", cfg, strat == "mmap", bin, multi_line, heap_limit, cap0, path == "slow", nm_only);
    if cache.len() > 256 {
        cache.clear();
    }
    // With binary detection the result legitimately depends on the roll buffer's current size,
    // which an earlier search may have grown: start those from a fresh searcher.
    if bin != "none" {
        cache.remove(&key);
    }
    let reused = cache.contains_key(&key);
    let searcher = cache.entry(key).or_insert_with(|| b.build());
    let mut sink = RecSink {
        inp: &inp,
        out: vec![],
        stop_at: scn["stopAt"].as_u64().unwrap_or(0) as usize,
        err_at: scn["errAt"].as_u64().unwrap_or(0) as usize,
        bytes_ok: true,
        convert: bin == "convert",
        term_byte: lt.as_byte(),
    };
    let reads: Vec<usize> =
        v["reads"].as_array().map(|a| a.iter().map(|x| x.as_u64().unwrap_or(0) as usize).collect()).unwrap_or_default();
    let mut rdr = ScriptedReader {
        data: &inp,
        at: 0,
        reads,
        calls: 0,
        fault_at: scn["faultAt"].as_u64().unwrap_or(0) as usize,
        fault_kind: if scn.get("faultKind").and_then(|k| k.as_str()) == Some("intr") {
            io::ErrorKind::Interrupted
        } else {
            io::ErrorKind::Other
        },
        fallback: v.get("fallback").and_then(|f| f.as_u64()).unwrap_or(0) as usize,
        wants: vec![],
        gots: vec![],
    };
    let pattern = v.get("pattern").and_then(|p| p.as_str());
    let res = match pattern {
        None => catch_unwind(AssertUnwindSafe(|| do_search(&matcher, searcher, strat, &inp, &mut rdr, &mut sink))),
        Some(pat) => {
            // the matcher rg builds for -U: no line terminator, optional dotall / crlf / word / line / case
            let mut mb = grep_regex::RegexMatcherBuilder::new();
            let mo = &v["mopts"];
            let b = |k: &str| mo.get(k).and_then(|x| x.as_bool()).unwrap_or(false);
            mb.multi_line(true)
                .octal(false)
                .case_insensitive(b("ci"))
                .word(b("word") && !b("line"))
                .whole_line(b("line"))
                .dot_matches_new_line(b("dotall"));
            if b("crlf") {
                mb.crlf(true);
            }
            mb.line_terminator(None);
            match mb.build(pat) {
                Err(e) => Ok(Err(io::Error::new(io::ErrorKind::Other, format!("build: {e}")))),
                Ok(m) => catch_unwind(AssertUnwindSafe(|| do_search(&m, searcher, strat, &inp, &mut rdr, &mut sink))),
            }
        }
    };
    let (result, err) = match res {
        Err(p) => {
            let msg = p.downcast_ref::<String>().cloned().or_else(|| p.downcast_ref::<&str>().map(|s| s.to_string())).unwrap_or_default();
            ("panic".to_string(), msg)
        }
        Ok(Ok(())) => ("ok".to_string(), String::new()),
        Ok(Err(e)) => {
            let m = e.to_string();
            let r = if m.contains("injected-sink") {
                "err_sink"
            } else if m.contains("injected-read") {
                "err_io"
            } else {
                "err_other"
            };
            (r.to_string(), m)
        }
    };
    json!({"out": sink.out, "result": result, "err": err, "nreads": rdr.calls, "wants": rdr.wants, "gots": rdr.gots,
           "bytes_ok": sink.bytes_ok, "strat": strat, "reused": reused})
}

fn main() {
    std::panic::set_hook(Box::new(|_| {}));
    let mut cache = std::collections::HashMap::new();
    for_each_json_line(|v| run_one(&v, &mut cache));
    let _ = std::fs::remove_dir_all(std::env::temp_dir().join(format!("verif-rs-{}", std::process::id())));
}

//! S->I driver for the Transcode model (C17).
//!
//! argv[1]: JSON array of variants
//!   {"name", "strat": "reader"|"slice"|"file"|"mmap", "chunk": "tlc"|"onebyte"|"max",
//!    "cap": n|null (roll buffer capacity, hook H1), "dbuf": n|null (transcoding scratch buffer length, hook H1),
//!    "cfg": "plain"|"pass"|"multi"}
//! stdin, one JSON value per line:
//!   {"op":"tables","sj":[[bytes]...]}          -> decode tables straight from encoding_rs (trusted)
//!   {"op":"search","bytes":[..],"label":"auto"|"none"|<whatwg label>,"cuts":[..],"dec":[..],
//!    "eff":"raw"|"le"|"be"|"u8"|"l1"|"sj","strip":n,"cutbase":bool}
//!      -> the event streams the real grep-searcher delivers for every variant (grouped by equal
//!         outcome), the streams of the same searcher on `dec` without any transcoding ("base"), and
//!         the one-shot encoding_rs transcoding of bytes[strip..] as `eff` (self-test of the spec).
use std::collections::HashMap;
use std::io::{self, Read, Write};
use std::panic::{catch_unwind, AssertUnwindSafe};
use std::path::PathBuf;

use grep_matcher::{LineMatchKind, LineTerminator, Match, Matcher, NoCaptures, NoError};
use grep_searcher::{
    BinaryDetection, Encoding, MmapChoice, Searcher, SearcherBuilder, Sink, SinkContext, SinkFinish, SinkMatch,
};
use serde_json::{json, Value};
use verif_harness::util::{bytes_of, for_each_json_line};

/// A line matches iff it contains `m`.
#[derive(Clone, Debug)]
struct MMatcher {
    term: Option<LineTerminator>,
}

impl Matcher for MMatcher {
    type Captures = NoCaptures;
    type Error = NoError;

    fn find_at(&self, haystack: &[u8], at: usize) -> Result<Option<Match>, NoError> {
        Ok(haystack[at..].iter().position(|&b| b == b'm').map(|i| Match::new(at + i, at + i + 1)))
    }
    fn new_captures(&self) -> Result<NoCaptures, NoError> {
        Ok(NoCaptures::new())
    }
    fn line_terminator(&self) -> Option<LineTerminator> {
        self.term
    }
    fn find_candidate_line(&self, haystack: &[u8]) -> Result<Option<LineMatchKind>, NoError> {
        Ok(self.shortest_match(haystack)?.map(LineMatchKind::Confirmed))
    }
}

/// Delivers the data in pieces: a read never crosses one of the `cuts` (absolute offsets).
struct CutReader<'a> {
    data: &'a [u8],
    at: usize,
    cuts: &'a [usize],
    mode: u8, // 0 = cuts, 1 = one byte per read, 2 = as much as asked for
    calls: usize,
}

impl<'a> Read for CutReader<'a> {
    fn read(&mut self, buf: &mut [u8]) -> io::Result<usize> {
        self.calls += 1;
        let remaining = self.data.len() - self.at;
        if remaining == 0 || buf.is_empty() {
            return Ok(0);
        }
        let limit = match self.mode {
            1 => 1,
            2 => remaining,
            _ => self.cuts.iter().find(|&&c| c > self.at).map(|&c| c - self.at).unwrap_or(remaining),
        };
        let n = limit.min(buf.len()).min(remaining);
        buf[..n].copy_from_slice(&self.data[self.at..self.at + n]);
        self.at += n;
        Ok(n)
    }
}

#[derive(Default)]
struct RecSink {
    out: Vec<Value>,
}

impl RecSink {
    fn line(&mut self, k: &str, ln: Option<u64>, off: u64, bytes: &[u8]) {
        self.out.push(json!({"k": k, "ln": ln.unwrap_or(0), "off": off, "len": bytes.len(), "data": bytes}));
    }
}

impl Sink for RecSink {
    type Error = io::Error;

    fn begin(&mut self, _s: &Searcher) -> Result<bool, io::Error> {
        self.out.push(json!({"k":"begin","ln":0,"off":0,"len":0}));
        Ok(true)
    }
    fn matched(&mut self, _s: &Searcher, m: &SinkMatch<'_>) -> Result<bool, io::Error> {
        self.line("match", m.line_number(), m.absolute_byte_offset(), m.bytes());
        Ok(true)
    }
    fn context(&mut self, _s: &Searcher, c: &SinkContext<'_>) -> Result<bool, io::Error> {
        self.line("ctx", c.line_number(), c.absolute_byte_offset(), c.bytes());
        Ok(true)
    }
    fn context_break(&mut self, _s: &Searcher) -> Result<bool, io::Error> {
        self.out.push(json!({"k":"break","ln":0,"off":0,"len":0}));
        Ok(true)
    }
    fn binary_data(&mut self, _s: &Searcher, off: u64) -> Result<bool, io::Error> {
        self.out.push(json!({"k":"binary","ln":0,"off":off,"len":0}));
        Ok(true)
    }
    fn finish(&mut self, _s: &Searcher, f: &SinkFinish) -> Result<(), io::Error> {
        self.out.push(json!({"k":"finish","ln":0,"off":f.byte_count(),"len":1}));
        Ok(())
    }
}

struct Variant {
    name: String,
    strat: String,
    chunk: u8,
    cap: Option<usize>,
    dbuf: Option<usize>,
    cfg: String,
    /// heap limit = length of the UTF-8 transcoding + this many bytes (just sufficient); None = no limit
    heap: Option<usize>,
}

fn parse_variants(v: &Value) -> Vec<Variant> {
    v.as_array()
        .expect("variants: array")
        .iter()
        .map(|x| Variant {
            name: x["name"].as_str().unwrap().to_string(),
            strat: x["strat"].as_str().unwrap().to_string(),
            chunk: match x["chunk"].as_str().unwrap_or("max") {
                "tlc" => 0,
                "onebyte" => 1,
                _ => 2,
            },
            cap: x["cap"].as_u64().map(|n| n as usize),
            dbuf: x["dbuf"].as_u64().map(|n| n as usize),
            cfg: x["cfg"].as_str().unwrap_or("plain").to_string(),
            heap: x["heap"].as_u64().map(|n| n as usize),
        })
        .collect()
}

fn build_searcher(label: &str, cfg: &str, mmap: bool, cap: Option<usize>, dbuf: Option<usize>, heap: Option<usize>) -> Result<Searcher, String> {
    let mut b = SearcherBuilder::new();
    b.heap_limit(heap);
    b.line_terminator(LineTerminator::byte(b'\n'))
        .line_number(true)
        .passthru(cfg == "pass")
        .multi_line(cfg == "multi")
        .binary_detection(BinaryDetection::none())
        .verif_buffer_capacity(cap);
    match label {
        "auto" => {}
        "none" => {
            b.bom_sniffing(false);
        }
        "raw" => {
            // the reference run on the spec's transcoding: no transcoding machinery at all
            b.bom_sniffing(false);
        }
        l => {
            b.encoding(Some(Encoding::new(l).map_err(|e| e.to_string())?));
        }
    }
    if mmap {
        b.memory_map(unsafe { MmapChoice::auto() });
    }
    let mut s = b.build();
    if let Some(n) = dbuf {
        s.verif_set_decode_buffer_len(n);
    }
    Ok(s)
}

fn matcher_for(cfg: &str) -> MMatcher {
    // plain: fast path (matcher declares the line terminator); pass / multi: no declaration
    MMatcher { term: if cfg == "plain" { Some(LineTerminator::byte(b'\n')) } else { None } }
}

struct Ctx {
    variants: Vec<Variant>,
    cache: HashMap<String, Searcher>,
    dir: PathBuf,
}

fn run_search(ctx: &mut Ctx, key: String, label: &str, v: &Variant, data: &[u8], cuts: &[usize], file: &PathBuf, declen: usize) -> Value {
    if ctx.cache.len() > 512 {
        ctx.cache.clear();
    }
    // A roll buffer that has grown stays grown: variants with a tiny capacity get a fresh searcher every
    // time; the others are reused across scenarios (searchers are meant to be reused, state leaking from
    // one search into the next would show).
    if v.cap.is_some() || v.heap.is_some() {
        ctx.cache.remove(&key);
    }
    if !ctx.cache.contains_key(&key) {
        match build_searcher(label, &v.cfg, v.strat == "mmap", v.cap, v.dbuf, v.heap.map(|extra| declen + extra)) {
            Ok(s) => {
                ctx.cache.insert(key.clone(), s);
            }
            Err(e) => return json!({"out": [], "result": "err_config", "err": e}),
        }
    }
    let searcher = ctx.cache.get_mut(&key).unwrap();
    let matcher = matcher_for(&v.cfg);
    let mut sink = RecSink::default();
    let mut rdr = CutReader { data, at: 0, cuts, mode: v.chunk, calls: 0 };
    let res = catch_unwind(AssertUnwindSafe(|| match v.strat.as_str() {
        "reader" => searcher.search_reader(&matcher, &mut rdr, &mut sink),
        "slice" => searcher.search_slice(&matcher, data, &mut sink),
        "file" | "mmap" => searcher.search_path(&matcher, file, &mut sink),
        other => Err(io::Error::new(io::ErrorKind::Other, format!("unknown strat {other}"))),
    }));
    match res {
        Err(p) => {
            let msg = p.downcast_ref::<String>().cloned().or_else(|| p.downcast_ref::<&str>().map(|s| s.to_string())).unwrap_or_default();
            ctx.cache.remove(&key);
            json!({"out": sink.out, "result": "panic", "err": msg})
        }
        Ok(Ok(())) => json!({"out": sink.out, "result": "ok"}),
        Ok(Err(e)) => json!({"out": sink.out, "result": "err", "err": e.to_string()}),
    }
}

fn oneshot(eff: &str, bytes: &[u8]) -> Value {
    let enc = match eff {
        "le" => encoding_rs::UTF_16LE,
        "be" => encoding_rs::UTF_16BE,
        "u8" => encoding_rs::UTF_8,
        "l1" => encoding_rs::Encoding::for_label(b"latin1").unwrap(),
        "sj" => encoding_rs::Encoding::for_label(b"shift_jis").unwrap(),
        _ => return json!(bytes),
    };
    let (s, _) = enc.decode_without_bom_handling(bytes);
    json!(s.as_bytes())
}

fn write_file(path: &PathBuf, data: &[u8]) {
    std::fs::File::create(path).unwrap().write_all(data).unwrap();
}

fn run_one(ctx: &mut Ctx, v: &Value) -> Value {
    match v["op"].as_str().unwrap_or("search") {
        "tables" => {
            let l1 = encoding_rs::Encoding::for_label(b"latin1").unwrap();
            let sj = encoding_rs::Encoding::for_label(b"shift_jis").unwrap();
            let t1: Vec<Value> = (0u16..256)
                .map(|b| {
                    let one = [b as u8];
                    let (s, _) = l1.decode_without_bom_handling(&one);
                    json!(s.as_bytes())
                })
                .collect();
            let t2: Vec<Value> = v["sj"]
                .as_array()
                .map(|a| {
                    a.iter()
                        .map(|t| {
                            let tok = bytes_of(t);
                            let (s, _) = sj.decode_without_bom_handling(&tok);
                            json!([tok, s.as_bytes()])
                        })
                        .collect()
                })
                .unwrap_or_default();
            json!({"l1": t1, "sj": t2, "l1_name": l1.name(), "sj_name": sj.name()})
        }
        _ => {
            let bytes = bytes_of(&v["bytes"]);
            let dec = bytes_of(&v["dec"]);
            let label = v["label"].as_str().unwrap_or("auto").to_string();
            let cuts: Vec<usize> = v["cuts"].as_array().map(|a| a.iter().map(|x| x.as_u64().unwrap() as usize).collect()).unwrap_or_default();
            let only: Option<Vec<String>> = v.get("only").and_then(|o| o.as_array()).map(|a| a.iter().filter_map(|s| s.as_str().map(String::from)).collect());
            let file = ctx.dir.join("input");
            let decfile = ctx.dir.join("decoded");
            let mut wrote = false;
            // grouped observations
            let mut groups: Vec<(String, Value, Vec<String>)> = vec![];
            let variants = std::mem::take(&mut ctx.variants);
            for var in &variants {
                if let Some(o) = &only {
                    if !o.contains(&var.name) {
                        continue;
                    }
                }
                if (var.strat == "file" || var.strat == "mmap") && !wrote {
                    write_file(&file, &bytes);
                    wrote = true;
                }
                let key = format!("{}|{}", var.name, label);
                let obs = run_search(ctx, key, &label, var, &bytes, &cuts, &file, dec.len());
                let s = obs.to_string();
                match groups.iter_mut().find(|g| g.0 == s) {
                    Some(g) => g.2.push(var.name.clone()),
                    None => groups.push((s, obs, vec![var.name.clone()])),
                }
            }
            // the same searcher on the spec's transcoding, nothing configured: one run per result configuration
            let mut base = serde_json::Map::new();
            for cfg in ["plain", "pass", "multi"] {
                if !variants.iter().any(|x| x.cfg == cfg) {
                    continue;
                }
                let bv = Variant { name: format!("base-{cfg}"), strat: "slice".into(), chunk: 2, cap: None, dbuf: None, cfg: cfg.into(), heap: None };
                let obs = run_search(ctx, format!("base|{cfg}"), "raw", &bv, &dec, &[], &decfile, dec.len());
                base.insert(cfg.to_string(), obs);
            }
            // mechanism naming only: the same search on the transcoding minus its last 1..3 bytes
            let mut cut = serde_json::Map::new();
            if v["cutbase"].as_bool().unwrap_or(false) {
                for cfg in ["plain", "pass", "multi"] {
                    if !variants.iter().any(|x| x.cfg == cfg) {
                        continue;
                    }
                    let mut per = vec![];
                    for j in 1..=3usize {
                        if j > dec.len() {
                            break;
                        }
                        let bv = Variant { name: format!("base-{cfg}"), strat: "slice".into(), chunk: 2, cap: None, dbuf: None, cfg: cfg.into(), heap: None };
                        per.push(run_search(ctx, format!("base|{cfg}"), "raw", &bv, &dec[..dec.len() - j], &[], &decfile, dec.len()));
                    }
                    cut.insert(cfg.to_string(), Value::Array(per));
                }
            }
            ctx.variants = variants;
            let strip = v["strip"].as_u64().unwrap_or(0) as usize;
            let one = oneshot(v["eff"].as_str().unwrap_or("raw"), &bytes[strip.min(bytes.len())..]);
            let obs: Vec<Value> = groups.into_iter().map(|(_, o, names)| json!({"variants": names, "obs": o})).collect();
            json!({"groups": obs, "base": base, "base_cut": cut, "oneshot": one})
        }
    }
}

fn main() {
    std::panic::set_hook(Box::new(|_| {}));
    let args: Vec<String> = std::env::args().collect();
    let variants = match args.get(1) {
        Some(a) => parse_variants(&serde_json::from_str::<Value>(a).expect("variants json")),
        None => vec![],
    };
    let dir = std::env::temp_dir().join(format!("verif-tc-{}", std::process::id()));
    std::fs::create_dir_all(&dir).unwrap();
    let mut ctx = Ctx { variants, cache: HashMap::new(), dir: dir.clone() };
    for_each_json_line(|v| run_one(&mut ctx, &v));
    let _ = std::fs::remove_dir_all(&dir);
}

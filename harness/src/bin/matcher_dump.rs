//! C11 driver.  For each scenario builds the real RegexMatcher the way rg does and reports what the
//! matcher promises: the final HIR and the fast-line literal HIR (hook H3, rendered into the spec's
//! symbol space), the bytes declared non-matching, the line terminator; and, on request, probes the
//! matcher on concrete lines (witness confirmation).
//!
//! stdin:  {"patterns":[..],"ci","smart","word","line","crlf","nul","fixed":bool, "probe":[[bytes]...]?}
//! stdout: {"ok":bool,"err":..,"hir":AST|null,"lits":[[syms]]|null,"nonmatching":[syms],"term":..,"probes":[..]}
use grep_matcher::{LineMatchKind, Matcher};
use grep_regex::RegexMatcherBuilder;
use regex_syntax::hir::{self, Hir, HirKind, Look};
use serde_json::{json, Value};
use verif_harness::util::{bytes_of, for_each_json_line};

/// symbol table shared with lib/regexrender.py and specs/regex/Syntax.tla
const SYMS: &[(u32, &[u8])] = &[
    (1, b"a"), (2, b"b"), (3, b"A"), (4, b"B"), (5, b"_"), (6, b"0"), (7, b" "), (8, b"-"), (9, b"."),
    (10, "é".as_bytes()), (11, "É".as_bytes()), (12, b"\xff"), (13, b"\r"), (14, b"\n"), (15, b"\x00"),
];

fn sym_char(sym: u32) -> Option<char> {
    SYMS.iter().find(|(s, _)| *s == sym).and_then(|(_, b)| std::str::from_utf8(b).ok()).and_then(|s| s.chars().next())
}

fn lit_to_syms(mut b: &[u8]) -> Option<Vec<u32>> {
    let mut out = vec![];
    'outer: while !b.is_empty() {
        for (s, bytes) in SYMS {
            if b.starts_with(bytes) {
                out.push(*s);
                b = &b[bytes.len()..];
                continue 'outer;
            }
        }
        return None;
    }
    Some(out)
}

thread_local! {
    static ASCII_ONLY: std::cell::Cell<bool> = std::cell::Cell::new(false);
}

fn hir_to_ast(h: &Hir) -> Option<Value> {
    Some(match h.kind() {
        HirKind::Empty => json!({"k":"eps"}),
        HirKind::Literal(hir::Literal(b)) => {
            let syms = lit_to_syms(b)?;
            let mut it = syms.into_iter().rev();
            let mut acc = json!({"k":"set","s":[it.next()?]});
            for s in it {
                acc = json!({"k":"cat","a":{"k":"set","s":[s]},"b":acc});
            }
            acc
        }
        HirKind::Class(hir::Class::Unicode(cls)) => {
            let mut s = vec![];
            for (sym, _) in SYMS {
                if let Some(c) = sym_char(*sym) {
                    if cls.ranges().iter().any(|r| r.start() <= c && c <= r.end()) {
                        s.push(*sym);
                    }
                }
            }
            json!({"k":"set","s":s})
        }
        HirKind::Class(hir::Class::Bytes(cls)) => {
            let mut s = vec![];
            for (sym, b) in SYMS {
                if b.len() == 1 && cls.ranges().iter().any(|r| r.start() <= b[0] && b[0] <= r.end()) {
                    s.push(*sym);
                }
            }
            // byte classes that can match a lone byte of a multi-byte symbol are outside the symbol space, unless the
            // job says that multi-byte symbols do not occur (byte-mode patterns, "ascii_only")
            if !ASCII_ONLY.with(|a| a.get()) && cls.ranges().iter().any(|r| r.end() >= 0x80 && r.start() < 0xFF) {
                return None;
            }
            json!({"k":"set","s":s})
        }
        HirKind::Look(l) => {
            let n = match l {
                Look::Start => "bot",
                Look::End => "eot",
                Look::StartLF => "bol",
                Look::EndLF => "eol",
                Look::StartCRLF => "bolc",
                Look::EndCRLF => "eolc",
                Look::WordAscii | Look::WordUnicode => "wb",
                Look::WordAsciiNegate | Look::WordUnicodeNegate => "nwb",
                Look::WordStartHalfAscii | Look::WordStartHalfUnicode => "ws",
                Look::WordEndHalfAscii | Look::WordEndHalfUnicode => "we",
                _ => return None,
            };
            json!({"k":"look","l":n})
        }
        HirKind::Repetition(r) => {
            json!({"k":"rep","a":hir_to_ast(&r.sub)?,"min":r.min,"max":r.max.unwrap_or(9999),"g":r.greedy})
        }
        HirKind::Capture(c) => hir_to_ast(&c.sub)?,
        HirKind::Concat(xs) => {
            let mut it = xs.iter().rev();
            let mut acc = hir_to_ast(it.next()?)?;
            for x in it {
                acc = json!({"k":"cat","a":hir_to_ast(x)?,"b":acc});
            }
            acc
        }
        HirKind::Alternation(xs) => {
            let mut it = xs.iter().rev();
            let mut acc = hir_to_ast(it.next()?)?;
            for x in it {
                acc = json!({"k":"alt","a":hir_to_ast(x)?,"b":acc});
            }
            acc
        }
    })
}

fn lits_of(h: &Hir) -> Option<Vec<Vec<u32>>> {
    match h.kind() {
        HirKind::Literal(hir::Literal(b)) => Some(vec![lit_to_syms(b)?]),
        HirKind::Alternation(xs) => {
            let mut out = vec![];
            for x in xs {
                match x.kind() {
                    HirKind::Literal(hir::Literal(b)) => out.push(lit_to_syms(b)?),
                    _ => return None,
                }
            }
            Some(out)
        }
        HirKind::Empty => Some(vec![vec![]]),
        // an alternation of one-character literals is folded into a class
        HirKind::Class(hir::Class::Unicode(cls)) => {
            let total: usize = cls.ranges().iter().map(|r| r.len()).sum();
            let mut out = vec![];
            for (sym, _) in SYMS {
                if let Some(c) = sym_char(*sym) {
                    if cls.ranges().iter().any(|r| r.start() <= c && c <= r.end()) {
                        out.push(vec![*sym]);
                    }
                }
            }
            if out.len() == total { Some(out) } else { None }
        }
        HirKind::Class(hir::Class::Bytes(cls)) => {
            let total: usize = cls.ranges().iter().map(|r| r.len()).sum();
            let mut out = vec![];
            for (sym, b) in SYMS {
                if b.len() == 1 && cls.ranges().iter().any(|r| r.start() <= b[0] && b[0] <= r.end()) {
                    out.push(vec![*sym]);
                }
            }
            if out.len() == total { Some(out) } else { None }
        }
        _ => None,
    }
}

fn main() {
    for_each_json_line(|v| {
        let pats: Vec<String> =
            v["patterns"].as_array().map(|a| a.iter().map(|p| p.as_str().unwrap_or("").to_string()).collect()).unwrap_or_default();
        let b = |k: &str| v[k].as_bool().unwrap_or(false);
        ASCII_ONLY.with(|a| a.set(b("ascii_only")));
        let mut mb = RegexMatcherBuilder::new();
        mb.multi_line(true).octal(false).fixed_strings(b("fixed"));
        if b("ci") {
            mb.case_insensitive(true);
        } else if b("smart") {
            mb.case_smart(true);
        }
        if b("line") {
            mb.whole_line(true);
        } else if b("word") {
            mb.word(true);
        }
        mb.line_terminator(Some(b'\n')).dot_matches_new_line(false);
        if b("crlf") {
            mb.crlf(true);
        }
        if b("nul") {
            mb.line_terminator(Some(0));
        }
        // rg bans NUL from patterns unless --text is given (binary detection on); "ban":false switches it off
        if v["ban"].as_bool().unwrap_or(true) {
            mb.ban_byte(Some(0));
        }
        let m = match mb.build_many(&pats) {
            Ok(m) => m,
            Err(e) => return json!({"ok": false, "err": e.to_string()}),
        };
        let (fin, lit) = grep_regex::verif::last_hirs();
        let hir = fin.as_ref().and_then(hir_to_ast);
        let lits = match &lit {
            None => Value::Null,
            Some(h) => match lits_of(h) {
                Some(l) => json!(l),
                None => json!("unrepresentable"),
            },
        };
        let nm = m.non_matching_bytes();
        let nonmatching: Vec<u32> = SYMS
            .iter()
            .filter(|(_, by)| by.iter().any(|x| nm.map_or(false, |set| set.contains(*x))))
            .map(|(s, _)| *s)
            .collect();
        let term = m.line_terminator().map(|t| t.as_bytes().to_vec());
        let mut probes = vec![];
        if let Some(ps) = v["probe"].as_array() {
            for p in ps {
                let line = bytes_of(p);
                let tb: Vec<u8> = if b("nul") { vec![0] } else if b("crlf") { vec![b'\r', b'\n'] } else { vec![b'\n'] };
                let mut with_term = line.clone();
                with_term.extend_from_slice(&tb);
                let cand = m.find_candidate_line(&with_term).unwrap();
                let cand_s = match cand {
                    None => json!(null),
                    Some(LineMatchKind::Confirmed(i)) => json!({"confirmed": i}),
                    Some(LineMatchKind::Candidate(i)) => json!({"candidate": i}),
                };
                let f = m.find(&line).unwrap().map(|x| (x.start(), x.end()));
                let fw = m.find(&with_term).unwrap().map(|x| (x.start(), x.end()));
                probes.push(json!({"is_match": m.is_match(&line).unwrap(), "find": f, "find_with_term": fw, "candidate_with_term": cand_s}));
            }
        }
        json!({"ok": true, "hir": hir, "hir_str": fin.map(|h| h.to_string()), "lits": lits, "lit_str": lit.map(|h| h.to_string()),
               "nonmatching": nonmatching, "term": term, "probes": probes})
    });
}

//! Classifies a disagreement: is the regex engine (regex-automata's meta::Regex, a dependency that
//! ripgrep uses unmodified) itself inconsistent on this pattern and haystack?  It is when its
//! unanchored leftmost search (`find`, or the half search ripgrep's fast line path uses) skips a
//! position at which its own anchored search finds a match.  The engine is built from the very HIR
//! the matcher was built from (hook H3) with the configuration of `ConfiguredHIR::to_regex`.
//! stdin: {"patterns":[..], "ci","smart","word","line","crlf","nul","fixed": bool, "hay":[bytes]}
use grep_regex::RegexMatcherBuilder;
use regex_automata::{meta::Regex, Anchored, Input};
use serde_json::json;
use verif_harness::util::{bytes_of, for_each_json_line};

fn main() {
    for_each_json_line(|v| {
        let pats: Vec<String> =
            v["patterns"].as_array().map(|a| a.iter().map(|p| p.as_str().unwrap_or("").to_string()).collect()).unwrap_or_default();
        let hay = bytes_of(&v["hay"]);
        let b = |k: &str| v[k].as_bool().unwrap_or(false);
        let mut mb = RegexMatcherBuilder::new();
        mb.multi_line(true)
            .case_insensitive(b("ci"))
            .case_smart(b("smart"))
            .word(b("word"))
            .whole_line(b("line"))
            .fixed_strings(b("fixed"));
        if b("nul") {
            mb.line_terminator(Some(0));
        } else {
            mb.line_terminator(Some(b'\n'));
            if b("crlf") {
                mb.crlf(true);
            }
        }
        if let Err(e) = mb.build_many(&pats) {
            return json!({"error": e.to_string()});
        }
        let hir = match grep_regex::verif::last_hirs().0 {
            Some(h) => h,
            None => return json!({"error": "no final hir stashed"}),
        };
        let meta = Regex::config()
            .utf8_empty(false)
            .nfa_size_limit(Some(100 * (1 << 20)))
            .onepass_size_limit(Some(10 * (1 << 20)))
            .dfa_size_limit(Some(1 * (1 << 20)))
            .dfa_state_limit(Some(1_000))
            .hybrid_cache_capacity(1000 * (1 << 20));
        let re = match Regex::builder().configure(meta).build_from_hir(&hir) {
            Ok(r) => r,
            Err(e) => return json!({"error": e.to_string()}),
        };
        let mut inconsistent = vec![];
        let mut pos = 0usize;
        while pos <= hay.len() {
            let un = re.find(Input::new(&hay[..]).span(pos..hay.len()));
            let mut brute = None;
            for s in pos..=hay.len() {
                if let Some(m) = re.find(Input::new(&hay[..]).span(s..hay.len()).anchored(Anchored::Yes)) {
                    brute = Some((s, m.end()));
                    break;
                }
            }
            let un_t = un.map(|m| (m.start(), m.end()));
            let half = re.search_half(&Input::new(&hay[..]).span(pos..hay.len())).map(|h| h.offset());
            if half != brute.map(|t| t.1) {
                inconsistent.push(json!({"from": pos, "half": half, "anchored_scan": brute}));
                break;
            }
            if un_t.map(|t| t.0) != brute.map(|t| t.0) {
                inconsistent.push(json!({"from": pos, "unanchored": un_t, "anchored_scan": brute}));
                break;
            }
            match brute {
                None => break,
                // continue after the line holding the match, as the fast line path does
                Some((_, e)) => {
                    let nl = hay[e.min(hay.len())..].iter().position(|&c| c == b'\n' || (b("nul") && c == 0));
                    pos = match nl { Some(i) => e + i + 1, None => hay.len() + 1 };
                }
            }
        }
        json!({"engine_inconsistent": !inconsistent.is_empty(), "detail": inconsistent, "hir": hir.to_string()})
    });
}

//! I->S driver for C07 (and schedule perturbation for C06/C08): runs the real parallel walker on a
//! generated directory tree under a deterministic scheduler that admits exactly one worker between
//! two hooked synchronisation points (hook H2), and records the events in the order they happen.
//!
//! stdin: one scenario per line
//!   {"id":..,"tree":["r1/","r1/a","r1/b/","r1/b/c","r2"],"roots":["r1","r2"],"threads":3,
//!    "seed":1,"mode":"random"|"pct"|"forced","forced":[1,2,1,...],"quit":["r1/b"],"max_steps":20000}
//! stdout: one result per line {"id":..,"trace":[...],"visits":{path:count},"hang":bool,"steps":n,...}
use std::collections::{BTreeMap, BTreeSet};
use std::io::{BufRead, Write};
use std::path::{Path, PathBuf};
use std::sync::{Arc, Condvar, Mutex};
use std::time::{Duration, Instant};

use ignore::verif::{Event, Hook};
use ignore::{WalkBuilder, WalkState};
use rand::rngs::StdRng;
use rand::{Rng, SeedableRng};
use serde_json::{json, Value};

thread_local! {
    static WORKER: std::cell::Cell<usize> = std::cell::Cell::new(usize::MAX);
}

struct Inner {
    root: PathBuf,
    threads: usize,
    started: BTreeSet<usize>,
    exited: BTreeSet<usize>,
    waiting: BTreeMap<usize, &'static str>,
    running: Option<usize>,
    rng: StdRng,
    mode: String,
    forced: Vec<usize>,
    forced_at: usize,
    prio: Vec<i64>,
    change_points: BTreeSet<usize>,
    low: i64,
    trace: Vec<Value>,
    steps: usize,
    max_steps: usize,
    hang: bool,
    choices: Vec<usize>,
    cand_log: Vec<Vec<usize>>,
    visits: BTreeMap<String, usize>,
    last_idle_fail: BTreeSet<usize>,
}

struct Sched {
    m: Mutex<Inner>,
    cv: Condvar,
}

fn rel(root: &Path, p: &Path) -> String {
    p.strip_prefix(root).unwrap_or(p).to_string_lossy().to_string()
}

impl Sched {
    /// Called with the lock held when nobody is running: if every live worker is parked, pick one.
    fn decide(&self, g: &mut Inner) {
        if g.running.is_some() || g.hang {
            return;
        }
        let live = g.threads - g.exited.len();
        if live == 0 || g.waiting.len() < live {
            return;
        }
        g.steps += 1;
        if g.steps > g.max_steps {
            g.hang = true;
            self.cv.notify_all();
            return;
        }
        let cands: Vec<usize> = g.waiting.keys().copied().collect();
        let mut pick = None;
        if g.forced_at < g.forced.len() {
            let f = g.forced[g.forced_at];
            g.forced_at += 1;
            if g.waiting.contains_key(&f) {
                pick = Some(f);
            }
        }
        if pick.is_none() {
            if g.mode == "np" {
                // non-preemptive default: keep the last worker running unless it is a failing idle
                // poller; otherwise the next worker (cyclically) that is not a failing idle poller
                let last = g.choices.last().map(|c| c - 1);
                let ok = |w: &usize| !g.last_idle_fail.contains(w);
                if let Some(lw) = last {
                    if cands.contains(&lw) && ok(&lw) {
                        pick = Some(lw);
                    }
                }
                if pick.is_none() {
                    let start = last.map(|l| l + 1).unwrap_or(0);
                    let n = g.threads;
                    pick = (0..n).map(|i| (start + i) % n).find(|w| cands.contains(w) && ok(w));
                }
                if pick.is_none() {
                    pick = cands.first().copied();
                }
            } else if g.mode == "pct" {
                if g.change_points.contains(&g.steps) {
                    // lower the priority of the currently highest candidate
                    let top = *cands.iter().max_by_key(|w| g.prio[**w]).unwrap();
                    g.low -= 1;
                    g.prio[top] = g.low;
                }
                pick = cands.iter().copied().max_by_key(|w| g.prio[*w]);
            } else {
                // uniform, but an idle poller that just failed is not picked again while others can move
                let pref: Vec<usize> =
                    cands.iter().copied().filter(|w| !g.last_idle_fail.contains(w)).collect();
                let pool = if pref.is_empty() { &cands } else { &pref };
                pick = Some(pool[g.rng.gen_range(0..pool.len())]);
            }
        }
        let p = pick.unwrap();
        g.cand_log.push(cands.iter().map(|c| c + 1).collect());
        g.waiting.remove(&p);
        g.running = Some(p);
        g.choices.push(p + 1);
        self.cv.notify_all();
    }
}

impl Hook for Sched {
    fn yield_point(&self, worker: usize, what: &'static str) {
        if WORKER.with(|w| w.get()) == usize::MAX {
            return; // the calling thread distributing the roots
        }
        let mut g = self.m.lock().unwrap();
        if g.hang {
            drop(g);
            loop {
                std::thread::sleep(Duration::from_secs(3600));
            }
        }
        g.waiting.insert(worker, what);
        if g.running == Some(worker) {
            g.running = None;
        }
        self.decide(&mut g);
        while g.running != Some(worker) {
            if g.hang {
                drop(g);
                loop {
                    std::thread::sleep(Duration::from_secs(3600));
                }
            }
            g = self.cv.wait(g).unwrap();
        }
    }

    fn event(&self, worker: usize, ev: Event) {
        if let Event::Start = ev {
            WORKER.with(|w| w.set(worker));
        }
        let is_worker = WORKER.with(|w| w.get()) != usize::MAX;
        let mut g = self.m.lock().unwrap();
        let w1 = worker + 1;
        let root = g.root.clone();
        let v = match ev {
            Event::Start => {
                g.started.insert(worker);
                json!({"ev":"Start","w":w1})
            }
            Event::Push { quit, path, own_len } => json!({"ev":"Push","w":w1,"quit":quit,
                "path": path.map(|p| rel(&root, &p)).unwrap_or_default(),"own_len":own_len,"init":!is_worker}),
            Event::Recv { kind, path, lens } => {
                if kind != "none" {
                    g.last_idle_fail.clear();
                }
                json!({"ev":"Recv","w":w1,"kind":kind,
                    "path": path.map(|p| rel(&root, &p)).unwrap_or_default(),"lens":lens})
            }
            Event::Chk { quit } => json!({"ev":"Chk","w":w1,"quit":quit}),
            Event::SetQuit => json!({"ev":"SetQuit","w":w1}),
            Event::Deact { remaining } => json!({"ev":"Deact","w":w1,"remaining":remaining}),
            Event::Act => json!({"ev":"Act","w":w1}),
            Event::Sleep => json!({"ev":"Sleep","w":w1}),
            Event::Exit => {
                g.exited.insert(worker);
                g.waiting.remove(&worker);
                if g.running == Some(worker) {
                    g.running = None;
                }
                json!({"ev":"Exit","w":w1})
            }
        };
        match v["ev"].as_str() {
            Some("Sleep") => {
                // a failed poll of the idle loop: do not keep choosing this worker while others can move
                g.last_idle_fail.insert(worker);
                if g.mode == "pct" {
                    g.low -= 1;
                    let l = g.low;
                    g.prio[worker] = l;
                }
            }
            Some("Push") => g.last_idle_fail.clear(),
            Some("Recv") | Some("Start") => {}
            _ => {
                g.last_idle_fail.remove(&worker);
            }
        }
        g.trace.push(v);
        if g.exited.contains(&worker) {
            self.decide(&mut g);
        }
    }
}

fn err_path(e: &ignore::Error) -> Option<std::path::PathBuf> {
    match e {
        ignore::Error::WithPath { path, .. } => Some(path.clone()),
        ignore::Error::WithDepth { err, .. } => err_path(err),
        ignore::Error::WithLineNumber { err, .. } => err_path(err),
        _ => None,
    }
}

fn build_tree(root: &Path, entries: &[String], errs: &BTreeSet<String>) {
    for e in entries {
        let p = root.join(e.trim_end_matches('/'));
        if errs.contains(e.as_str()) {
            // an entry that cannot be read once links are followed: a dangling symbolic link
            if let Some(parent) = p.parent() {
                std::fs::create_dir_all(parent).unwrap();
            }
            std::os::unix::fs::symlink(root.join("__nowhere__"), &p).unwrap();
        } else if e.ends_with('/') {
            std::fs::create_dir_all(&p).unwrap();
        } else {
            if let Some(parent) = p.parent() {
                std::fs::create_dir_all(parent).unwrap();
            }
            std::fs::File::create(&p).unwrap().write_all(b"x\n").unwrap();
        }
    }
}

fn run_scenario(v: &Value, base: &Path) -> Value {
    let id = v["id"].clone();
    let entries: Vec<String> = v["tree"].as_array().unwrap().iter().map(|x| x.as_str().unwrap().to_string()).collect();
    let roots: Vec<String> = v["roots"].as_array().unwrap().iter().map(|x| x.as_str().unwrap().to_string()).collect();
    let threads = v["threads"].as_u64().unwrap_or(2) as usize;
    let seed = v["seed"].as_u64().unwrap_or(0);
    let mode = v["mode"].as_str().unwrap_or("random").to_string();
    let forced: Vec<usize> =
        v["forced"].as_array().map(|a| a.iter().map(|x| x.as_u64().unwrap() as usize - 1).collect()).unwrap_or_default();
    let quit: BTreeSet<String> =
        v["quit"].as_array().map(|a| a.iter().map(|x| x.as_str().unwrap().to_string()).collect()).unwrap_or_default();
    let errs: BTreeSet<String> =
        v["err"].as_array().map(|a| a.iter().map(|x| x.as_str().unwrap().to_string()).collect()).unwrap_or_default();
    let skip: BTreeSet<String> =
        v["skip"].as_array().map(|a| a.iter().map(|x| x.as_str().unwrap().to_string()).collect()).unwrap_or_default();
    let max_steps = v["max_steps"].as_u64().unwrap_or(20000) as usize;
    let root = base.join(format!("t{}", seed % 1000003));
    let _ = std::fs::remove_dir_all(&root);
    std::fs::create_dir_all(&root).unwrap();
    build_tree(&root, &entries.iter().filter(|e| e.as_str() != "<stdin>" && !e.starts_with("gone")).cloned().collect::<Vec<_>>(), &errs);
    // directories that cannot be opened (mode 000; the recorder must not run as root for these): the entry itself is
    // handed out, reading it fails
    let locked: BTreeSet<String> =
        v["locked"].as_array().map(|a| a.iter().map(|x| x.as_str().unwrap().to_string()).collect()).unwrap_or_default();
    if !locked.is_empty() && unsafe { libc::geteuid() } == 0 {
        return json!({"id": id, "toolerror": "scenario with unreadable directories run as root"});
    }
    for d in &locked {
        use std::os::unix::fs::PermissionsExt;
        std::fs::set_permissions(root.join(d), std::fs::Permissions::from_mode(0o000)).unwrap();
    }
    // an ignore file with an unparsable line in the directory ABOVE the roots: every root reports the error through
    // its visitor (Worker::run_one, add_parents) and is then walked as usual
    let badparent = v["badparent"].as_bool().unwrap_or(false);
    if badparent {
        std::fs::File::create(root.join(".ignore")).unwrap().write_all(b"ab[\n").unwrap();
    }

    let mut rng = StdRng::seed_from_u64(seed);
    let mut prio: Vec<i64> = (0..threads as i64).collect();
    for i in (1..threads).rev() {
        let j = rng.gen_range(0..=i);
        prio.swap(i, j);
    }
    let depth = v["pct_depth"].as_u64().unwrap_or(3) as usize;
    let horizon = v["pct_horizon"].as_u64().unwrap_or(150) as usize;
    let mut change_points = BTreeSet::new();
    for _ in 0..depth {
        change_points.insert(rng.gen_range(1..=horizon));
    }
    let sched = Arc::new(Sched {
        m: Mutex::new(Inner {
            root: root.clone(),
            threads,
            started: BTreeSet::new(),
            exited: BTreeSet::new(),
            waiting: BTreeMap::new(),
            running: None,
            rng,
            mode,
            forced,
            forced_at: 0,
            prio,
            change_points,
            low: -1,
            trace: vec![],
            steps: 0,
            max_steps,
            hang: false,
            choices: vec![],
            cand_log: vec![],
            visits: BTreeMap::new(),
            last_idle_fail: BTreeSet::new(),
        }),
        cv: Condvar::new(),
    });
    ignore::verif::set_hook(Some(sched.clone()));

    // the root "<stdin>" is the standard-input entry (given to the builder as "-", never looked up in the file system; its
    // path reads "<stdin>"), any other one a path of the tree
    // (a root whose name starts with "gone" is never created: the distributing thread reports it as an error and goes on)
    let root_path = |r: &String| if r == "<stdin>" { PathBuf::from("-") } else { root.join(r) };
    let mut wb = WalkBuilder::new(root_path(&roots[0]));
    for r in &roots[1..] {
        wb.add(root_path(r));
    }
    wb.threads(threads).standard_filters(false).follow_links(!errs.is_empty());
    if v["samefs"].as_bool().unwrap_or(false) {
        wb.same_file_system(true);
    }
    if badparent {
        wb.ignore(true).parents(true);
    }
    let walker = wb.build_parallel();

    let done = Arc::new(Mutex::new(false));
    let sched2 = sched.clone();
    let root2 = root.clone();
    let quit2 = quit.clone();
    let skip2 = skip.clone();
    let locked2 = locked.clone();
    let done2 = done.clone();
    let handle = std::thread::spawn(move || {
        let r = std::panic::catch_unwind(std::panic::AssertUnwindSafe(|| {
            walker.run(|| {
                let s = sched2.clone();
                let root = root2.clone();
                let quit = quit2.clone();
                let skip = skip2.clone();
                let locked = locked2.clone();
                Box::new(move |res| {
                    let (p, err) = match res {
                        Ok(d) => (rel(&root, d.path()), false),
                        Err(e) => (err_path(&e).map(|p| rel(&root, &p)).unwrap_or_else(|| "<error>".to_string()), true),
                    };
                    let w = WORKER.with(|w| w.get());
                    if err && (p == ".ignore" || p.starts_with("..") || p == "<error>" || p.starts_with("gone")) {
                        // an error that is not about an entry of the tree (a bad ignore file above the roots): noted only
                        let mut g = s.m.lock().unwrap();
                        g.trace.push(json!({"ev":"Note","w":w.wrapping_add(1),"path":p}));
                        return WalkState::Continue;
                    }
                    if err && locked.contains(&p) && s.m.lock().unwrap().visits.contains_key(&p) {
                        // the directory itself was handed out; this is the failure to read it
                        let mut g = s.m.lock().unwrap();
                        g.trace.push(json!({"ev":"Note","w":w.wrapping_add(1),"path":p}));
                        return WalkState::Continue;
                    }
                    let q = quit.contains(&p);
                    {
                        let mut g = s.m.lock().unwrap();
                        *g.visits.entry(p.clone()).or_insert(0) += 1;
                        g.trace.push(json!({"ev":"Visit","w":w.wrapping_add(1),"path":p,"quit":q,"err":err}));
                    }
                    if q { WalkState::Quit } else if skip.contains(&p) { WalkState::Skip } else { WalkState::Continue }
                })
            })
        }));
        *done2.lock().unwrap() = true;
        r.is_ok()
    });
    // watchdog: the walk must end; a hang is data (the process cannot unwind parked workers)
    let t0 = Instant::now();
    let wall = Duration::from_secs(v["wall_s"].as_u64().unwrap_or(30));
    let mut hang = false;
    let mut panicked = false;
    loop {
        if *done.lock().unwrap() {
            panicked = !handle.join().unwrap_or(false);
            break;
        }
        {
            let g = sched.m.lock().unwrap();
            if g.hang {
                hang = true;
                break;
            }
        }
        if t0.elapsed() > wall {
            hang = true;
            sched.m.lock().unwrap().hang = true;
            sched.cv.notify_all();
            break;
        }
        std::thread::sleep(Duration::from_micros(200));
    }
    ignore::verif::set_hook(None);
    let g = sched.m.lock().unwrap();
    let out = json!({"id": id, "trace": g.trace, "visits": g.visits, "hang": hang, "panic": panicked,
        "steps": g.steps, "choices": g.choices, "cands": g.cand_log, "threads": threads,
        "exited": g.exited.len(), "wall_ms": t0.elapsed().as_millis() as u64});
    drop(g);
    for d in &locked {
        use std::os::unix::fs::PermissionsExt;
        let _ = std::fs::set_permissions(root.join(d), std::fs::Permissions::from_mode(0o755));
    }
    if !hang {
        let _ = std::fs::remove_dir_all(&root);
    }
    out
}

fn main() {
    std::panic::set_hook(Box::new(|_| {}));
    let base = std::env::temp_dir().join(format!("verif-walk-{}", std::process::id()));
    std::fs::create_dir_all(&base).unwrap();
    let stdin = std::io::stdin();
    let stdout = std::io::stdout();
    for line in stdin.lock().lines() {
        let line = line.unwrap();
        if line.trim().is_empty() {
            continue;
        }
        let v: Value = serde_json::from_str(&line).expect("scenario json");
        let r = run_scenario(&v, &base);
        let hang = r["hang"].as_bool().unwrap_or(false);
        {
            let mut o = stdout.lock();
            serde_json::to_writer(&mut o, &r).unwrap();
            o.write_all(b"\n").unwrap();
            o.flush().unwrap();
        }
        if hang {
            // parked worker threads cannot be recovered: leave, the driver restarts after this scenario
            let _ = std::fs::remove_dir_all(&base);
            std::process::exit(3);
        }
    }
    let _ = std::fs::remove_dir_all(&base);
}

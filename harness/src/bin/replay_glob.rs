//! S->I driver for the Glob / GlobStrategy specifications (property C12).
//!
//! One scenario = one batch of globs (character string + the four option flags each) together
//! with path universes.  For every glob the driver builds the real `globset::Glob`, evaluates
//! `Glob::compile_matcher()` and a singleton `GlobSet` on *every* path of the universes and
//! reports digests of the accepted path sets (the same encoding the specification emits: per path
//! length `[count, sum num mod P, sum num^2 mod P]`, `num` = the path read as a number in base
//! |alphabet|+1 with digits 1..|alphabet|).  It then builds glob sets from all pairs and from the
//! requested k-subsets of the batch and reports every path on which `GlobSet::matches*` is not
//! exactly the list of members whose own matcher accepts the path.
//! The driver only observes; the verdict is taken by checks/c12.py against TLC's predictions.
use std::ffi::OsStr;
use std::os::unix::ffi::OsStrExt;
use std::panic::{catch_unwind, AssertUnwindSafe};
use std::path::Path;

use globset::{Candidate, ErrorKind, Glob, GlobBuilder, GlobSet, GlobSetBuilder};
use serde_json::{json, Value};
use verif_harness::util::{bytes_of, for_each_json_line};

const P: u64 = 32749;

fn as_path(b: &[u8]) -> &Path {
    Path::new(OsStr::from_bytes(b))
}

/// All paths over `alpha` up to `maxlen`, shortest first, with their numbers.
fn universe(alpha: &[u8], maxlen: usize) -> (Vec<Vec<u8>>, Vec<u64>) {
    let base = alpha.len() as u64 + 1;
    let mut paths: Vec<Vec<u8>> = vec![vec![]];
    let mut nums: Vec<u64> = vec![0];
    let mut lo = 0;
    for _ in 0..maxlen {
        let hi = paths.len();
        for i in lo..hi {
            for (d, &c) in alpha.iter().enumerate() {
                let mut p = paths[i].clone();
                p.push(c);
                paths.push(p);
                nums.push(nums[i] * base + d as u64 + 1);
            }
        }
        lo = hi;
    }
    (paths, nums)
}

/// A list of paths with their prepared candidates (Candidate is the documented way to amortise
/// path preparation over many globs / sets).
struct Paths<'a> {
    paths: &'a [Vec<u8>],
    nums: &'a [u64],
    cands: Vec<Candidate<'a>>,
    maxlen: usize,
}

impl<'a> Paths<'a> {
    fn new(paths: &'a [Vec<u8>], nums: &'a [u64]) -> Paths<'a> {
        let cands = paths.iter().map(|p| Candidate::new(as_path(p))).collect();
        let maxlen = paths.iter().map(|p| p.len()).max().unwrap_or(0);
        Paths { paths, nums, cands, maxlen }
    }
}

fn digest(u: &Paths, bits: &[bool]) -> Value {
    let mut lv = vec![[0u64; 3]; u.maxlen + 1];
    for (i, &b) in bits.iter().enumerate() {
        if b {
            let n = u.nums[i] % P;
            let l = &mut lv[u.paths[i].len()];
            l[0] += 1;
            l[1] = (l[1] + n) % P;
            l[2] = (l[2] + n * n) % P;
        }
    }
    json!(lv.iter().map(|l| vec![l[0], l[1], l[2]]).collect::<Vec<_>>())
}

fn err_class(k: &ErrorKind) -> &'static str {
    match k {
        ErrorKind::InvalidRecursive => "invalid_recursive",
        ErrorKind::UnclosedClass => "unclosed_class",
        ErrorKind::InvalidRange(_, _) => "invalid_range",
        ErrorKind::UnopenedAlternates => "unopened_alternates",
        ErrorKind::UnclosedAlternates => "unclosed_alternates",
        ErrorKind::NestedAlternates => "nested_alternates",
        ErrorKind::DanglingEscape => "dangling_escape",
        ErrorKind::Regex(_) => "regex",
        _ => "other",
    }
}

fn build(g: &Value) -> Result<Glob, String> {
    let chars = bytes_of(&g["chars"]);
    let s = String::from_utf8_lossy(&chars).into_owned();
    let o = &g["o"];
    let r = catch_unwind(AssertUnwindSafe(|| {
        GlobBuilder::new(&s)
            .case_insensitive(o["ci"].as_bool().unwrap_or(false))
            .literal_separator(o["ls"].as_bool().unwrap_or(false))
            .backslash_escape(o["be"].as_bool().unwrap_or(true))
            .empty_alternates(o["ea"].as_bool().unwrap_or(false))
            .build()
    }));
    match r {
        Err(_) => Err("panic".to_string()),
        Ok(Err(e)) => Err(err_class(e.kind()).to_string()),
        Ok(Ok(g)) => Ok(g),
    }
}

/// What a glob set says about path `i` of `u`; the answer is left in `into`.  With `all`, every
/// public entry point is asked and must give the same answer.
fn ask_set(set: &GlobSet, u: &Paths, i: usize, all: bool, into: &mut Vec<usize>) -> Result<(), String> {
    let cand = &u.cands[i];
    into.clear();
    into.push(usize::MAX); // `into` must be cleared by the callee
    set.matches_candidate_into(cand, into);
    if all {
        let path = as_path(&u.paths[i]);
        let b = set.is_match_candidate(cand);
        let v1 = set.matches(path);
        let v2 = set.matches_candidate(cand);
        let mut v3 = vec![usize::MAX - 1, 7];
        set.matches_into(path, &mut v3);
        let b1 = set.is_match(path);
        if &v1 != into || &v2 != into || &v3 != into || b1 != b || b == into.is_empty() {
            return Err(format!(
                "matches={:?} matches_candidate={:?} matches_into={:?} matches_candidate_into={:?} is_match={} is_match_candidate={}",
                v1, v2, v3, into, b1, b
            ));
        }
    }
    Ok(())
}

struct Built {
    idx: usize,
    glob: Glob,
    bits: Vec<bool>,       // matcher on the main universe
    extra_bits: Vec<bool>, // matcher on the extra paths
}

fn check_set(kind: &str, members: &[&Built], u: &Paths, upto: usize, extra: &Paths, verbose: bool) -> Value {
    let mut b = GlobSetBuilder::new();
    for m in members {
        b.add(m.glob.clone());
    }
    let ids: Vec<usize> = members.iter().map(|m| m.idx).collect();
    let set = match catch_unwind(AssertUnwindSafe(|| b.build())) {
        Ok(Ok(s)) => s,
        Ok(Err(e)) => return json!({"kind": kind, "members": ids, "build": err_class(e.kind())}),
        Err(_) => return json!({"kind": kind, "members": ids, "build": "panic"}),
    };
    let mut bad: Vec<Value> = vec![];
    let mut api = vec![];
    let (mut nbad, mut npaths, mut nhit, mut ndot) = (0u64, 0u64, 0u64, 0usize);
    let mut answers = vec![];
    let mut got: Vec<usize> = vec![];
    let mut want: Vec<usize> = vec![];
    for phase in 0..2 {
        let ps = if phase == 0 { u } else { extra };
        for i in 0..ps.paths.len() {
            let p = &ps.paths[i];
            if phase == 0 && p.len() > upto {
                break;
            }
            want.clear();
            for (k, m) in members.iter().enumerate() {
                if if phase == 0 { m.bits[i] } else { m.extra_bits[i] } {
                    want.push(k);
                }
            }
            npaths += 1;
            if !want.is_empty() {
                nhit += 1;
            }
            let all = phase == 1 || i % 5 == 0;
            match catch_unwind(AssertUnwindSafe(|| ask_set(&set, ps, i, all, &mut got))) {
                Err(_) => {
                    nbad += 1;
                    if api.len() < 3 {
                        api.push(json!({"p": p, "what": "panic"}));
                    }
                }
                Ok(Err(what)) => {
                    nbad += 1;
                    if api.len() < 3 {
                        api.push(json!({"p": p, "what": what}));
                    }
                }
                Ok(Ok(())) => {
                    if verbose && phase == 1 {
                        answers.push(json!({"p": p, "got": got, "want": want}));
                    }
                    if got != want {
                        nbad += 1;
                        let dot = p.last() == Some(&b'.');
                        if (dot && ndot < 2) || (!dot && bad.len() - ndot < 4) {
                            if dot {
                                ndot += 1;
                            }
                            bad.push(json!({"p": p, "got": got, "want": want, "dot": dot}));
                        }
                    }
                }
            }
        }
    }
    json!({"kind": kind, "members": ids, "build": "ok", "npaths": npaths, "nhit": nhit, "nbad": nbad, "bad": bad, "api": api, "answers": answers})
}

fn run(scn: &Value) -> Value {
    let alpha = bytes_of(&scn["alpha"]);
    let len = scn["len"].as_u64().unwrap_or(0) as usize;
    let (upaths, unums) = universe(&alpha, len);
    let u = Paths::new(&upaths, &unums);
    let malpha = bytes_of(&scn["malpha"]);
    let mlen = scn["mlen"].as_u64().unwrap_or(0) as usize;
    let (mpaths, mnums) = universe(&malpha, if malpha.is_empty() { 0 } else { mlen });
    let mu = Paths::new(&mpaths, &mnums);
    let full = scn["mode"].as_str() == Some("full");
    let verbose = scn["verbose"].as_bool().unwrap_or(false);
    let epaths: Vec<Vec<u8>> =
        scn["extra_paths"].as_array().map(|a| a.iter().map(bytes_of).collect()).unwrap_or_default();
    let enums = vec![0u64; epaths.len()];
    let extra = Paths::new(&epaths, &enums);
    let empty = vec![];
    let globs = scn["globs"].as_array().unwrap_or(&empty);
    let mut out = vec![];
    let mut built: Vec<Built> = vec![];
    for (gi, g) in globs.iter().enumerate() {
        let glob = match build(g) {
            Err(e) => {
                out.push(json!({"build": e}));
                continue;
            }
            Ok(g) => g,
        };
        let rpaths: Vec<Vec<u8>> = g["rnd"].as_array().map(|a| a.iter().map(bytes_of).collect()).unwrap_or_default();
        let rnums = vec![0u64; rpaths.len()];
        let rnd = Paths::new(&rpaths, &rnums);
        let res = catch_unwind(AssertUnwindSafe(|| {
            let matcher = glob.compile_matcher();
            let set = match GlobSetBuilder::new().add(glob.clone()).build() {
                Ok(s) => s,
                Err(e) => return Err(format!("set_build_{}", err_class(e.kind()))),
            };
            let mut api: Vec<Value> = vec![];
            let mut diff: Vec<Value> = vec![];
            let (mut ndiff, mut ndiff_dot, mut kept_dot, mut kept_other) = (0u64, 0u64, 0, 0);
            let mut into: Vec<usize> = vec![];
            // one pass over a path list: matcher bits, singleton-set bits
            let mut pass = |ps: &Paths, every: usize| -> (Vec<bool>, Vec<bool>) {
                let mut mb = Vec::with_capacity(ps.paths.len());
                let mut sb = Vec::with_capacity(ps.paths.len());
                for i in 0..ps.paths.len() {
                    let p = &ps.paths[i];
                    let m = matcher.is_match_candidate(&ps.cands[i]);
                    if i % every == 0 && matcher.is_match(as_path(p)) != m && api.len() < 3 {
                        api.push(json!({"p": p, "what": "GlobMatcher::is_match differs from is_match_candidate"}));
                    }
                    let s = match ask_set(&set, ps, i, i % every == 0, &mut into) {
                        Ok(()) => {
                            if !into.is_empty() && into != [0] && api.len() < 3 {
                                api.push(json!({"p": p, "what": format!("singleton set answered {:?}", into)}));
                            }
                            !into.is_empty()
                        }
                        Err(what) => {
                            if api.len() < 3 {
                                api.push(json!({"p": p, "what": what}));
                            }
                            false
                        }
                    };
                    if m != s {
                        ndiff += 1;
                        let dot = p.last() == Some(&b'.');
                        if dot {
                            ndiff_dot += 1;
                        }
                        if (dot && kept_dot < 2) || (!dot && kept_other < 4) {
                            if dot {
                                kept_dot += 1;
                            } else {
                                kept_other += 1;
                            }
                            diff.push(json!({"p": p, "m": m, "s": s}));
                        }
                    }
                    mb.push(m);
                    sb.push(s);
                }
                (mb, sb)
            };
            let (bits, sbits) = pass(&u, 5);
            let (mbits, msbits) = pass(&mu, 1);
            let (rnd_m, rnd_s) = pass(&rnd, 1);
            let (extra_bits, extra_s) = pass(&extra, 1);
            let mut r = json!({
                "build": "ok",
                "regex": glob.regex(),
                "m": digest(&u, &bits), "s": digest(&u, &sbits),
                "mm": digest(&mu, &mbits), "ms": digest(&mu, &msbits),
                "rnd_m": rnd_m, "rnd_s": rnd_s,
                "extra_m": extra_bits.clone(), "extra_s": extra_s,
                "ndiff": ndiff, "ndiff_dot": ndiff_dot, "diff": diff, "api": api,
            });
            if full {
                let nums = |ps: &Paths, b: &[bool]| -> Vec<u64> {
                    b.iter().enumerate().filter(|(_, &x)| x).map(|(i, _)| ps.nums[i]).collect()
                };
                r["full_m"] = json!(nums(&u, &bits));
                r["full_s"] = json!(nums(&u, &sbits));
            }
            Ok((r, bits, extra_bits))
        }));
        match res {
            Err(_) => out.push(json!({"build": "ok", "panic": true})),
            Ok(Err(e)) => out.push(json!({"build": e})),
            Ok(Ok((r, bits, extra_bits))) => {
                out.push(r);
                built.push(Built { idx: gi, glob, bits, extra_bits });
            }
        }
    }
    // glob sets: all pairs (on the shorter universe) and the requested k-subsets (whole universe)
    let mut sets = vec![];
    let pairs_len = scn["pairs_len"].as_u64().unwrap_or(0) as usize;
    if scn["pairs"].as_bool().unwrap_or(false) {
        for a in 0..built.len() {
            for b in (a + 1)..built.len() {
                sets.push(check_set("pair", &[&built[a], &built[b]], &u, pairs_len.min(len), &extra, verbose));
            }
        }
    }
    if let Some(ks) = scn["ksets"].as_array() {
        for k in ks {
            let want: Vec<usize> =
                k.as_array().map(|a| a.iter().map(|x| x.as_u64().unwrap() as usize).collect()).unwrap_or_default();
            // members in the requested order (repetitions allowed); globs that did not build are skipped
            let members: Vec<&Built> = want.iter().filter_map(|i| built.iter().find(|b| b.idx == *i)).collect();
            if members.is_empty() {
                continue;
            }
            sets.push(check_set("kset", &members, &u, len, &extra, verbose));
        }
    }
    // the set of no globs at all (asked through the `_into` entry points with a buffer that still holds something)
    sets.push(check_set("empty", &[], &u, pairs_len.max(3).min(len), &extra, verbose));
    // keep the report small: only sets with something to say, plus totals
    let nsets = sets.len();
    let npaths: u64 = sets.iter().map(|s| s["npaths"].as_u64().unwrap_or(0)).sum();
    let nhit: u64 = sets.iter().map(|s| s["nhit"].as_u64().unwrap_or(0)).sum();
    let interesting: Vec<Value> = sets
        .into_iter()
        .filter(|s| verbose || s["build"] != "ok" || s["nbad"].as_u64().unwrap_or(0) > 0)
        .collect();
    json!({"id": scn["id"], "globs": out, "nsets": nsets, "set_paths": npaths, "set_hits": nhit, "sets": interesting})
}

fn main() {
    for_each_json_line(|scn| run(&scn));
}

//! S->I driver for C06: materialises a directory tree described by a WalkModel scenario and walks it
//! with the real single-threaded walker (`WalkBuilder::build`) and the real parallel walker
//! (`WalkBuilder::build_parallel`) for every requested thread count, under every option record
//! ("case") of the scenario. It only *observes*: the comparison against the outcome the TLA+ spec
//! predicts is done by checks/c06.py.
//!
//! stdin, one job per line:
//!   {"id":..,
//!    "nodes":[{"par":0,"kind":"dir"|"file"|"link","big":bool,"tgt":0..,"dev":1|2}, ...],   (1-based ids)
//!    "roots":[1,3],
//!    "cases":[{"md":-1|k,"fs":bool,"fl":bool,"sfs":bool,"filt":0|node,"ignd":0|node,"ignt":0|node,"igndir":bool}, ...],
//!    "threads":[1,2,4,16], "perturb":[4], "seed":0}
//! stdout, one result per line:
//!   {"id":..,"cases":[{"serial":RUN,"par":{"1":RUN,...},"pert":{"4":RUN}}, ...]}
//!   RUN = {"ent":[[path,depth,0] | [path,depth|-1,1,kind], ...],"runaway":bool,"hang":bool,"panic":str?}
//!   or {"id":..,"skipped":true} for jobs after a hang (the process then exits; resubmit them).
//!
//! Rendering: node i is called `n<i>`; nodes with par=0 live directly in the base directory of their
//! device (device 1: a fresh directory under /tmp, device 2: a fresh directory under /dev/shm, which
//! is a different st_dev here); symlinks hold absolute target paths; "big" files have 4096 bytes and
//! `max_filesize` is 1000; the entry filter rejects one file name; the ignored set is a custom ignore
//! file `.cign` placed in directory `ignd` holding the line `n<ignt>` (`n<ignt>/` if igndir; the `.cign` file itself is a
//! harness artefact and is dropped from the observations). Paths are reported with the base
//! directories replaced by `@1` / `@2`.
use std::fs;
use std::io::{BufRead, Write};
use std::path::{Path, PathBuf};
use std::sync::atomic::{AtomicU64, AtomicUsize, Ordering};
use std::sync::{mpsc, Arc, Mutex};
use std::time::Duration;

use ignore::{DirEntry, Error, WalkBuilder, WalkState};
use serde_json::{json, Value};

const BIG: usize = 4096;
const MAX_FILESIZE: u64 = 1000;
const RUNAWAY: usize = 5000;
const IGN_NAME: &str = ".cign";
const HANG_SECS: u64 = 20;

static COUNTER: AtomicUsize = AtomicUsize::new(0);

/// A directory that lives on another device than its parent: a tmpfs is mounted on it.  Only possible in a private mount
/// namespace (the driver is started through `unshare -m` for such scenarios); failure is a tool error.
fn mount_tmpfs(p: &Path, bases: &Bases) {
    use std::os::unix::ffi::OsStrExt;
    let target = std::ffi::CString::new(p.as_os_str().as_bytes()).expect("path");
    let fstype = std::ffi::CString::new("tmpfs").unwrap();
    let rc = unsafe { libc::mount(fstype.as_ptr(), target.as_ptr(), fstype.as_ptr(), 0, std::ptr::null()) };
    if rc != 0 {
        eprintln!("replay_walk: cannot mount a tmpfs on {}: {}", p.display(), std::io::Error::last_os_error());
        std::process::exit(2);
    }
    bases.mounts.lock().unwrap().push(p.to_path_buf());
}

fn unmount_all(mounts: &std::sync::Mutex<Vec<PathBuf>>) {
    use std::os::unix::ffi::OsStrExt;
    let mut g = mounts.lock().unwrap();
    while let Some(p) = g.pop() {
        let target = std::ffi::CString::new(p.as_os_str().as_bytes()).expect("path");
        unsafe { libc::umount2(target.as_ptr(), libc::MNT_DETACH) };
    }
}

#[derive(Clone)]
struct Node {
    par: usize,
    kind: String,
    big: bool,
    tgt: usize,
    dev: u64,
}

struct Bases {
    b1: PathBuf,
    b2: PathBuf,
    // mount points created for this job's tree (unmounted before its directories are removed)
    mounts: std::sync::Mutex<Vec<PathBuf>>,
}

impl Bases {
    fn new() -> Bases {
        let n = COUNTER.fetch_add(1, Ordering::SeqCst);
        let tag = format!("c06-{}-{}", std::process::id(), n);
        let b1 = std::env::temp_dir().join(&tag);
        let b2 = Path::new("/dev/shm").join(&tag);
        let _ = fs::remove_dir_all(&b1);
        let _ = fs::remove_dir_all(&b2);
        fs::create_dir_all(&b1).expect("create base 1");
        fs::create_dir_all(&b2).expect("create base 2");
        {
            use std::os::unix::fs::MetadataExt;
            let d1 = fs::metadata(&b1).expect("stat base 1").dev();
            let d2 = fs::metadata(&b2).expect("stat base 2").dev();
            if d1 == d2 {
                eprintln!("replay_walk: {} and {} are on the same device", b1.display(), b2.display());
                std::process::exit(2);
            }
        }
        Bases { b1, b2, mounts: std::sync::Mutex::new(Vec::new()) }
    }
    fn rel(&self, p: &Path) -> String {
        if let Ok(r) = p.strip_prefix(&self.b1) {
            return format!("@1/{}", r.to_string_lossy());
        }
        if let Ok(r) = p.strip_prefix(&self.b2) {
            return format!("@2/{}", r.to_string_lossy());
        }
        p.to_string_lossy().to_string()
    }
}

impl Drop for Bases {
    fn drop(&mut self) {
        // what lives in a mounted tmpfs goes away with it
        unmount_all(&self.mounts);
        let _ = fs::remove_dir_all(&self.b1);
        let _ = fs::remove_dir_all(&self.b2);
    }
}

fn phys(nodes: &[Node], bases: &Bases, i: usize) -> PathBuf {
    // i is 1-based
    let mut chain = vec![];
    let mut j = i;
    while j != 0 {
        chain.push(j);
        j = nodes[j - 1].par;
    }
    let top = *chain.last().unwrap();
    let mut p = if nodes[top - 1].dev == 2 { bases.b2.clone() } else { bases.b1.clone() };
    for k in chain.iter().rev() {
        p.push(format!("n{}", k));
    }
    p
}

fn materialise(nodes: &[Node], bases: &Bases) {
    for (ix, n) in nodes.iter().enumerate() {
        let i = ix + 1;
        let p = phys(nodes, bases, i);
        match n.kind.as_str() {
            "dir" => {
                fs::create_dir(&p).expect("mkdir");
                if n.par != 0 && nodes[n.par - 1].dev != n.dev {
                    mount_tmpfs(&p, bases);
                }
            }
            "file" if !n.big && i % 2 == 1 => {
                // every other small "file" is a FIFO without a writer: a traversal lists entries, it must not open them
                // (opening such a FIFO for reading would block for ever)
                use std::os::unix::ffi::OsStrExt;
                let c = std::ffi::CString::new(p.as_os_str().as_bytes()).expect("path");
                let rc = unsafe { libc::mkfifo(c.as_ptr(), 0o644) };
                assert_eq!(rc, 0, "mkfifo");
            }
            "file" => {
                let data = vec![b'x'; if n.big { BIG } else { 0 }];
                fs::write(&p, data).expect("write file");
            }
            "link" => {
                let target = if n.tgt == 0 {
                    bases.b1.join("missing")
                } else {
                    phys(nodes, bases, n.tgt)
                };
                std::os::unix::fs::symlink(&target, &p).expect("symlink");
            }
            other => panic!("unknown node kind {other}"),
        }
    }
}

/// (path, depth) carried by an error value, and a coarse kind.
fn err_info(e: &Error) -> (Option<PathBuf>, Option<usize>, &'static str) {
    match e {
        Error::WithDepth { depth, err } => {
            let (p, _, k) = err_info(err);
            (p, Some(*depth), k)
        }
        Error::WithPath { path, err } => {
            let (p, d, k) = err_info(err);
            (p.or_else(|| Some(path.clone())), d, k)
        }
        Error::WithLineNumber { err, .. } => err_info(err),
        Error::Loop { child, .. } => (Some(child.clone()), None, "loop"),
        Error::Io(_) => (None, None, "io"),
        Error::Partial(errs) => {
            if let Some(first) = errs.first() {
                let (p, d, _) = err_info(first);
                (p, d, "partial")
            } else {
                (None, None, "partial")
            }
        }
        _ => (None, None, "other"),
    }
}

fn observe(bases: &Bases, r: Result<DirEntry, Error>) -> Option<Value> {
    match r {
        Ok(d) => {
            if d.file_name() == std::ffi::OsStr::new(IGN_NAME) {
                return None;
            }
            if let Some(e) = d.error() {
                // an entry that carries a (partial) error, e.g. an unreadable ignore file: still an entry
                let _ = e;
            }
            Some(json!([bases.rel(d.path()), d.depth(), 0]))
        }
        Err(e) => {
            let (p, d, k) = err_info(&e);
            let ps = p.map(|p| bases.rel(&p)).unwrap_or_else(|| format!("?{}", e));
            Some(json!([ps, d.map(|x| x as i64).unwrap_or(-1), 1, k]))
        }
    }
}

#[derive(Clone)]
struct Case {
    md: i64,
    fs: bool,
    fl: bool,
    sfs: bool,
    filt: usize,
    ignd: usize,
    ignt: usize,
    igndir: bool,
}

fn builder(nodes: &[Node], bases: &Bases, roots: &[usize], c: &Case) -> WalkBuilder {
    let mut b = WalkBuilder::new(phys(nodes, bases, roots[0]));
    for r in &roots[1..] {
        b.add(phys(nodes, bases, *r));
    }
    b.standard_filters(false);
    b.skip_stdout(false);
    if c.md >= 0 {
        b.max_depth(Some(c.md as usize));
    }
    if c.fs {
        b.max_filesize(Some(MAX_FILESIZE));
    }
    b.follow_links(c.fl);
    b.same_file_system(c.sfs);
    if c.filt != 0 {
        let name = std::ffi::OsString::from(format!("n{}", c.filt));
        b.filter_entry(move |e| e.file_name() != name.as_os_str());
    }
    if c.ignd != 0 {
        b.add_custom_ignore_filename(IGN_NAME);
    }
    b
}

struct Run {
    ent: Vec<Value>,
    runaway: bool,
}

fn run_serial(b: &WalkBuilder, bases: &Bases) -> Run {
    let mut ent = vec![];
    let mut runaway = false;
    for r in b.build() {
        if let Some(v) = observe(bases, r) {
            ent.push(v);
        }
        if ent.len() > RUNAWAY {
            runaway = true;
            break;
        }
    }
    Run { ent, runaway }
}

fn run_parallel(b: &mut WalkBuilder, bases: &Arc<Bases>, threads: usize) -> Run {
    b.threads(threads);
    let out: Arc<Mutex<Vec<Value>>> = Arc::new(Mutex::new(vec![]));
    let count = Arc::new(AtomicUsize::new(0));
    let over = Arc::new(AtomicUsize::new(0));
    b.build_parallel().run(|| {
        let out = out.clone();
        let bases = bases.clone();
        let count = count.clone();
        let over = over.clone();
        Box::new(move |r| {
            if let Some(v) = observe(&bases, r) {
                out.lock().unwrap().push(v);
            }
            if count.fetch_add(1, Ordering::SeqCst) > RUNAWAY {
                over.store(1, Ordering::SeqCst);
                return WalkState::Quit;
            }
            WalkState::Continue
        })
    });
    let ent = std::mem::take(&mut *out.lock().unwrap());
    Run { ent, runaway: over.load(Ordering::SeqCst) != 0 }
}

/// Cheap schedule perturbation through hook H2: a pseudo-random subset of the walker's
/// synchronisation points yields the CPU or spins briefly (never changes behaviour).
struct Perturb {
    state: AtomicU64,
}

impl ignore::verif::Hook for Perturb {
    fn yield_point(&self, worker: usize, _what: &'static str) {
        let mut x = self.state.fetch_add(0x9E37_79B9_7F4A_7C15, Ordering::Relaxed) ^ (worker as u64) << 32;
        x ^= x >> 30;
        x = x.wrapping_mul(0xBF58_476D_1CE4_E5B9);
        x ^= x >> 27;
        match x % 8 {
            0 | 1 => std::thread::yield_now(),
            2 => {
                for _ in 0..(x >> 8) % 2000 {
                    std::hint::spin_loop();
                }
            }
            3 => std::thread::sleep(Duration::from_micros((x >> 8) % 60)),
            _ => {}
        }
    }
    fn event(&self, _worker: usize, _ev: ignore::verif::Event) {}
}

fn run_to_json(r: std::thread::Result<Run>) -> Value {
    match r {
        Ok(run) => json!({"ent": run.ent, "runaway": run.runaway, "hang": false}),
        Err(p) => {
            let msg = p
                .downcast_ref::<String>()
                .cloned()
                .or_else(|| p.downcast_ref::<&str>().map(|s| s.to_string()))
                .unwrap_or_else(|| "panic".to_string());
            json!({"ent": [], "runaway": false, "hang": false, "panic": msg})
        }
    }
}

fn parse_nodes(v: &Value) -> Vec<Node> {
    v.as_array()
        .expect("nodes")
        .iter()
        .map(|n| Node {
            par: n["par"].as_u64().unwrap() as usize,
            kind: n["kind"].as_str().unwrap().to_string(),
            big: n["big"].as_bool().unwrap_or(false),
            tgt: n["tgt"].as_u64().unwrap_or(0) as usize,
            dev: n["dev"].as_u64().unwrap_or(1),
        })
        .collect()
}

fn parse_case(c: &Value) -> Case {
    Case {
        md: c["md"].as_i64().unwrap_or(-1),
        fs: c["fs"].as_bool().unwrap_or(false),
        fl: c["fl"].as_bool().unwrap_or(false),
        sfs: c["sfs"].as_bool().unwrap_or(false),
        filt: c["filt"].as_u64().unwrap_or(0) as usize,
        ignd: c["ignd"].as_u64().unwrap_or(0) as usize,
        ignt: c["ignt"].as_u64().unwrap_or(0) as usize,
        igndir: c["igndir"].as_bool().unwrap_or(false),
    }
}

/// Runs all cases of one job; the flag says that a walk did not come back within HANG_SECS.
fn run_job(job: &Value) -> (Value, bool) {
    let nodes = parse_nodes(&job["nodes"]);
    let roots: Vec<usize> =
        job["roots"].as_array().expect("roots").iter().map(|x| x.as_u64().unwrap() as usize).collect();
    let threads: Vec<usize> = job["threads"]
        .as_array()
        .map(|a| a.iter().map(|x| x.as_u64().unwrap() as usize).collect())
        .unwrap_or_else(|| vec![1, 2, 4, 16]);
    let perturb: Vec<usize> = job["perturb"]
        .as_array()
        .map(|a| a.iter().map(|x| x.as_u64().unwrap() as usize).collect())
        .unwrap_or_default();
    let seed = job["seed"].as_u64().unwrap_or(0);
    let bases = Arc::new(Bases::new());
    materialise(&nodes, &bases);
    let mut results = vec![];
    let mut hung = false;
    for (ci, cv) in job["cases"].as_array().expect("cases").iter().enumerate() {
        let c = parse_case(cv);
        let ignfile = if c.ignd != 0 {
            let p = phys(&nodes, &bases, c.ignd).join(IGN_NAME);
            fs::write(&p, format!("n{}{}\n", c.ignt, if c.igndir { "/" } else { "" })).expect("write ignore file");
            Some(p)
        } else {
            None
        };
        // the walks of one case run on a helper thread so that a traversal that never ends is
        // reported (as data) instead of blocking the driver
        let (tx, rx) = mpsc::channel();
        let nodes2 = nodes.clone();
        let bases2 = bases.clone();
        let roots2 = roots.clone();
        let threads2 = threads.clone();
        let perturb2 = perturb.clone();
        let c2 = c.clone();
        std::thread::spawn(move || {
            let mut res = serde_json::Map::new();
            let ser = std::panic::catch_unwind(std::panic::AssertUnwindSafe(|| {
                let b = builder(&nodes2, &bases2, &roots2, &c2);
                run_serial(&b, &bases2)
            }));
            res.insert("serial".into(), run_to_json(ser));
            // the single-threaded walker again, with entries sorted by file name (a deterministic listing order)
            let sorted = std::panic::catch_unwind(std::panic::AssertUnwindSafe(|| {
                let mut b = builder(&nodes2, &bases2, &roots2, &c2);
                b.sort_by_file_name(|a, b| a.cmp(b));
                run_serial(&b, &bases2)
            }));
            res.insert("sorted".into(), run_to_json(sorted));
            let _ = tx.send(("serial".to_string(), Value::Null));
            let mut par = serde_json::Map::new();
            for t in &threads2 {
                let r = std::panic::catch_unwind(std::panic::AssertUnwindSafe(|| {
                    let mut b = builder(&nodes2, &bases2, &roots2, &c2);
                    run_parallel(&mut b, &bases2, *t)
                }));
                par.insert(t.to_string(), run_to_json(r));
                let _ = tx.send((format!("par{}", t), Value::Null));
            }
            res.insert("par".into(), Value::Object(par));
            let mut pert = serde_json::Map::new();
            for t in &perturb2 {
                let hook: Arc<dyn ignore::verif::Hook> = Arc::new(Perturb {
                    state: AtomicU64::new(seed.wrapping_mul(1_000_003).wrapping_add(ci as u64 * 7919 + *t as u64)),
                });
                ignore::verif::set_hook(Some(hook));
                let r = std::panic::catch_unwind(std::panic::AssertUnwindSafe(|| {
                    let mut b = builder(&nodes2, &bases2, &roots2, &c2);
                    run_parallel(&mut b, &bases2, *t)
                }));
                ignore::verif::set_hook(None);
                pert.insert(t.to_string(), run_to_json(r));
                let _ = tx.send((format!("pert{}", t), Value::Null));
            }
            res.insert("pert".into(), Value::Object(pert));
            let _ = tx.send(("done".to_string(), Value::Object(res)));
        });
        let mut last = "start".to_string();
        let mut got = None;
        loop {
            match rx.recv_timeout(Duration::from_secs(HANG_SECS)) {
                Ok((tag, v)) => {
                    if tag == "done" {
                        got = Some(v);
                        break;
                    }
                    last = tag;
                }
                Err(_) => break,
            }
        }
        match got {
            Some(v) => results.push(v),
            None => {
                results.push(json!({"hang_after": last}));
                hung = true;
            }
        }
        if let Some(p) = ignfile {
            let _ = fs::remove_file(p);
        }
        if hung {
            // the stuck helper thread keeps `bases` alive: remove the directories by hand
            let _ = fs::remove_dir_all(&bases.b1);
            let _ = fs::remove_dir_all(&bases.b2);
            break;
        }
    }
    (json!({"id": job["id"], "cases": results}), hung)
}

fn main() {
    // keep panics of the code under test out of stderr noise; they are reported as data
    std::panic::set_hook(Box::new(|_| {}));
    let stdin = std::io::stdin();
    let stdout = std::io::stdout();
    let mut out = std::io::BufWriter::new(stdout.lock());
    let mut hung = false;
    for line in stdin.lock().lines() {
        let line = line.expect("read stdin");
        let line = line.trim();
        if line.is_empty() {
            continue;
        }
        let job: Value = match serde_json::from_str(line) {
            Ok(v) => v,
            Err(e) => {
                eprintln!("bad json line: {e}");
                std::process::exit(2);
            }
        };
        let res = if hung {
            json!({"id": job["id"], "skipped": true})
        } else {
            let (r, h) = run_job(&job);
            hung = h;
            r
        };
        serde_json::to_writer(&mut out, &res).unwrap();
        out.write_all(b"\n").unwrap();
    }
    out.flush().unwrap();
    if hung {
        // a walker thread is still spinning or blocked: leave without joining it
        std::process::exit(0);
    }
}
